//! The generic completeness / binding oracle, shared by all protocol targets.
use crate::util::*;
use concordium_base::{
    common::{from_bytes, to_bytes},
    random_oracle::{RandomOracle, TranscriptProtocolV1},
    sigma_protocols::common::{prove, verify, SigmaProof, SigmaProtocol},
};
use rand_chacha::ChaCha20Rng;
use vcore::{gen, vensure, CheckResult, Ctx, Unstructured, Violation};

/// A materialised valid instance (public values + the secrets they were built from) that can
/// enumerate its own single-component perturbations.
pub trait Inst: Clone {
    /// Number of single-field perturbations of the public statement.
    fn n_stmt(&self) -> usize;
    /// Apply the i-th one in place (`how` selects the replacement element). Returns the name of
    /// the perturbed field, `None` if not applicable here. The secrets stay untouched.
    fn stmt_mut(&mut self, i: usize, how: u8) -> Option<String>;
    /// Number of single-secret perturbations of the witness.
    fn n_wit(&self) -> usize;
    /// Apply the i-th one in place; the public statement stays untouched.
    fn wit_mut(&mut self, i: usize, how: u8) -> Option<String>;
    /// Every component of the serialised response.
    fn resp_comps(&self) -> Vec<RespComp>;
    /// Length in bytes of the serialised response.
    fn resp_len(&self) -> usize;
    /// Does the relation hold between the (possibly perturbed) public values and the secrets
    /// stored in this instance? Evaluated independently of the protocol code.
    fn holds(&self) -> bool;
    /// True when statement perturbation `i` only moves a boundary between two unlabelled,
    /// uncounted collections, which the legacy oracle documents it does not frame.
    fn legacy_unframed(&self, _i: usize) -> bool { false }
    /// True when statement perturbation `i` hits a public field that `public()` is known not to
    /// feed to the transcript (recorded finding; excluded from the transcript-coverage oracle only).
    fn known_not_in_public(&self, _i: usize) -> bool { false }
}

/// How a proof is produced from an instance.
pub trait Prover<I, P: SigmaProtocol> {
    fn prove<T: Tx>(&self, inst: &I, p: &P, t: &mut T, rng: &mut ChaCha20Rng) -> Option<SigmaProof<P::Response>>;
}

/// The library's own `sigma_protocols::common::prove` with the witness taken from the instance.
pub struct Std<F>(pub F);

impl<I, P: SigmaProtocol, F: Fn(&I) -> P::SecretData> Prover<I, P> for Std<F> {
    fn prove<T: Tx>(&self, inst: &I, p: &P, t: &mut T, rng: &mut ChaCha20Rng) -> Option<SigmaProof<P::Response>> {
        prove(t, p, (self.0)(inst), rng)
    }
}

#[derive(Clone, Copy)]
pub struct Budget {
    pub stmt: usize,
    pub ctx:  usize,
    pub chal: usize,
    pub resp: usize,
    pub wit:  usize,
    pub flip: usize,
    /// honest prover runs on perturbed (false) statements
    pub fstmt: usize,
}

impl Budget {
    pub const CHEAP: Budget = Budget { stmt: 14, ctx: 4, chal: 3, resp: 12, wit: 6, flip: 3, fstmt: 5 };
    pub const PAIRING: Budget = Budget { stmt: 7, ctx: 2, chal: 2, resp: 6, wit: 3, flip: 1, fstmt: 2 };
}

fn viol(oracle: &str, proto: &str, field: &str, detail: String) -> Violation {
    Violation::new(oracle, detail).with_signature(format!("{oracle}:{proto}:{}", sig_name(field)))
}

fn parse_proof<P: SigmaProtocol>(bytes: &[u8]) -> Option<SigmaProof<P::Response>> {
    let mut cur = std::io::Cursor::new(bytes);
    let p: SigmaProof<P::Response> = from_bytes(&mut cur).ok()?;
    if cur.position() as usize != bytes.len() {
        return None;
    }
    // canonical: re-serialises to the same bytes
    if to_bytes(&p) != bytes {
        return None;
    }
    Some(p)
}

/// Dispatch on the transcript implementation chosen by the case.
#[allow(clippy::too_many_arguments)]
pub fn run_any<I: Inst, P: SigmaProtocol, CP: Prover<I, P>>(
    legacy: bool,
    proto: &str,
    inst: &I,
    build: &impl Fn(&I) -> P,
    prover: &CP,
    cx: &CtxSpec,
    u: &mut Unstructured,
    ctx: &mut Ctx,
    budget: Budget,
) -> CheckResult {
    if legacy {
        ctx.class("transcript=legacy");
        run::<I, P, RandomOracle, CP>(proto, inst, build, prover, cx, u, ctx, budget)
    } else {
        ctx.class("transcript=v1");
        run::<I, P, TranscriptProtocolV1, CP>(proto, inst, build, prover, cx, u, ctx, budget)
    }
}

#[allow(clippy::too_many_arguments)]
pub fn run<I: Inst, P: SigmaProtocol, T: Tx, CP: Prover<I, P>>(
    proto: &str,
    inst: &I,
    build: &impl Fn(&I) -> P,
    prover: &CP,
    cx: &CtxSpec,
    u: &mut Unstructured,
    ctx: &mut Ctx,
    budget: Budget,
) -> CheckResult {
    let tname = T::NAME;
    let mut rng = gen::rng(u);
    let stmt = build(inst);
    let t0: T = cx.build();

    // ---- completeness -------------------------------------------------------------------
    let mut tp = t0.fork();
    let proof = match prover.prove(inst, &stmt, &mut tp, &mut rng) {
        Some(p) => p,
        None => {
            return Err(viol("completeness-prove-none", proto, tname, format!("{proto}/{tname}: prove returned None on a valid statement/witness pair")))
        }
    };
    let mut tv = t0.fork();
    if !verify(&mut tv, &stmt, &proof) {
        return Err(viol("completeness-verify", proto, tname, format!("{proto}/{tname}: an honestly produced proof does not verify under the same context")));
    }
    // prover and verifier leave the transcript in the same state (sequential composition)
    if challenge_bytes(&tp.raw()) != challenge_bytes(&tv.raw()) {
        return Err(viol("transcript-sync", proto, tname, format!("{proto}/{tname}: prover and verifier transcripts differ after prove/verify of an accepted proof")));
    }
    // deterministic verification
    vensure!(verify(&mut t0.fork(), &stmt, &proof), "completeness-verify-repeat", "{proto}/{tname}: second verification of the same proof fails");

    let pb = to_bytes(&proof);
    if pb.len() != 32 + inst.resp_len() {
        return Err(viol(
            "harness-layout",
            proto,
            "len",
            format!("{proto}: harness layout: proof is {} bytes, layout says {}", pb.len(), 32 + inst.resp_len()),
        ));
    }
    // the proof round-trips through its serialisation and still verifies
    match parse_proof::<P>(&pb) {
        Some(p2) => vensure!(verify(&mut t0.fork(), &stmt, &p2), "completeness-roundtrip", "{proto}/{tname}: proof does not verify after a serialisation round trip"),
        None => return Err(viol("completeness-roundtrip", proto, "parse", format!("{proto}: an honest proof does not round-trip through Serial/Deserial"))),
    }

    // ---- binding: statement -------------------------------------------------------------
    let n = inst.n_stmt();
    let mut done = 0u64;
    let mut fdone = 0usize;
    let mut fnone = 0u64;
    if !inst.holds() {
        return Err(viol("harness-relation", proto, "holds", format!("{proto}: harness: the relation evaluator rejects a valid instance")));
    }
    for i in pick(u, n, budget.stmt) {
        let how = gen::byte(u);
        let mut m = inst.clone();
        let Some(field) = m.stmt_mut(i, how) else { continue };
        let s2 = build(&m);
        done += 1;
        // `public()` must feed every public input to the transcript
        if inst.known_not_in_public(i) {
            ctx.class("excluded:known-finding(public-input-not-in-transcript)");
        } else if T::NAME == "legacy" && inst.legacy_unframed(i) {
            ctx.class("legacy-unframed-boundary(documented)");
        } else {
            let mut ta = t0.fork();
            stmt.public(&mut ta);
            let mut tb = t0.fork();
            s2.public(&mut tb);
            if challenge_bytes(&ta.raw()) == challenge_bytes(&tb.raw()) {
                return Err(viol(
                    "public-not-in-transcript",
                    proto,
                    &field,
                    format!("{proto}/{tname}: public() feeds the same bytes to the transcript after the public field `{field}` was replaced (variant {how})"),
                ));
            }
        }
        if verify(&mut t0.fork(), &s2, &proof) {
            return Err(viol(
                "binding-statement",
                proto,
                &field,
                format!("{proto}/{tname}: proof still verifies after the public field `{field}` was replaced (variant {how})"),
            ));
        }
        // the honest prover run on a statement that its witness no longer satisfies
        if fdone < budget.fstmt {
            if m.holds() {
                ctx.class("perturbed-statement-still-true");
            } else {
                fdone += 1;
                match prover.prove(&m, &s2, &mut t0.fork(), &mut rng) {
                    None => fnone += 1,
                    Some(p2) => {
                        if verify(&mut t0.fork(), &s2, &p2) {
                            return Err(viol(
                                "false-statement",
                                proto,
                                &field,
                                format!("{proto}/{tname}: after `{field}` was replaced the relation is false for the witness, yet the honest prover's proof for the new statement verifies (variant {how})"),
                            ));
                        }
                    }
                }
            }
        }
    }
    ctx.class_n("perturb-statement", done);
    ctx.class_n("false-statement-proved", fdone as u64);
    ctx.class_n("false-statement-prove-none", fnone);

    // ---- binding: context ---------------------------------------------------------------
    let base_ch = challenge_bytes(&t0.raw());
    let mut done = 0u64;
    for i in pick(u, CtxSpec::N_MUT, budget.ctx) {
        let Some((name, c2)) = cx.mutant(i, u) else { continue };
        let t2: T = c2.build();
        if challenge_bytes(&t2.raw()) == base_ch {
            // the two contexts feed the same bytes (possible with the unframed legacy oracle)
            ctx.class("ctx-perturbation-same-stream");
            continue;
        }
        done += 1;
        if verify(&mut t2.fork(), &stmt, &proof) {
            return Err(viol("binding-context", proto, name, format!("{proto}/{tname}: proof verifies under a different context ({name})")));
        }
    }
    ctx.class_n("perturb-context", done);

    // ---- binding: challenge -------------------------------------------------------------
    let mut done = 0u64;
    for k in 0..budget.chal {
        let mut b = pb.clone();
        let what;
        match k {
            0 => {
                let pos = gen::idx(u, 32);
                b[pos] ^= 1 << (gen::byte(u) % 8);
                what = "bit-flip";
            }
            1 => {
                // the high bits that get_challenge ignores when mapping to a scalar must matter too
                b[31] ^= 0x80;
                b[0] ^= gen::byte(u) & 0x80;
                what = "top-bit";
            }
            _ => {
                b[..32].copy_from_slice(&base_ch);
                what = "context-hash";
            }
        }
        if b == pb {
            continue;
        }
        let Some(p2) = parse_proof::<P>(&b) else { continue };
        done += 1;
        if verify(&mut t0.fork(), &stmt, &p2) {
            return Err(viol("binding-challenge", proto, what, format!("{proto}/{tname}: proof verifies with an altered challenge ({what})")));
        }
    }
    ctx.class_n("perturb-challenge", done);

    // ---- binding: response components ---------------------------------------------------
    let comps = inst.resp_comps();
    let mut done = 0u64;
    for i in pick(u, comps.len(), budget.resp) {
        let c = &comps[i];
        let how = gen::byte(u);
        let mut b = pb.clone();
        let lo = 32 + c.off;
        if lo + c.len > b.len() || !(c.bump)(&mut b[lo..lo + c.len], how) {
            return Err(viol("harness-layout", proto, &c.name, format!("{proto}: harness layout: response component {} at {} does not parse", c.name, c.off)));
        }
        let Some(p2) = parse_proof::<P>(&b) else {
            return Err(viol("harness-layout", proto, &c.name, format!("{proto}: harness layout: perturbed response component {} does not re-parse", c.name)));
        };
        done += 1;
        if verify(&mut t0.fork(), &stmt, &p2) {
            return Err(viol(
                "binding-response",
                proto,
                &c.name,
                format!("{proto}/{tname}: proof verifies after response component `{}` was altered (variant {how})", c.name),
            ));
        }
    }
    ctx.class_n("perturb-response", done);

    // raw byte flips anywhere in the response (length prefixes, tags, keys included): whatever
    // still decodes canonically is a different proof and must be rejected
    let mut done = 0u64;
    if pb.len() > 32 {
        for _ in 0..budget.flip {
            let pos = 32 + gen::idx(u, pb.len() - 32);
            let mut b = pb.clone();
            b[pos] ^= 1 << (gen::byte(u) % 8);
            match parse_proof::<P>(&b) {
                None => ctx.class("response-flip-undecodable"),
                Some(p2) => {
                    done += 1;
                    if verify(&mut t0.fork(), &stmt, &p2) {
                        return Err(viol("binding-response", proto, "byte-flip", format!("{proto}/{tname}: proof verifies after flipping a bit of response byte {}", pos - 32)));
                    }
                }
            }
        }
    }
    ctx.class_n("perturb-response-bytes", done);

    // ---- wrong witness ------------------------------------------------------------------
    let mut done = 0u64;
    let mut none = 0u64;
    for i in pick(u, inst.n_wit(), budget.wit) {
        let how = gen::byte(u);
        let mut m = inst.clone();
        let Some(field) = m.wit_mut(i, how) else { continue };
        done += 1;
        match prover.prove(&m, &stmt, &mut t0.fork(), &mut rng) {
            None => none += 1,
            Some(p2) => {
                if verify(&mut t0.fork(), &stmt, &p2) {
                    return Err(viol(
                        "wrong-witness",
                        proto,
                        &field,
                        format!("{proto}/{tname}: the honest prover run on a witness with `{field}` altered produced a verifying proof"),
                    ));
                }
            }
        }
    }
    ctx.class_n("perturb-witness", done);
    ctx.class_n("wrong-witness-prove-none", none);
    Ok(())
}
