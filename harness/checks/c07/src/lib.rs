//! C07: sigma-protocol proofs are complete and bound to statement and context; transcript
//! framing is injective. See NOTES.md.
pub mod engine;
pub mod protos;
pub mod transcript;
pub mod util;

use concordium_base::{
    common::{from_bytes, to_bytes},
    curve_arithmetic::{Curve, Value},
    id::constants::{ArCurve, BlsG2},
    pedersen_commitment::{Commitment, CommitmentKey, Randomness as PedRandomness},
    random_oracle::{Challenge, RandomOracle, TranscriptProtocol, TranscriptProtocolV1},
    sigma_protocols::{
        com_ineq::{prove_com_ineq, verify_com_ineq, Response as IneqResponse},
        common::{prove, verify, AndAdapter, ReplicateAdapter, SigmaProof, SigmaProtocol},
        dlog::Response as DlogResponse,
        verif::dlog_equal,
    },
};
use curve25519_dalek::ristretto::RistrettoPoint;
use engine::*;
use protos::*;
use util::*;
use vcore::{gen, vensure, CheckResult, Ctx, Property, Target, Unstructured, Violation};

type G1 = ArCurve;
type G2 = BlsG2;
type Ed = RistrettoPoint;

struct Head {
    legacy: bool,
    cx:     CtxSpec,
}

fn head(u: &mut Unstructured) -> Head {
    let legacy = !gen::boolean(u);
    let cx = CtxSpec::decode(u);
    Head { legacy, cx }
}

/// Classification, non-triviality key, sample and description common to all protocol targets.
fn record(ctx: &mut Ctx, tr: &Trace, h: &Head) {
    if tr.boundary > 0 {
        ctx.class("boundary-scalar(0,1,r-1)");
    }
    if tr.edge_sizes > 0 {
        ctx.class("size-0-or-1");
    }
    if tr.boundary > 0 || tr.edge_sizes > 0 {
        ctx.class("nt-completeness(boundary-or-edge-size)");
    }
    if tr.repeats > 0 {
        ctx.class("repeated-generator");
    }
    if tr.identities > 0 {
        ctx.class("identity-public-value");
    }
    ctx.nontrivial(&(tr.key(), h.legacy, &h.cx));
    ctx.sample(|| format!("{} | transcript={} ctx={{domain:{} items:{}}}", tr.text(), if h.legacy { "legacy" } else { "v1" }, gen::hex(&h.cx.domain), h.cx.items.len()));
    ctx.describe(|| format!("{}\ntranscript={}\ncontext={:?}", tr.text(), if h.legacy { "legacy" } else { "v1" }, h.cx));
}

macro_rules! curve3 {
    ($u:expr, $ctx:expr, $f:ident, $($arg:expr),*) => {
        match gen::byte($u) % 3 {
            0 => { $ctx.class("curve=G1"); $f::<G1>("G1", $($arg),*) }
            1 => { $ctx.class("curve=G2"); $f::<G2>("G2", $($arg),*) }
            _ => { $ctx.class("curve=ed25519"); $f::<Ed>("ed25519", $($arg),*) }
        }
    };
}

fn big(_ctx: &Ctx) -> usize { 17 }

// ---- Dlog ----------------------------------------------------------------------------------

fn dlog_case<C: Curve>(cn: &str, h: &Head, u: &mut Unstructured, ctx: &mut Ctx) -> CheckResult {
    let mut tr = Trace::new();
    tr.note(format!("Dlog<{cn}>"));
    let inst = DlogI::<C>::decode(u, &mut tr, &mut Gens::new());
    record(ctx, &tr, h);
    run_any(h.legacy, "Dlog", &inst, &|i: &DlogI<C>| i.build(), &Std(|i: &DlogI<C>| i.wit()), &h.cx, u, ctx, Budget::CHEAP)
}

fn t_dlog(data: &[u8], ctx: &mut Ctx) -> CheckResult {
    let mut u = Unstructured::new(data);
    let h = head(&mut u);
    curve3!(&mut u, ctx, dlog_case, &h, &mut u, ctx)
}

// ---- DlogEqual (hook) ------------------------------------------------------------------------

fn dlogeq_case<C: Curve>(cn: &str, h: &Head, u: &mut Unstructured, ctx: &mut Ctx) -> CheckResult {
    let mut tr = Trace::new();
    tr.note(format!("DlogEqual<{cn}>"));
    let inst = DlogEqI::<C>::decode(u, &mut tr);
    record(ctx, &tr, h);
    run_any(
        h.legacy,
        "DlogEqual",
        &inst,
        &|i: &DlogEqI<C>| {
            let (a, b) = i.parts();
            dlog_equal(a, b)
        },
        &Std(|i: &DlogEqI<C>| i.wit()),
        &h.cx,
        u,
        ctx,
        Budget::CHEAP,
    )
}

fn t_dlogeq(data: &[u8], ctx: &mut Ctx) -> CheckResult {
    let mut u = Unstructured::new(data);
    let h = head(&mut u);
    curve3!(&mut u, ctx, dlogeq_case, &h, &mut u, ctx)
}

// ---- AggregateDlog ---------------------------------------------------------------------------

fn agg_case<C: Curve>(cn: &str, h: &Head, u: &mut Unstructured, ctx: &mut Ctx) -> CheckResult {
    let mut tr = Trace::new();
    tr.note(format!("AggregateDlog<{cn}>"));
    let inst = AggI::<C>::decode(u, &mut tr, big(ctx));
    record(ctx, &tr, h);
    run_any(h.legacy, "AggregateDlog", &inst, &|i: &AggI<C>| i.build(), &Std(|i: &AggI<C>| i.wit()), &h.cx, u, ctx, Budget::CHEAP)
}

fn t_aggdlog(data: &[u8], ctx: &mut Ctx) -> CheckResult {
    let mut u = Unstructured::new(data);
    let h = head(&mut u);
    curve3!(&mut u, ctx, agg_case, &h, &mut u, ctx)
}

// ---- DlogAndAggregateDlogsEqual (hook) -------------------------------------------------------

fn dlogagg_case<C: Curve>(cn: &str, h: &Head, u: &mut Unstructured, ctx: &mut Ctx) -> CheckResult {
    let mut tr = Trace::new();
    tr.note(format!("DlogAndAggregateDlogsEqual<{cn}>"));
    let inst = DlogAggEqI::<C>::decode(u, &mut tr);
    record(ctx, &tr, h);
    run_any(h.legacy, "DlogAndAggregateDlogsEqual", &inst, &|i: &DlogAggEqI<C>| i.build(), &Std(|i: &DlogAggEqI<C>| i.wit()), &h.cx, u, ctx, Budget::CHEAP)
}

fn t_dlogaggeq(data: &[u8], ctx: &mut Ctx) -> CheckResult {
    let mut u = Unstructured::new(data);
    let h = head(&mut u);
    curve3!(&mut u, ctx, dlogagg_case, &h, &mut u, ctx)
}

// ---- ComEq -----------------------------------------------------------------------------------

fn comeq_case<C: Curve, D: Curve<Scalar = C::Scalar>>(cn: &str, h: &Head, u: &mut Unstructured, ctx: &mut Ctx) -> CheckResult {
    let mut tr = Trace::new();
    tr.note(format!("ComEq<{cn}>"));
    let inst = ComEqI::<C, D>::decode(u, &mut tr, &mut Gens::new(), &mut Gens::new());
    record(ctx, &tr, h);
    run_any(h.legacy, "ComEq", &inst, &|i: &ComEqI<C, D>| i.build(), &Std(|i: &ComEqI<C, D>| i.wit()), &h.cx, u, ctx, Budget::CHEAP)
}

fn t_comeq(data: &[u8], ctx: &mut Ctx) -> CheckResult {
    let mut u = Unstructured::new(data);
    let h = head(&mut u);
    match gen::byte(&mut u) % 5 {
        0 => {
            ctx.class("curve=G1,G1");
            comeq_case::<G1, G1>("G1,G1", &h, &mut u, ctx)
        }
        1 => {
            ctx.class("curve=G1,G2");
            comeq_case::<G1, G2>("G1,G2", &h, &mut u, ctx)
        }
        2 => {
            ctx.class("curve=G2,G1");
            comeq_case::<G2, G1>("G2,G1", &h, &mut u, ctx)
        }
        3 => {
            ctx.class("curve=G2,G2");
            comeq_case::<G2, G2>("G2,G2", &h, &mut u, ctx)
        }
        _ => {
            ctx.class("curve=ed25519");
            comeq_case::<Ed, Ed>("ed25519", &h, &mut u, ctx)
        }
    }
}

// ---- ComEqDiffGroups -------------------------------------------------------------------------

fn comeqdg_case<C1: Curve, C2: Curve<Scalar = C1::Scalar>>(cn: &str, h: &Head, u: &mut Unstructured, ctx: &mut Ctx) -> CheckResult {
    let mut tr = Trace::new();
    tr.note(format!("ComEqDiffGroups<{cn}>"));
    let inst = ComEqDgI::<C1, C2>::decode(u, &mut tr);
    record(ctx, &tr, h);
    run_any(h.legacy, "ComEqDiffGroups", &inst, &|i: &ComEqDgI<C1, C2>| i.build(), &Std(|i: &ComEqDgI<C1, C2>| i.wit()), &h.cx, u, ctx, Budget::CHEAP)
}

fn t_comeqdiff(data: &[u8], ctx: &mut Ctx) -> CheckResult {
    let mut u = Unstructured::new(data);
    let h = head(&mut u);
    match gen::byte(&mut u) % 4 {
        0 => {
            ctx.class("curve=G1,G2");
            comeqdg_case::<G1, G2>("G1,G2", &h, &mut u, ctx)
        }
        1 => {
            ctx.class("curve=G2,G1");
            comeqdg_case::<G2, G1>("G2,G1", &h, &mut u, ctx)
        }
        2 => {
            ctx.class("curve=G1,G1");
            comeqdg_case::<G1, G1>("G1,G1", &h, &mut u, ctx)
        }
        _ => {
            ctx.class("curve=ed25519");
            comeqdg_case::<Ed, Ed>("ed25519", &h, &mut u, ctx)
        }
    }
}

// ---- ComEncEq --------------------------------------------------------------------------------

fn comenceq_case<C: Curve>(cn: &str, h: &Head, u: &mut Unstructured, ctx: &mut Ctx) -> CheckResult {
    let mut tr = Trace::new();
    tr.note(format!("ComEncEq<{cn}>"));
    let inst = ComEncEqI::<C>::decode(u, &mut tr);
    record(ctx, &tr, h);
    run_any(h.legacy, "ComEncEq", &inst, &|i: &ComEncEqI<C>| i.build(), &Std(|i: &ComEncEqI<C>| i.wit()), &h.cx, u, ctx, Budget::CHEAP)
}

fn t_comenceq(data: &[u8], ctx: &mut Ctx) -> CheckResult {
    let mut u = Unstructured::new(data);
    let h = head(&mut u);
    curve3!(&mut u, ctx, comenceq_case, &h, &mut u, ctx)
}

/// Reproducer for the recorded finding: `ComEncEq::public` does not feed
/// `encryption_in_exponent_generator` to the transcript. Never part of the generated search
/// (0 cases); replay any input with `--replay <file> --target finding-comenceq-public`.
fn t_finding_comenceq(data: &[u8], ctx: &mut Ctx) -> CheckResult {
    let mut u = Unstructured::new(data);
    let h = head(&mut u);
    let mut tr = Trace::new();
    tr.note("ComEncEq<G1> (strict)");
    let mut inst = ComEncEqI::<G1>::decode(&mut u, &mut tr);
    inst.strict = true;
    ctx.describe(|| tr.text());
    run_any(h.legacy, "ComEncEq", &inst, &|i: &ComEncEqI<G1>| i.build(), &Std(|i: &ComEncEqI<G1>| i.wit()), &h.cx, &mut u, ctx, Budget::CHEAP)
}

// ---- ComLin ----------------------------------------------------------------------------------

fn comlin_case<C: Curve>(cn: &str, h: &Head, u: &mut Unstructured, ctx: &mut Ctx) -> CheckResult {
    let mut tr = Trace::new();
    tr.note(format!("ComLin<{cn}>"));
    let inst = ComLinI::<C>::decode(u, &mut tr, big(ctx));
    record(ctx, &tr, h);
    run_any(h.legacy, "ComLin", &inst, &|i: &ComLinI<C>| i.build(), &ComLinProver, &h.cx, u, ctx, Budget::CHEAP)
}

fn t_comlin(data: &[u8], ctx: &mut Ctx) -> CheckResult {
    let mut u = Unstructured::new(data);
    let h = head(&mut u);
    curve3!(&mut u, ctx, comlin_case, &h, &mut u, ctx)
}

// ---- ComMult ---------------------------------------------------------------------------------

fn commult_case<C: Curve>(cn: &str, h: &Head, u: &mut Unstructured, ctx: &mut Ctx) -> CheckResult {
    let mut tr = Trace::new();
    tr.note(format!("ComMult<{cn}>"));
    let inst = ComMultI::<C>::decode(u, &mut tr, &mut Gens::new());
    record(ctx, &tr, h);
    run_any(h.legacy, "ComMult", &inst, &|i: &ComMultI<C>| i.build(), &Std(|i: &ComMultI<C>| i.wit()), &h.cx, u, ctx, Budget::CHEAP)
}

fn t_commult(data: &[u8], ctx: &mut Ctx) -> CheckResult {
    let mut u = Unstructured::new(data);
    let h = head(&mut u);
    curve3!(&mut u, ctx, commult_case, &h, &mut u, ctx)
}

// ---- VecComEq --------------------------------------------------------------------------------

fn vcomeq_case<C: Curve>(cn: &str, h: &Head, u: &mut Unstructured, ctx: &mut Ctx) -> CheckResult {
    let mut tr = Trace::new();
    tr.note(format!("VecComEq<{cn}>"));
    let inst = VecComEqI::<C>::decode(u, &mut tr, big(ctx));
    record(ctx, &tr, h);
    run_any(h.legacy, "VecComEq", &inst, &|i: &VecComEqI<C>| i.build(), &Std(|i: &VecComEqI<C>| i.wit()), &h.cx, u, ctx, Budget::CHEAP)
}

fn t_vcomeq(data: &[u8], ctx: &mut Ctx) -> CheckResult {
    let mut u = Unstructured::new(data);
    let h = head(&mut u);
    curve3!(&mut u, ctx, vcomeq_case, &h, &mut u, ctx)
}

// ---- EncTrans --------------------------------------------------------------------------------

fn enctrans_case<C: Curve>(cn: &str, h: &Head, u: &mut Unstructured, ctx: &mut Ctx) -> CheckResult {
    let mut tr = Trace::new();
    tr.note(format!("EncTrans<{cn}>"));
    let inst = EncTransI::<C>::decode(u, &mut tr, 9);
    record(ctx, &tr, h);
    run_any(h.legacy, "EncTrans", &inst, &|i: &EncTransI<C>| i.build(), &Std(|i: &EncTransI<C>| i.wit()), &h.cx, u, ctx, Budget::CHEAP)
}

fn t_enctrans(data: &[u8], ctx: &mut Ctx) -> CheckResult {
    let mut u = Unstructured::new(data);
    let h = head(&mut u);
    match gen::byte(&mut u) % 4 {
        0 | 1 => {
            ctx.class("curve=G1");
            enctrans_case::<G1>("G1", &h, &mut u, ctx)
        }
        2 => {
            ctx.class("curve=ed25519");
            enctrans_case::<Ed>("ed25519", &h, &mut u, ctx)
        }
        _ => {
            ctx.class("curve=G2");
            enctrans_case::<G2>("G2", &h, &mut u, ctx)
        }
    }
}

// ---- ComEqSig / PsSigKnown (pairing) ---------------------------------------------------------

fn comeqsig_case<C: Curve<Scalar = Fr>>(cn: &str, h: &Head, u: &mut Unstructured, ctx: &mut Ctx) -> CheckResult {
    let mut tr = Trace::new();
    tr.note(format!("ComEqSig<Bls12,{cn}>"));
    let inst = ComEqSigI::<C>::decode(u, &mut tr, 17);
    record(ctx, &tr, h);
    run_any(h.legacy, "ComEqSig", &inst, &|i: &ComEqSigI<C>| i.build(), &Std(|i: &ComEqSigI<C>| i.wit()), &h.cx, u, ctx, Budget::PAIRING)
}

fn t_comeqsig(data: &[u8], ctx: &mut Ctx) -> CheckResult {
    let mut u = Unstructured::new(data);
    let h = head(&mut u);
    if gen::byte(&mut u) % 4 == 3 {
        ctx.class("curve=Bls12,G2");
        comeqsig_case::<G2>("G2", &h, &mut u, ctx)
    } else {
        ctx.class("curve=Bls12,G1");
        comeqsig_case::<G1>("G1", &h, &mut u, ctx)
    }
}

fn pssig_case<C: Curve<Scalar = Fr>>(cn: &str, h: &Head, u: &mut Unstructured, ctx: &mut Ctx) -> CheckResult {
    let mut tr = Trace::new();
    tr.note(format!("PsSigKnown<Bls12,{cn}>"));
    let inst = PsKnownI::<C>::decode(u, &mut tr, 17);
    for k in [MsgKind::Cmm, MsgKind::Public, MsgKind::Known] {
        if inst.kinds.contains(&k) {
            ctx.class(&format!("has-{k:?}"));
        }
    }
    record(ctx, &tr, h);
    run_any(h.legacy, "PsSigKnown", &inst, &|i: &PsKnownI<C>| i.build(), &Std(|i: &PsKnownI<C>| i.wit()), &h.cx, u, ctx, Budget::PAIRING)
}

fn t_pssig(data: &[u8], ctx: &mut Ctx) -> CheckResult {
    let mut u = Unstructured::new(data);
    let h = head(&mut u);
    if gen::byte(&mut u) % 4 == 3 {
        ctx.class("curve=Bls12,G2");
        pssig_case::<G2>("G2", &h, &mut u, ctx)
    } else {
        ctx.class("curve=Bls12,G1");
        pssig_case::<G1>("G1", &h, &mut u, ctx)
    }
}

// ---- com_ineq (own fixed transcript, no caller context) --------------------------------------

fn ineq_case<C: Curve>(cn: &str, u: &mut Unstructured, ctx: &mut Ctx) -> CheckResult {
    let mut tr = Trace::new();
    tr.note(format!("com_ineq<{cn}>"));
    let mut gens = Gens::<C>::new();
    let kg = gens.next(u, &mut tr, "com_key.g");
    let kh = gens.next(u, &mut tr, "com_key.h");
    let value = scalar::<C>(u, &mut tr, "value");
    let rand = scalar::<C>(u, &mut tr, "value_tilde");
    // public value: different from the value; often adjacent to it
    let mut pub_value = match gen::byte(u) % 4 {
        0 => {
            tr.note("pub=value+1");
            perturb_scalar::<C>(&value, 0)
        }
        1 => {
            tr.note("pub=value-1");
            perturb_scalar::<C>(&value, 3)
        }
        _ => scalar::<C>(u, &mut tr, "pub_value"),
    };
    if pub_value == value {
        tr.note("(pub->value+1)");
        pub_value = perturb_scalar::<C>(&value, 0);
    }
    let key = CommitmentKey { g: kg, h: kh };
    let cmm = key.hide(&Value::<C>::new(value), &PedRandomness::new(rand));
    tr.public_point(&cmm.0);
    if tr.boundary > 0 {
        ctx.class("boundary-scalar(0,1,r-1)");
        ctx.class("nt-completeness(boundary-or-edge-size)");
    }
    if tr.repeats > 0 {
        ctx.class("repeated-generator");
    }
    if tr.identities > 0 {
        ctx.class("identity-public-value");
    }
    ctx.nontrivial(&tr.key());
    ctx.sample(|| tr.text());
    ctx.describe(|| tr.text());
    let mut rng = gen::rng(u);
    let p = "com_ineq";
    let v = |o: &str, f: &str, d: String| Violation::new(o, d).with_signature(format!("{o}:{p}:{}", sig_name(f)));

    // completeness
    let proof = match prove_com_ineq(&key, &Value::new(value), &PedRandomness::new(rand), pub_value, &mut rng) {
        Some(x) => x,
        None => return Err(v("completeness-prove-none", "-", "prove_com_ineq returned None although value != pub_value".into())),
    };
    if !verify_com_ineq(&key, &cmm, pub_value, &proof) {
        return Err(v("completeness-verify", "-", "an honest inequality proof does not verify".into()));
    }
    // equal values: no proof
    vensure!(
        prove_com_ineq(&key, &Value::new(value), &PedRandomness::new(rand), value, &mut rng).is_none(),
        "ineq-equal-values",
        "prove_com_ineq produced a proof for value == pub_value"
    );
    // the honest proof for pub_value must not verify against the true value
    if verify_com_ineq(&key, &cmm, value, &proof) {
        return Err(v("binding-statement", "pub_value(=value)", "inequality proof verifies for the committed value itself".into()));
    }

    // statement perturbations
    let how = gen::byte(u);
    let k2 = CommitmentKey { g: perturb_point(&kg, how), h: kh };
    if verify_com_ineq(&k2, &cmm, pub_value, &proof) {
        return Err(v("binding-statement", "com_key.g", "proof verifies with com_key.g replaced".into()));
    }
    let k3 = CommitmentKey { g: kg, h: perturb_point(&kh, how) };
    if verify_com_ineq(&k3, &cmm, pub_value, &proof) {
        return Err(v("binding-statement", "com_key.h", "proof verifies with com_key.h replaced".into()));
    }
    if verify_com_ineq(&key, &Commitment(perturb_point(&cmm.0, how)), pub_value, &proof) {
        return Err(v("binding-statement", "commitment", "proof verifies with the commitment replaced".into()));
    }
    let pv2 = perturb_scalar::<C>(&pub_value, how);
    if verify_com_ineq(&key, &cmm, pv2, &proof) {
        return Err(v("binding-statement", "pub_value", "proof verifies with pub_value replaced".into()));
    }
    ctx.class_n("perturb-statement", 5);

    // proof perturbations: challenge | ss[2] ts[2] t | aux_com
    let pb = to_bytes(&proof);
    let l = C::SCALAR_LENGTH;
    if pb.len() != 32 + 5 * l + C::GROUP_ELEMENT_LENGTH {
        return Err(v("harness-layout", "len", format!("com_ineq proof is {} bytes", pb.len())));
    }
    let parse = |b: &[u8]| -> Option<IneqResponse<C>> {
        let mut cur = std::io::Cursor::new(b);
        let r: IneqResponse<C> = from_bytes(&mut cur).ok()?;
        if cur.position() as usize != b.len() || to_bytes(&r) != b {
            return None;
        }
        Some(r)
    };
    vensure!(parse(&pb).map(|r| verify_com_ineq(&key, &cmm, pub_value, &r)) == Some(true), "completeness-roundtrip", "com_ineq proof does not survive a serialisation round trip");
    let names = ["ss[0]", "ss[1]", "ts[0]", "ts[1]", "t"];
    for (i, name) in names.iter().enumerate() {
        let mut b = pb.clone();
        let lo = 32 + i * l;
        if !bump_scalar::<C>(&mut b[lo..lo + l], gen::byte(u)) {
            return Err(v("harness-layout", name, "scalar does not parse".into()));
        }
        let Some(r) = parse(&b) else { return Err(v("harness-layout", name, "perturbed proof does not parse".into())) };
        if verify_com_ineq(&key, &cmm, pub_value, &r) {
            return Err(v("binding-response", name, format!("inequality proof verifies after `{name}` was altered")));
        }
    }
    {
        let mut b = pb.clone();
        let lo = 32 + 5 * l;
        if !bump_point::<C>(&mut b[lo..], gen::byte(u)) {
            return Err(v("harness-layout", "aux_com", "point does not parse".into()));
        }
        let Some(r) = parse(&b) else { return Err(v("harness-layout", "aux_com", "perturbed proof does not parse".into())) };
        if verify_com_ineq(&key, &cmm, pub_value, &r) {
            return Err(v("binding-response", "aux_com", "inequality proof verifies after aux_com was replaced".into()));
        }
    }
    {
        let mut b = pb.clone();
        let pos = gen::idx(u, 32);
        b[pos] ^= 1 << (gen::byte(u) % 8);
        if let Some(r) = parse(&b) {
            if verify_com_ineq(&key, &cmm, pub_value, &r) {
                return Err(v("binding-challenge", "bit-flip", "inequality proof verifies with an altered challenge".into()));
            }
        }
    }
    ctx.class_n("perturb-response", 6);
    ctx.class_n("perturb-challenge", 1);

    // wrong witness: a proof made for another opening does not verify against this commitment
    for (name, v2, r2) in [("value", perturb_scalar::<C>(&value, gen::byte(u)), rand), ("value_tilde", value, perturb_scalar::<C>(&rand, gen::byte(u)))] {
        if v2 == pub_value {
            continue;
        }
        if let Some(p2) = prove_com_ineq(&key, &Value::new(v2), &PedRandomness::new(r2), pub_value, &mut rng) {
            if verify_com_ineq(&key, &cmm, pub_value, &p2) {
                return Err(v("wrong-witness", name, format!("a proof made with `{name}` altered verifies against the original commitment")));
            }
        }
        ctx.class_n("perturb-witness", 1);
    }
    Ok(())
}

fn t_comineq(data: &[u8], ctx: &mut Ctx) -> CheckResult {
    let mut u = Unstructured::new(data);
    match gen::byte(&mut u) % 3 {
        0 => {
            ctx.class("curve=G1");
            ineq_case::<G1>("G1", &mut u, ctx)
        }
        1 => {
            ctx.class("curve=G2");
            ineq_case::<G2>("G2", &mut u, ctx)
        }
        _ => {
            ctx.class("curve=ed25519");
            ineq_case::<Ed>("ed25519", &mut u, ctx)
        }
    }
}

// ---- AndAdapter ------------------------------------------------------------------------------

/// Swapped order in an AND of two protocols of the same type.
fn and_swap<C: Curve, T: Tx>(inst: &AndI<DlogI<C>, DlogI<C>>, cx: &CtxSpec, u: &mut Unstructured, ctx: &mut Ctx) -> CheckResult {
    if inst.a.base == inst.b.base && inst.a.public == inst.b.public {
        ctx.class("and-swap-noop(equal-statements)");
        return Ok(());
    }
    let t0: T = cx.build();
    let mut rng = gen::rng(u);
    let stmt = AndAdapter { first: inst.a.build(), second: inst.b.build() };
    let swapped = AndAdapter { first: inst.b.build(), second: inst.a.build() };
    let Some(proof) = prove(&mut t0.fork(), &stmt, (inst.a.wit(), inst.b.wit()), &mut rng) else {
        return Err(Violation::new("completeness-prove-none", "And<Dlog,Dlog>: prove returned None").with_signature("completeness-prove-none:And"));
    };
    vensure!(verify(&mut t0.fork(), &stmt, &proof), "completeness-verify", "And<Dlog,Dlog>: honest proof does not verify");
    if verify(&mut t0.fork(), &swapped, &proof) {
        return Err(Violation::new("binding-statement", format!("And<Dlog,Dlog>/{}: proof verifies with the two statements swapped", T::NAME)).with_signature("binding-statement:And:swapped-order"));
    }
    // statements and responses swapped consistently
    let pb = to_bytes(&proof);
    let l = C::SCALAR_LENGTH;
    let mut b = pb.clone();
    b[32..32 + l].copy_from_slice(&pb[32 + l..32 + 2 * l]);
    b[32 + l..32 + 2 * l].copy_from_slice(&pb[32..32 + l]);
    let p2: SigmaProof<concordium_base::sigma_protocols::common::AndResponse<DlogResponse<C>, DlogResponse<C>>> = match from_bytes(&mut std::io::Cursor::new(&b)) {
        Ok(p) => p,
        Err(_) => return Err(Violation::new("harness-layout", "And response does not re-parse").with_signature("harness-layout:And")),
    };
    if verify(&mut t0.fork(), &swapped, &p2) {
        return Err(Violation::new("binding-statement", format!("And<Dlog,Dlog>/{}: proof verifies with statements and responses swapped", T::NAME))
            .with_signature("binding-statement:And:swapped-order-consistent"));
    }
    ctx.class_n("perturb-and-order", 2);
    Ok(())
}

fn and_dlog2<C: Curve>(cn: &str, h: &Head, u: &mut Unstructured, ctx: &mut Ctx) -> CheckResult {
    let mut tr = Trace::new();
    tr.note(format!("And<Dlog<{cn}>,Dlog<{cn}>>"));
    let mut gens = Gens::new();
    let inst = AndI { a: DlogI::<C>::decode(u, &mut tr, &mut gens), b: DlogI::<C>::decode(u, &mut tr, &mut gens) };
    record(ctx, &tr, h);
    run_any(
        h.legacy,
        "And<Dlog,Dlog>",
        &inst,
        &|i: &AndI<DlogI<C>, DlogI<C>>| and_build(i, |a| a.build(), |b| b.build()),
        &Std(|i: &AndI<DlogI<C>, DlogI<C>>| (i.a.wit(), i.b.wit())),
        &h.cx,
        u,
        ctx,
        Budget::CHEAP,
    )?;
    if h.legacy {
        and_swap::<C, RandomOracle>(&inst, &h.cx, u, ctx)
    } else {
        and_swap::<C, TranscriptProtocolV1>(&inst, &h.cx, u, ctx)
    }
}

fn t_and(data: &[u8], ctx: &mut Ctx) -> CheckResult {
    let mut u = Unstructured::new(data);
    let h = head(&mut u);
    match gen::byte(&mut u) % 5 {
        0 => {
            ctx.class("shape=And<Dlog,Dlog>/G1");
            and_dlog2::<G1>("G1", &h, &mut u, ctx)
        }
        1 => {
            ctx.class("shape=And<Dlog,Dlog>/ed25519");
            and_dlog2::<Ed>("ed25519", &h, &mut u, ctx)
        }
        2 => {
            ctx.class("shape=And<Dlog<G1>,ComEq<G1,G2>>");
            let mut tr = Trace::new();
            tr.note("And<Dlog<G1>,ComEq<G1,G2>>");
            let mut gens = Gens::new();
            let inst = AndI { a: DlogI::<G1>::decode(&mut u, &mut tr, &mut gens), b: ComEqI::<G1, G2>::decode(&mut u, &mut tr, &mut gens, &mut Gens::new()) };
            record(ctx, &tr, &h);
            run_any(
                h.legacy,
                "And<Dlog,ComEq>",
                &inst,
                &|i: &AndI<DlogI<G1>, ComEqI<G1, G2>>| and_build(i, |a| a.build(), |b| b.build()),
                &Std(|i: &AndI<DlogI<G1>, ComEqI<G1, G2>>| (i.a.wit(), i.b.wit())),
                &h.cx,
                &mut u,
                ctx,
                Budget::CHEAP,
            )
        }
        3 => {
            // nested, built with add_prover: And<And<Dlog, ComMult>, AggregateDlog>
            ctx.class("shape=And<And<Dlog,ComMult>,AggregateDlog>/G1");
            let mut tr = Trace::new();
            tr.note("And<And<Dlog,ComMult>,AggregateDlog>/G1");
            let mut gens = Gens::new();
            let d = DlogI::<G1>::decode(&mut u, &mut tr, &mut gens);
            let m = ComMultI::<G1>::decode(&mut u, &mut tr, &mut gens);
            let n = size(&mut u, &mut tr, "n", 0, 5);
            let a = AggI::<G1>::decode_sized(&mut u, &mut tr, &mut gens, n, None);
            let inst = AndI { a: AndI { a: d, b: m }, b: a };
            record(ctx, &tr, &h);
            type I3 = AndI<AndI<DlogI<G1>, ComMultI<G1>>, AggI<G1>>;
            run_any(
                h.legacy,
                "And<And<Dlog,ComMult>,AggregateDlog>",
                &inst,
                &|i: &I3| AndAdapter { first: i.a.a.build(), second: i.a.b.build() }.add_prover(i.b.build()),
                &Std(|i: &I3| ((i.a.a.wit(), i.a.b.wit()), i.b.wit())),
                &h.cx,
                &mut u,
                ctx,
                Budget::CHEAP,
            )
        }
        _ => {
            ctx.class("shape=And<ComEncEq,ComEqDiffGroups>/ed25519");
            let mut tr = Trace::new();
            tr.note("And<ComEncEq<ed25519>,ComEqDiffGroups<ed25519,ed25519>>");
            let inst = AndI { a: ComEncEqI::<Ed>::decode(&mut u, &mut tr), b: ComEqDgI::<Ed, Ed>::decode(&mut u, &mut tr) };
            record(ctx, &tr, &h);
            type I2 = AndI<ComEncEqI<Ed>, ComEqDgI<Ed, Ed>>;
            run_any(
                h.legacy,
                "And<ComEncEq,ComEqDiffGroups>",
                &inst,
                &|i: &I2| and_build(i, |a| a.build(), |b| b.build()),
                &Std(|i: &I2| (i.a.wit(), i.b.wit())),
                &h.cx,
                &mut u,
                ctx,
                Budget::CHEAP,
            )
        }
    }
}

// ---- ReplicateAdapter ------------------------------------------------------------------------

/// A prover who knows the witnesses of only the first k of n replicated statements: the public input
/// fed to the transcript is that of the full statement, everything else is the k-fold prefix. Run
/// through the library's own `prove`; the result must not verify against the full statement.
struct PrefixCheat<P: SigmaProtocol> {
    full:   ReplicateAdapter<P>,
    prefix: ReplicateAdapter<P>,
}

impl<P: SigmaProtocol> SigmaProtocol for PrefixCheat<P> {
    type CommitMessage = <ReplicateAdapter<P> as SigmaProtocol>::CommitMessage;
    type ProtocolChallenge = <ReplicateAdapter<P> as SigmaProtocol>::ProtocolChallenge;
    type ProverState = <ReplicateAdapter<P> as SigmaProtocol>::ProverState;
    type Response = <ReplicateAdapter<P> as SigmaProtocol>::Response;
    type SecretData = <ReplicateAdapter<P> as SigmaProtocol>::SecretData;

    fn public(&self, ro: &mut impl TranscriptProtocol) { self.full.public(ro) }

    fn compute_commit_message<R: rand::Rng>(&self, csprng: &mut R) -> Option<(Self::CommitMessage, Self::ProverState)> {
        self.prefix.compute_commit_message(csprng)
    }

    fn get_challenge(&self, challenge: &Challenge) -> Self::ProtocolChallenge { self.prefix.get_challenge(challenge) }

    fn compute_response(&self, secret: Self::SecretData, state: Self::ProverState, challenge: &Self::ProtocolChallenge) -> Option<Self::Response> {
        self.prefix.compute_response(secret, state, challenge)
    }

    fn extract_commit_message(&self, challenge: &Self::ProtocolChallenge, response: &Self::Response) -> Option<Self::CommitMessage> {
        self.prefix.extract_commit_message(challenge, response)
    }
}

/// Partial-witness forgeries against a replicated statement of `n` components, for prefixes of
/// 1, n/2 and n-1 components.
fn rep_prefix_forgery<P: SigmaProtocol, T: Tx>(
    proto: &str,
    n: usize,
    build: &impl Fn(usize) -> ReplicateAdapter<P>,
    wit: &impl Fn(usize) -> <ReplicateAdapter<P> as SigmaProtocol>::SecretData,
    cx: &CtxSpec,
    ctx: &mut Ctx,
) -> CheckResult {
    use rand::SeedableRng;
    if n < 1 {
        return Ok(());
    }
    let mut rng = rand::rngs::StdRng::seed_from_u64(n as u64);
    let t0: T = cx.build();
    let full = build(n);
    // surplus responses: an honest proof whose response vector is really lengthened by one element
    // (count bumped, a copy of the last or the first response appended) must be rejected
    if let Some(honest) = prove(&mut t0.fork(), &full, wit(n), &mut rng) {
        let b = to_bytes(&honest);
        let body = b.len() - 36; // challenge (32) + u32 count
        if body % n == 0 && body > 0 && u32::from_be_bytes(b[32..36].try_into().unwrap()) as usize == n {
            let each = body / n;
            for from_last in [true, false] {
                let mut c = b.clone();
                c[32..36].copy_from_slice(&((n + 1) as u32).to_be_bytes());
                let src = if from_last { b.len() - each..b.len() } else { 36..36 + each };
                c.extend_from_slice(&b[src]);
                let mut cur = std::io::Cursor::new(&c[..]);
                if let Ok(p2) = from_bytes::<SigmaProof<<ReplicateAdapter<P> as SigmaProtocol>::Response>, _>(&mut cur) {
                    ctx.class("surplus-response");
                    if verify(&mut t0.fork(), &full, &p2) {
                        return Err(Violation::new(
                            "surplus-response",
                            format!("{proto} ({}): an honest proof for {n} replicated statements still verifies with {} responses (one appended)", T::NAME, n + 1),
                        )
                        .with_signature(format!("surplus-response:{proto}")));
                    }
                }
            }
        } else {
            ctx.class("surplus-response:layout-unknown");
        }
    }
    let mut ks = vec![1, n / 2, n - 1];
    ks.dedup();
    ks.retain(|k| *k >= 1 && *k < n);
    for k in ks {
        let cheat = PrefixCheat { full: build(n), prefix: build(k) };
        let Some(forged) = prove(&mut t0.fork(), &cheat, wit(k), &mut rng) else {
            ctx.class("prefix-forgery:prover-none");
            continue;
        };
        ctx.class("prefix-forgery");
        if verify(&mut t0.fork(), &full, &forged) {
            return Err(Violation::new(
                "partial-witness",
                format!("{proto} ({}): a proof made from the witnesses of the first {k} of {n} replicated statements (and {k} responses) verifies against the full statement", T::NAME),
            )
            .with_signature(format!("partial-witness:{proto}")));
        }
    }
    Ok(())
}

fn rep_prefix_forgery_any<P: SigmaProtocol>(
    legacy: bool,
    proto: &str,
    n: usize,
    build: &impl Fn(usize) -> ReplicateAdapter<P>,
    wit: &impl Fn(usize) -> <ReplicateAdapter<P> as SigmaProtocol>::SecretData,
    cx: &CtxSpec,
    ctx: &mut Ctx,
) -> CheckResult {
    if legacy {
        rep_prefix_forgery::<P, RandomOracle>(proto, n, build, wit, cx, ctx)
    } else {
        rep_prefix_forgery::<P, TranscriptProtocolV1>(proto, n, build, wit, cx, ctx)
    }
}

fn rep_dlog<C: Curve>(cn: &str, h: &Head, u: &mut Unstructured, ctx: &mut Ctx) -> CheckResult {
    let mut tr = Trace::new();
    tr.note(format!("Replicate<Dlog<{cn}>>"));
    let n = size(u, &mut tr, "count", 1, 17);
    let mut gens = Gens::new();
    let v: Vec<_> = (0..n).map(|_| DlogI::<C>::decode(u, &mut tr, &mut gens)).collect();
    let inst = RepI { v, wit_n: n };
    record(ctx, &tr, h);
    run_any(
        h.legacy,
        "Replicate<Dlog>",
        &inst,
        &|i: &RepI<DlogI<C>>| rep_build(i, |a| a.build()),
        &Std(|i: &RepI<DlogI<C>>| i.v.iter().take(i.wit_n).map(|a| a.wit()).collect::<Vec<_>>()),
        &h.cx,
        u,
        ctx,
        Budget::CHEAP,
    )?;
    rep_prefix_forgery_any(
        h.legacy,
        "Replicate<Dlog>",
        n,
        &|k| ReplicateAdapter { protocols: inst.v.iter().take(k).map(|a| a.build()).collect() },
        &|k| inst.v.iter().take(k).map(|a| a.wit()).collect::<Vec<_>>(),
        &h.cx,
        ctx,
    )
}

fn t_replicate(data: &[u8], ctx: &mut Ctx) -> CheckResult {
    let mut u = Unstructured::new(data);
    let h = head(&mut u);
    match gen::byte(&mut u) % 4 {
        0 => {
            ctx.class("shape=Replicate<Dlog>/G1");
            rep_dlog::<G1>("G1", &h, &mut u, ctx)
        }
        1 => {
            ctx.class("shape=Replicate<Dlog>/ed25519");
            rep_dlog::<Ed>("ed25519", &h, &mut u, ctx)
        }
        2 => {
            ctx.class("shape=Replicate<ComEq<G1,G1>>");
            let mut tr = Trace::new();
            tr.note("Replicate<ComEq<G1,G1>>");
            let n = size(&mut u, &mut tr, "count", 1, 9);
            let mut gc = Gens::new();
            let mut gd = Gens::new();
            let v: Vec<_> = (0..n).map(|_| ComEqI::<G1, G1>::decode(&mut u, &mut tr, &mut gc, &mut gd)).collect();
            let inst = RepI { v, wit_n: n };
            record(ctx, &tr, &h);
            type I = RepI<ComEqI<G1, G1>>;
            run_any(
                h.legacy,
                "Replicate<ComEq>",
                &inst,
                &|i: &I| rep_build(i, |a| a.build()),
                &Std(|i: &I| i.v.iter().take(i.wit_n).map(|a| a.wit()).collect::<Vec<_>>()),
                &h.cx,
                &mut u,
                ctx,
                Budget::CHEAP,
            )?;
            rep_prefix_forgery_any(
                h.legacy,
                "Replicate<ComEq>",
                n,
                &|k| ReplicateAdapter { protocols: inst.v.iter().take(k).map(|a| a.build()).collect() },
                &|k| inst.v.iter().take(k).map(|a| a.wit()).collect::<Vec<_>>(),
                &h.cx,
                ctx,
            )
        }
        _ => {
            // replicated AND: Replicate<And<Dlog, ComMult>>
            ctx.class("shape=Replicate<And<Dlog,ComMult>>/G1");
            let mut tr = Trace::new();
            tr.note("Replicate<And<Dlog,ComMult>>/G1");
            let n = size(&mut u, &mut tr, "count", 1, 5);
            let mut gens = Gens::new();
            let v: Vec<_> = (0..n).map(|_| AndI { a: DlogI::<G1>::decode(&mut u, &mut tr, &mut gens), b: ComMultI::<G1>::decode(&mut u, &mut tr, &mut gens) }).collect();
            let inst = RepI { v, wit_n: n };
            record(ctx, &tr, &h);
            type I = RepI<AndI<DlogI<G1>, ComMultI<G1>>>;
            run_any(
                h.legacy,
                "Replicate<And<Dlog,ComMult>>",
                &inst,
                &|i: &I| rep_build(i, |a| AndAdapter { first: a.a.build(), second: a.b.build() }),
                &Std(|i: &I| i.v.iter().take(i.wit_n).map(|a| (a.a.wit(), a.b.wit())).collect::<Vec<_>>()),
                &h.cx,
                &mut u,
                ctx,
                Budget::CHEAP,
            )?;
            rep_prefix_forgery_any(
                h.legacy,
                "Replicate<And<Dlog,ComMult>>",
                n,
                &|k| ReplicateAdapter { protocols: inst.v.iter().take(k).map(|a| AndAdapter { first: a.a.build(), second: a.b.build() }).collect() },
                &|k| inst.v.iter().take(k).map(|a| (a.a.wit(), a.b.wit())).collect::<Vec<_>>(),
                &h.cx,
                ctx,
            )
        }
    }
}

// ------------------------------------------------------------------------------------------

/// Floors are a third (or less) of the measured fractions (lowest measured: dlog 0.54 boundary cases,
/// 0.47 per transcript implementation).
const NT: &[(&str, f64)] = &[("nt-completeness(boundary-or-edge-size)", 0.15), ("transcript=legacy", 0.15), ("transcript=v1", 0.15)];
const NT_INEQ: &[(&str, f64)] = &[("nt-completeness(boundary-or-edge-size)", 0.15)];
const NT_PS: &[(&str, f64)] =
    &[("nt-completeness(boundary-or-edge-size)", 0.15), ("transcript=legacy", 0.15), ("transcript=v1", 0.15), ("has-Cmm", 0.08), ("has-Public", 0.08), ("has-Known", 0.08)];
const NT_TR: &[(&str, f64)] = &[("v1:framed-difference", 0.3), ("legacy:framed-difference", 0.08)];

pub fn property() -> Property {
    Property {
        id: "C07",
        rule: "Each protocol target decodes a valid statement/witness pair from generated scalars (table 0, 1, r-1, 2, small, -small, random; \
               generators G^k with k != 0, sometimes repeated; sizes 0/1/2/3/17 where the protocol admits them), a transcript context (domain \
               bytes + labelled messages) and one of the two transcript implementations (legacy RandomOracle, TranscriptProtocolV1); it proves with \
               the library's prove, requires verify to accept, and then requires verify to reject after every single-component perturbation \
               (each public field, the context, the challenge, each response scalar, response byte flips), requires public() to feed different \
               bytes to the transcript for every perturbed public field, requires a perturbed witness to give None or a rejected proof, and requires \
               the honest prover run on a perturbed statement that an independent evaluation of the relation finds false to give None or a rejected proof. A case is non-trivial when at least one perturbation was applied (every perturbed element differs \
               from the original and is well-formed by construction); the class nt-completeness counts the cases that in addition contain a \
               boundary scalar or a size 0/1. Distinct cases are counted by a hash of the decoded scalars, sizes, curve, transcript kind and context. \
               The transcript target generates pairs of append sequences (independent, mutated, and named split-point attacks), observes the bytes \
               fed to the hash by comparing the challenge with an independent SHA3-256 over the documented framing, and requires different \
               challenges whenever the first differing token is length-framed.",
        assumptions: &[
            "SHA3-256 collisions and accidental Fiat-Shamir challenge coincidences (probability ~2^-250) do not occur",
            "generators and commitment/encryption/signature keys are non-identity group elements (a zero PS key component y_i is excluded)",
            "ComLinSecret has private fields and no constructor: the prover's third message for ComLin is computed by the harness from the documented formulas; commit message, challenge, verification are the library's",
            "DlogEqual and DlogAndAggregateDlogsEqual are reached through the --cfg concordium_base_verif hooks; every aggregate has at least one base",
            "VecComEq: gis non-empty and the index set I is a subset of 0..n (documented); ReplicateAdapter: non-empty (documented)",
            "recorded finding excluded by exact signature (public-not-in-transcript:ComEncEq:encryption_in_exponent_generator): ComEncEq::public does not feed that generator to the transcript; exclusions are counted in class excluded:known-finding(...)",
            "legacy RandomOracle: injectivity is only required where the first differing token is self-delimiting; unframed labels and counts are documented behaviour",
        ],
        targets: vec![
            Target::new("dlog", t_dlog).len(0, 400).cases(1500, 60_000).floors(NT),
            Target::new("dlogeq", t_dlogeq).len(0, 400).cases(1000, 40_000).floors(NT),
            Target::new("aggdlog", t_aggdlog).len(0, 1600).cases(1000, 40_000).floors(NT),
            Target::new("dlogaggeq", t_dlogaggeq).len(0, 2400).cases(600, 25_000).floors(NT),
            Target::new("comeq", t_comeq).len(0, 500).cases(1200, 50_000).floors(NT),
            Target::new("comeqdiff", t_comeqdiff).len(0, 600).cases(1000, 40_000).floors(NT),
            Target::new("comenceq", t_comenceq).len(0, 700).cases(1000, 40_000).floors(NT),
            Target::new("comlin", t_comlin).len(0, 2600).cases(800, 30_000).floors(NT),
            Target::new("commult", t_commult).len(0, 600).cases(1000, 40_000).floors(NT),
            Target::new("comineq", t_comineq).len(0, 400).cases(800, 30_000).floors(NT_INEQ),
            Target::new("vcomeq", t_vcomeq).len(0, 2600).cases(800, 30_000).floors(NT),
            Target::new("enctrans", t_enctrans).len(0, 3000).cases(400, 16_000).floors(NT).shrink_iters(600),
            Target::new("comeqsig", t_comeqsig).len(0, 2600).cases(250, 10_000).floors(NT).shrink_iters(300),
            Target::new("pssig", t_pssig).len(0, 2600).cases(300, 12_000).floors(NT_PS).shrink_iters(300),
            Target::new("and", t_and).len(0, 1200).cases(800, 30_000).floors(NT),
            Target::new("replicate", t_replicate).len(0, 3000).cases(600, 25_000).floors(NT),
            Target::new("transcript", transcript::t_transcript).len(0, 600).cases(40_000, 2_000_000).floors(NT_TR),
            Target::new("finding-comenceq-public", t_finding_comenceq).len(0, 700).cases(0, 0),
        ],
    }
}
