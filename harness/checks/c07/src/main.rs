#[global_allocator]
static A: vcore::alloc::Counting = vcore::alloc::Counting;
fn main() { vcore::main(c07::property()) }
