//! Materialised valid instances of every sigma protocol, with their single-component
//! perturbations and response layouts.
use crate::{engine::*, util::*};
use concordium_base::{
    common::from_bytes,
    curve_arithmetic::{Curve, Field, Pairing, Secret, Value},
    elgamal::{Cipher, PublicKey as ElgPublicKey, Randomness as ElgRandomness},
    id::constants::IpPairing,
    pedersen_commitment::{Commitment, CommitmentKey, Randomness as PedRandomness},
    ps_sig::{BlindedSignature, BlindingRandomness, PublicKey as PsPublicKey, Signature},
    sigma_protocols::{
        aggregate_dlog::AggregateDlog,
        com_enc_eq::{ComEncEq, ComEncEqSecret},
        com_eq::{ComEq, ComEqSecret},
        com_eq_different_groups::{ComEqDiffGroups, ComEqDiffGroupsSecret},
        com_eq_sig::{ComEqSig, ComEqSigSecret},
        com_lin::{ComLin, Response as ComLinResponse},
        com_mult::{ComMult, ComMultSecret},
        common::{AndAdapter, ReplicateAdapter, SigmaProof, SigmaProtocol},
        dlog::{Dlog, DlogSecret},
        enc_trans::{ElgDec, EncTrans, EncTransSecret},
        ps_sig_known::{PsSigKnown, PsSigMsg, PsSigWitness, PsSigWitnessMsg},
        vcom_eq::VecComEq,
        verif::DlogAndAggregateDlogsEqual,
    },
};
use rand_chacha::ChaCha20Rng;
use std::{collections::BTreeMap, rc::Rc};
use vcore::{gen, Unstructured};

type Sc<C> = <C as Curve>::Scalar;
pub type Fr = <IpPairing as Pairing>::ScalarField;
pub type PG1 = <IpPairing as Pairing>::G1;
pub type PG2 = <IpPairing as Pairing>::G2;

fn mul_add<C: Curve>(a: &Sc<C>, b: &Sc<C>, acc: &mut Sc<C>) {
    let mut t = *a;
    t.mul_assign(b);
    acc.add_assign(&t);
}

fn commit<C: Curve>(g: &C, h: &C, v: &Sc<C>, r: &Sc<C>) -> C { g.mul_by_scalar(v).plus_point(&h.mul_by_scalar(r)) }

// ------------------------------------------------------------------------------------------
// Dlog

#[derive(Clone)]
pub struct DlogI<C: Curve> {
    pub base:   C,
    pub x:      Sc<C>,
    pub public: C,
}

impl<C: Curve> DlogI<C> {
    pub fn decode(u: &mut Unstructured, tr: &mut Trace, gens: &mut Gens<C>) -> Self {
        let base = gens.next(u, tr, "base");
        let x = scalar::<C>(u, tr, "x");
        let public = base.mul_by_scalar(&x);
        tr.public_point(&public);
        DlogI { base, x, public }
    }

    pub fn build(&self) -> Dlog<C> { Dlog { public: self.public, coeff: self.base } }

    pub fn wit(&self) -> DlogSecret<C> { DlogSecret { secret: Value::new(self.x) } }
}

impl<C: Curve> Inst for DlogI<C> {
    fn n_stmt(&self) -> usize { 2 }

    fn stmt_mut(&mut self, i: usize, how: u8) -> Option<String> {
        match i {
            0 => {
                self.public = perturb_point(&self.public, how);
                Some("public".into())
            }
            _ => {
                self.base = perturb_point(&self.base, how);
                Some("coeff".into())
            }
        }
    }

    fn n_wit(&self) -> usize { 1 }

    fn wit_mut(&mut self, _i: usize, how: u8) -> Option<String> {
        self.x = perturb_scalar::<C>(&self.x, how);
        Some("secret".into())
    }

    fn resp_comps(&self) -> Vec<RespComp> { vec![rs::<C>("response", 0)] }

    fn resp_len(&self) -> usize { C::SCALAR_LENGTH }

    fn holds(&self) -> bool { self.public == self.base.mul_by_scalar(&self.x) }
}

// ------------------------------------------------------------------------------------------
// DlogEqual (private module, reached through the verif hook): y1 = g1^x, y2 = g2^x

#[derive(Clone)]
pub struct DlogEqI<C: Curve> {
    pub g1: C,
    pub g2: C,
    pub x:  Sc<C>,
    pub y1: C,
    pub y2: C,
}

impl<C: Curve> DlogEqI<C> {
    pub fn decode(u: &mut Unstructured, tr: &mut Trace) -> Self {
        let mut gens = Gens::<C>::new();
        let g1 = gens.next(u, tr, "g1");
        let g2 = gens.next(u, tr, "g2");
        let x = scalar::<C>(u, tr, "x");
        let y1 = g1.mul_by_scalar(&x);
        let y2 = g2.mul_by_scalar(&x);
        tr.public_point(&y1);
        DlogEqI { g1, g2, x, y1, y2 }
    }

    pub fn parts(&self) -> (Dlog<C>, Dlog<C>) { (Dlog { public: self.y1, coeff: self.g1 }, Dlog { public: self.y2, coeff: self.g2 }) }

    pub fn wit(&self) -> DlogSecret<C> { DlogSecret { secret: Value::new(self.x) } }
}

impl<C: Curve> Inst for DlogEqI<C> {
    fn n_stmt(&self) -> usize { 4 }

    fn stmt_mut(&mut self, i: usize, how: u8) -> Option<String> {
        let (f, n) = match i {
            0 => (&mut self.y1, "dlog1.public"),
            1 => (&mut self.g1, "dlog1.coeff"),
            2 => (&mut self.y2, "dlog2.public"),
            _ => (&mut self.g2, "dlog2.coeff"),
        };
        *f = perturb_point(f, how);
        Some(n.into())
    }

    fn n_wit(&self) -> usize { 1 }

    fn wit_mut(&mut self, _i: usize, how: u8) -> Option<String> {
        self.x = perturb_scalar::<C>(&self.x, how);
        Some("secret".into())
    }

    fn resp_comps(&self) -> Vec<RespComp> { vec![rs::<C>("response", 0)] }

    fn resp_len(&self) -> usize { C::SCALAR_LENGTH }

    fn holds(&self) -> bool { self.y1 == self.g1.mul_by_scalar(&self.x) && self.y2 == self.g2.mul_by_scalar(&self.x) }
}

// ------------------------------------------------------------------------------------------
// AggregateDlog: y = prod g_i^{a_i}

#[derive(Clone)]
pub struct AggI<C: Curve> {
    pub coeff:   Vec<C>,
    pub secrets: Vec<Sc<C>>,
    pub public:  C,
}

impl<C: Curve> AggI<C> {
    pub fn decode_sized(u: &mut Unstructured, tr: &mut Trace, gens: &mut Gens<C>, n: usize, first: Option<Sc<C>>) -> Self {
        let mut coeff = Vec::with_capacity(n);
        let mut secrets = Vec::with_capacity(n);
        let mut public = C::zero_point();
        for i in 0..n {
            let g = gens.next(u, tr, &format!("g{i}"));
            let a = match (i, first) {
                (0, Some(x)) => x,
                _ => scalar::<C>(u, tr, &format!("a{i}")),
            };
            public = public.plus_point(&g.mul_by_scalar(&a));
            coeff.push(g);
            secrets.push(a);
        }
        tr.public_point(&public);
        AggI { coeff, secrets, public }
    }

    pub fn decode(u: &mut Unstructured, tr: &mut Trace, big: usize) -> Self {
        let n = size(u, tr, "n", 0, big);
        let mut gens = Gens::<C>::new();
        Self::decode_sized(u, tr, &mut gens, n, None)
    }

    pub fn build(&self) -> AggregateDlog<C> { AggregateDlog { public: self.public, coeff: self.coeff.clone() } }

    pub fn wit(&self) -> Vec<Rc<Sc<C>>> { self.secrets.iter().map(|s| Rc::new(*s)).collect() }
}

impl<C: Curve> Inst for AggI<C> {
    fn n_stmt(&self) -> usize { 3 + self.coeff.len() }

    fn stmt_mut(&mut self, i: usize, how: u8) -> Option<String> {
        match i {
            0 => {
                self.public = perturb_point(&self.public, how);
                Some("public".into())
            }
            1 => {
                self.coeff.pop()?;
                Some("coeff(count-1)".into())
            }
            2 => {
                self.coeff.push(perturb_point(&C::zero_point(), how));
                Some("coeff(count+1)".into())
            }
            _ => {
                let k = i - 3;
                self.coeff[k] = perturb_point(&self.coeff[k], how);
                Some(format!("coeff[{k}]"))
            }
        }
    }

    fn n_wit(&self) -> usize { 1 + self.secrets.len() }

    fn wit_mut(&mut self, i: usize, how: u8) -> Option<String> {
        if i == 0 {
            self.secrets.pop()?;
            return Some("secret(count-1)".into());
        }
        let k = i - 1;
        self.secrets[k] = perturb_scalar::<C>(&self.secrets[k], how);
        Some(format!("secret[{k}]"))
    }

    fn resp_comps(&self) -> Vec<RespComp> { (0..self.coeff.len()).map(|i| rs::<C>(format!("response[{i}]"), 4 + i * C::SCALAR_LENGTH)).collect() }

    fn resp_len(&self) -> usize { 4 + self.coeff.len() * C::SCALAR_LENGTH }

    fn holds(&self) -> bool { self.coeff.len() == self.secrets.len() && self.public == self.eval(None) }
}

impl<C: Curve> AggI<C> {
    /// prod coeff_i^{secret_i}, with the first secret optionally overridden
    fn eval(&self, first: Option<&Sc<C>>) -> C {
        let mut p = C::zero_point();
        for (i, (g, a)) in self.coeff.iter().zip(self.secrets.iter()).enumerate() {
            let a = match (i, first) {
                (0, Some(x)) => x,
                _ => a,
            };
            p = p.plus_point(&g.mul_by_scalar(a));
        }
        p
    }
}

// ------------------------------------------------------------------------------------------
// DlogAndAggregateDlogsEqual (private reference module, via the verif hook):
// y = g^x and y_i = prod_j g_ij^{x_ij} with x_i1 = x. Every aggregate needs at least one base.

#[derive(Clone)]
pub struct DlogAggEqI<C: Curve> {
    pub dlog: DlogI<C>,
    pub aggs: Vec<AggI<C>>,
}

impl<C: Curve> DlogAggEqI<C> {
    pub fn decode(u: &mut Unstructured, tr: &mut Trace) -> Self {
        let mut gens = Gens::<C>::new();
        let dlog = DlogI::decode(u, tr, &mut gens);
        let k = size(u, tr, "aggregates", 0, 4).min(4);
        let mut aggs = Vec::new();
        for j in 0..k {
            let n = size(u, tr, &format!("n{j}"), 1, 9);
            aggs.push(AggI::decode_sized(u, tr, &mut gens, n, Some(dlog.x)));
        }
        DlogAggEqI { dlog, aggs }
    }

    pub fn build(&self) -> DlogAndAggregateDlogsEqual<C> {
        DlogAndAggregateDlogsEqual { dlog: self.dlog.build(), aggregate_dlogs: self.aggs.iter().map(|a| a.build()).collect() }
    }

    #[allow(clippy::type_complexity)]
    pub fn wit(&self) -> (Rc<Sc<C>>, Vec<Vec<Rc<Sc<C>>>>) {
        (Rc::new(self.dlog.x), self.aggs.iter().map(|a| a.secrets.iter().skip(1).map(|s| Rc::new(*s)).collect()).collect())
    }
}

impl<C: Curve> Inst for DlogAggEqI<C> {
    fn n_stmt(&self) -> usize { 2 + self.aggs.iter().map(|a| 1 + a.coeff.len()).sum::<usize>() }

    fn stmt_mut(&mut self, i: usize, how: u8) -> Option<String> {
        if i < 2 {
            return self.dlog.stmt_mut(i, how).map(|s| format!("dlog.{s}"));
        }
        let mut k = i - 2;
        for (j, a) in self.aggs.iter_mut().enumerate() {
            let m = 1 + a.coeff.len();
            if k < m {
                return if k == 0 {
                    a.public = perturb_point(&a.public, how);
                    Some(format!("agg[{j}].public"))
                } else {
                    a.coeff[k - 1] = perturb_point(&a.coeff[k - 1], how);
                    Some(format!("agg[{j}].coeff[{}]", k - 1))
                };
            }
            k -= m;
        }
        None
    }

    fn n_wit(&self) -> usize { 1 + self.aggs.iter().map(|a| a.secrets.len() - 1).sum::<usize>() }

    fn wit_mut(&mut self, i: usize, how: u8) -> Option<String> {
        if i == 0 {
            // only the dlog's copy of x changes: the aggregates keep the original first secret,
            // but the prover uses the common secret for all of them
            self.dlog.x = perturb_scalar::<C>(&self.dlog.x, how);
            return Some("common-secret".into());
        }
        let mut k = i - 1;
        for (j, a) in self.aggs.iter_mut().enumerate() {
            let m = a.secrets.len() - 1;
            if k < m {
                a.secrets[k + 1] = perturb_scalar::<C>(&a.secrets[k + 1], how);
                return Some(format!("agg[{j}].secret[{}]", k + 1));
            }
            k -= m;
        }
        None
    }

    fn resp_comps(&self) -> Vec<RespComp> {
        let mut out = Vec::new();
        let mut off = 4;
        for (j, a) in self.aggs.iter().enumerate() {
            off += 8;
            for k in 0..a.coeff.len() - 1 {
                out.push(rs::<C>(format!("responses[{j}][{k}]"), off));
                off += C::SCALAR_LENGTH;
            }
        }
        out.push(rs::<C>("response_common", off));
        out
    }

    fn resp_len(&self) -> usize { 4 + self.aggs.iter().map(|a| 8 + (a.coeff.len() - 1) * C::SCALAR_LENGTH).sum::<usize>() + C::SCALAR_LENGTH }

    fn holds(&self) -> bool { self.dlog.holds() && self.aggs.iter().all(|a| a.coeff.len() == a.secrets.len() && a.public == a.eval(Some(&self.dlog.x))) }
}

// ------------------------------------------------------------------------------------------
// ComEq: y = g^a, commitment = kg^a kh^r  (two groups with the same scalar field)

#[derive(Clone)]
pub struct ComEqI<C: Curve, D: Curve<Scalar = Sc<C>>> {
    pub a:          Sc<C>,
    pub r:          Sc<C>,
    pub kg:         D,
    pub kh:         D,
    pub g:          C,
    pub commitment: D,
    pub y:          C,
}

impl<C: Curve, D: Curve<Scalar = Sc<C>>> ComEqI<C, D> {
    pub fn make(a: Sc<C>, r: Sc<C>, kg: D, kh: D, g: C) -> Self {
        let commitment = commit::<D>(&kg, &kh, &a, &r);
        let y = g.mul_by_scalar(&a);
        ComEqI { a, r, kg, kh, g, commitment, y }
    }

    pub fn decode(u: &mut Unstructured, tr: &mut Trace, gc: &mut Gens<C>, gd: &mut Gens<D>) -> Self {
        let kg = gd.next(u, tr, "cmm_key.g");
        let kh = gd.next(u, tr, "cmm_key.h");
        let g = gc.next(u, tr, "g");
        let a = scalar::<C>(u, tr, "a");
        let r = scalar::<C>(u, tr, "r");
        let s = Self::make(a, r, kg, kh, g);
        tr.public_point(&s.commitment);
        tr.public_point(&s.y);
        s
    }

    pub fn build(&self) -> ComEq<C, D> { ComEq { commitment: Commitment(self.commitment), y: self.y, cmm_key: CommitmentKey { g: self.kg, h: self.kh }, g: self.g } }

    pub fn wit(&self) -> ComEqSecret<D> { ComEqSecret { r: PedRandomness::new(self.r), a: Value::new(self.a) } }
}

impl<C: Curve, D: Curve<Scalar = Sc<C>>> Inst for ComEqI<C, D> {
    fn n_stmt(&self) -> usize { 5 }

    fn stmt_mut(&mut self, i: usize, how: u8) -> Option<String> {
        Some(
            match i {
                0 => {
                    self.commitment = perturb_point(&self.commitment, how);
                    "commitment"
                }
                1 => {
                    self.y = perturb_point(&self.y, how);
                    "y"
                }
                2 => {
                    self.kg = perturb_point(&self.kg, how);
                    "cmm_key.g"
                }
                3 => {
                    self.kh = perturb_point(&self.kh, how);
                    "cmm_key.h"
                }
                _ => {
                    self.g = perturb_point(&self.g, how);
                    "g"
                }
            }
            .into(),
        )
    }

    fn n_wit(&self) -> usize { 2 }

    fn wit_mut(&mut self, i: usize, how: u8) -> Option<String> {
        if i == 0 {
            self.a = perturb_scalar::<C>(&self.a, how);
            Some("a".into())
        } else {
            self.r = perturb_scalar::<C>(&self.r, how);
            Some("r".into())
        }
    }

    fn resp_comps(&self) -> Vec<RespComp> { vec![rs::<C>("response.s", 0), rs::<C>("response.t", C::SCALAR_LENGTH)] }

    fn resp_len(&self) -> usize { 2 * C::SCALAR_LENGTH }

    fn holds(&self) -> bool { self.commitment == commit::<D>(&self.kg, &self.kh, &self.a, &self.r) && self.y == self.g.mul_by_scalar(&self.a) }
}

// ------------------------------------------------------------------------------------------
// ComEqDiffGroups: two commitments to the same value in two groups

#[derive(Clone)]
pub struct ComEqDgI<C1: Curve, C2: Curve<Scalar = Sc<C1>>> {
    pub v:  Sc<C1>,
    pub r1: Sc<C1>,
    pub r2: Sc<C1>,
    pub k1: (C1, C1),
    pub k2: (C2, C2),
    pub c1: C1,
    pub c2: C2,
}

impl<C1: Curve, C2: Curve<Scalar = Sc<C1>>> ComEqDgI<C1, C2> {
    pub fn decode(u: &mut Unstructured, tr: &mut Trace) -> Self {
        let mut g1 = Gens::<C1>::new();
        let mut g2 = Gens::<C2>::new();
        let k1 = (g1.next(u, tr, "key1.g"), g1.next(u, tr, "key1.h"));
        let k2 = (g2.next(u, tr, "key2.g"), g2.next(u, tr, "key2.h"));
        let v = scalar::<C1>(u, tr, "value");
        let r1 = scalar::<C1>(u, tr, "r1");
        let r2 = scalar::<C1>(u, tr, "r2");
        let c1 = commit::<C1>(&k1.0, &k1.1, &v, &r1);
        let c2 = commit::<C2>(&k2.0, &k2.1, &v, &r2);
        tr.public_point(&c1);
        tr.public_point(&c2);
        ComEqDgI { v, r1, r2, k1, k2, c1, c2 }
    }

    pub fn build(&self) -> ComEqDiffGroups<C1, C2> {
        ComEqDiffGroups {
            commitment_1: Commitment(self.c1),
            commitment_2: Commitment(self.c2),
            cmm_key_1:    CommitmentKey { g: self.k1.0, h: self.k1.1 },
            cmm_key_2:    CommitmentKey { g: self.k2.0, h: self.k2.1 },
        }
    }

    pub fn wit(&self) -> ComEqDiffGroupsSecret<C1, C2> {
        ComEqDiffGroupsSecret { value: Value::new(self.v), rand_cmm_1: PedRandomness::new(self.r1), rand_cmm_2: PedRandomness::new(self.r2) }
    }
}

impl<C1: Curve, C2: Curve<Scalar = Sc<C1>>> Inst for ComEqDgI<C1, C2> {
    fn n_stmt(&self) -> usize { 6 }

    fn stmt_mut(&mut self, i: usize, how: u8) -> Option<String> {
        Some(
            match i {
                0 => {
                    self.c1 = perturb_point(&self.c1, how);
                    "commitment_1"
                }
                1 => {
                    self.c2 = perturb_point(&self.c2, how);
                    "commitment_2"
                }
                2 => {
                    self.k1.0 = perturb_point(&self.k1.0, how);
                    "cmm_key_1.g"
                }
                3 => {
                    self.k1.1 = perturb_point(&self.k1.1, how);
                    "cmm_key_1.h"
                }
                4 => {
                    self.k2.0 = perturb_point(&self.k2.0, how);
                    "cmm_key_2.g"
                }
                _ => {
                    self.k2.1 = perturb_point(&self.k2.1, how);
                    "cmm_key_2.h"
                }
            }
            .into(),
        )
    }

    fn n_wit(&self) -> usize { 3 }

    fn wit_mut(&mut self, i: usize, how: u8) -> Option<String> {
        let (f, n) = match i {
            0 => (&mut self.v, "value"),
            1 => (&mut self.r1, "rand_cmm_1"),
            _ => (&mut self.r2, "rand_cmm_2"),
        };
        *f = perturb_scalar::<C1>(f, how);
        Some(n.into())
    }

    fn resp_comps(&self) -> Vec<RespComp> {
        let l = C1::SCALAR_LENGTH;
        vec![rs::<C1>("response.s_1", 0), rs::<C1>("response.s_2", l), rs::<C1>("response.t", 2 * l)]
    }

    fn resp_len(&self) -> usize { 3 * C1::SCALAR_LENGTH }

    fn holds(&self) -> bool { self.c1 == commit::<C1>(&self.k1.0, &self.k1.1, &self.v, &self.r1) && self.c2 == commit::<C2>(&self.k2.0, &self.k2.1, &self.v, &self.r2) }
}

// ------------------------------------------------------------------------------------------
// ComEncEq: ElGamal encryption (in the exponent of a separate generator) and commitment of one value

#[derive(Clone)]
pub struct ComEncEqI<C: Curve> {
    pub x:     Sc<C>,
    pub er:    Sc<C>,
    pub pr:    Sc<C>,
    pub pk_g:  C,
    pub pk_k:  C,
    pub kg:    C,
    pub kh:    C,
    pub h_exp: C,
    pub e1:    C,
    pub e2:    C,
    pub cmm:   C,
    /// when set, the recorded finding about `encryption_in_exponent_generator` is not excluded
    pub strict: bool,
}

impl<C: Curve> ComEncEqI<C> {
    pub fn decode(u: &mut Unstructured, tr: &mut Trace) -> Self {
        let mut gens = Gens::<C>::new();
        let pk_g = gens.next(u, tr, "pk.generator");
        let sk = scalar::<C>(u, tr, "sk");
        let pk_k = pk_g.mul_by_scalar(&sk);
        let kg = gens.next(u, tr, "cmm_key.g");
        let kh = gens.next(u, tr, "cmm_key.h");
        let h_exp = gens.next(u, tr, "h_in_exponent");
        let x = scalar::<C>(u, tr, "x");
        let er = scalar::<C>(u, tr, "R");
        let pr = scalar::<C>(u, tr, "r");
        let e1 = pk_g.mul_by_scalar(&er);
        let e2 = commit::<C>(&pk_k, &h_exp, &er, &x);
        let cmm = commit::<C>(&kg, &kh, &x, &pr);
        tr.public_point(&e1);
        tr.public_point(&e2);
        tr.public_point(&cmm);
        tr.public_point(&pk_k);
        ComEncEqI { x, er, pr, pk_g, pk_k, kg, kh, h_exp, e1, e2, cmm, strict: false }
    }

    pub fn build(&self) -> ComEncEq<C> {
        ComEncEq {
            cipher:     Cipher(self.e1, self.e2),
            commitment: Commitment(self.cmm),
            pub_key:    ElgPublicKey { generator: self.pk_g, key: self.pk_k },
            cmm_key:    CommitmentKey { g: self.kg, h: self.kh },
            encryption_in_exponent_generator: self.h_exp,
        }
    }

    pub fn wit(&self) -> ComEncEqSecret<C> {
        ComEncEqSecret { value: Value::new(self.x), elgamal_rand: ElgRandomness::new(self.er), pedersen_rand: PedRandomness::new(self.pr) }
    }
}

impl<C: Curve> Inst for ComEncEqI<C> {
    fn n_stmt(&self) -> usize { 8 }

    fn stmt_mut(&mut self, i: usize, how: u8) -> Option<String> {
        let (f, n) = match i {
            0 => (&mut self.e1, "cipher.0"),
            1 => (&mut self.e2, "cipher.1"),
            2 => (&mut self.cmm, "commitment"),
            3 => (&mut self.pk_g, "pub_key.generator"),
            4 => (&mut self.pk_k, "pub_key.key"),
            5 => (&mut self.kg, "cmm_key.g"),
            6 => (&mut self.kh, "cmm_key.h"),
            _ => (&mut self.h_exp, "encryption_in_exponent_generator"),
        };
        *f = perturb_point(f, how);
        Some(n.into())
    }

    fn n_wit(&self) -> usize { 3 }

    fn wit_mut(&mut self, i: usize, how: u8) -> Option<String> {
        let (f, n) = match i {
            0 => (&mut self.x, "value"),
            1 => (&mut self.er, "elgamal_rand"),
            _ => (&mut self.pr, "pedersen_rand"),
        };
        *f = perturb_scalar::<C>(f, how);
        Some(n.into())
    }

    fn resp_comps(&self) -> Vec<RespComp> {
        let l = C::SCALAR_LENGTH;
        vec![rs::<C>("response.z_1", 0), rs::<C>("response.z_2", l), rs::<C>("response.z_3", 2 * l)]
    }

    fn resp_len(&self) -> usize { 3 * C::SCALAR_LENGTH }

    fn known_not_in_public(&self, i: usize) -> bool { i == 7 && !self.strict }

    fn holds(&self) -> bool {
        self.e1 == self.pk_g.mul_by_scalar(&self.er) && self.e2 == commit::<C>(&self.pk_k, &self.h_exp, &self.er, &self.x) && self.cmm == commit::<C>(&self.kg, &self.kh, &self.x, &self.pr)
    }
}

// ------------------------------------------------------------------------------------------
// ComLin: sum u_i x_i = x for committed x_i, x. The secret type has private fields and no
// constructor, so the third message is computed here from the documented formulas
// (z_i = alpha_i - c x_i, s_i = r~_i - c r_i, s = r~ - c r); everything else is the library's code.

#[derive(Clone)]
pub struct ComLinI<C: Curve> {
    pub us:   Vec<Sc<C>>,
    pub xs:   Vec<Sc<C>>,
    pub rs:   Vec<Sc<C>>,
    pub r:    Sc<C>,
    pub kg:   C,
    pub kh:   C,
    pub cmms: Vec<C>,
    pub cmm:  C,
}

impl<C: Curve> ComLinI<C> {
    pub fn decode(u: &mut Unstructured, tr: &mut Trace, big: usize) -> Self {
        let mut gens = Gens::<C>::new();
        let kg = gens.next(u, tr, "cmm_key.g");
        let kh = gens.next(u, tr, "cmm_key.h");
        let n = size(u, tr, "n", 0, big);
        let (mut us, mut xs, mut rs_, mut cmms) = (vec![], vec![], vec![], vec![]);
        let mut sum = Sc::<C>::zero();
        for i in 0..n {
            let ui = scalar::<C>(u, tr, &format!("u{i}"));
            let xi = scalar::<C>(u, tr, &format!("x{i}"));
            let ri = scalar::<C>(u, tr, &format!("r{i}"));
            mul_add::<C>(&ui, &xi, &mut sum);
            let c = commit::<C>(&kg, &kh, &xi, &ri);
            tr.public_point(&c);
            cmms.push(c);
            us.push(ui);
            xs.push(xi);
            rs_.push(ri);
        }
        let r = scalar::<C>(u, tr, "r");
        let cmm = commit::<C>(&kg, &kh, &sum, &r);
        tr.public_point(&cmm);
        ComLinI { us, xs, rs: rs_, r, kg, kh, cmms, cmm }
    }

    pub fn build(&self) -> ComLin<C> {
        ComLin {
            us:      self.us.clone(),
            cmms:    self.cmms.iter().map(|c| Commitment(*c)).collect(),
            cmm:     Commitment(self.cmm),
            cmm_key: CommitmentKey { g: self.kg, h: self.kh },
        }
    }
}

pub struct ComLinProver;

impl<C: Curve> Prover<ComLinI<C>, ComLin<C>> for ComLinProver {
    fn prove<T: Tx>(&self, inst: &ComLinI<C>, p: &ComLin<C>, t: &mut T, rng: &mut ChaCha20Rng) -> Option<SigmaProof<ComLinResponse<C>>> {
        let (cm, (alphas, r_tildes, r_tilde)) = p.compute_commit_message(rng)?;
        p.public(t);
        t.append_message("point", &cm);
        let challenge = t.extract_raw_challenge();
        let c = p.get_challenge(&challenge);
        let n = alphas.len();
        if inst.xs.len() != n || inst.rs.len() != n || r_tildes.len() != n {
            return None;
        }
        let resp = |secret: &Sc<C>, rand: &Sc<C>| {
            let mut z = c;
            z.mul_assign(secret);
            z.negate();
            z.add_assign(rand);
            z
        };
        let mut bytes = Vec::new();
        bytes.extend_from_slice(&(n as u32).to_be_bytes());
        for i in 0..n {
            bytes.extend(concordium_base::common::to_bytes(&resp(&inst.xs[i], &alphas[i])));
        }
        bytes.extend_from_slice(&(n as u32).to_be_bytes());
        for i in 0..n {
            bytes.extend(concordium_base::common::to_bytes(&resp(&inst.rs[i], &r_tildes[i])));
        }
        bytes.extend(concordium_base::common::to_bytes(&resp(&inst.r, &r_tilde)));
        let response: ComLinResponse<C> = from_bytes(&mut std::io::Cursor::new(&bytes)).ok()?;
        t.append_final_prover_message("response", &response);
        Some(SigmaProof { challenge, response })
    }
}

impl<C: Curve> Inst for ComLinI<C> {
    fn n_stmt(&self) -> usize { 5 + 2 * self.us.len() }

    fn stmt_mut(&mut self, i: usize, how: u8) -> Option<String> {
        let n = self.us.len();
        match i {
            0 => {
                self.cmm = perturb_point(&self.cmm, how);
                Some("cmm".into())
            }
            1 => {
                self.kg = perturb_point(&self.kg, how);
                Some("cmm_key.g".into())
            }
            2 => {
                self.kh = perturb_point(&self.kh, how);
                Some("cmm_key.h".into())
            }
            3 => {
                // one term fewer (coefficient and commitment)
                self.us.pop()?;
                self.cmms.pop();
                Some("terms(count-1)".into())
            }
            4 => {
                self.us.pop()?;
                Some("us(count-1)".into())
            }
            _ => {
                let k = i - 5;
                if k < n {
                    self.us[k] = perturb_scalar::<C>(&self.us[k], how);
                    Some(format!("us[{k}]"))
                } else {
                    self.cmms[k - n] = perturb_point(&self.cmms[k - n], how);
                    Some(format!("cmms[{}]", k - n))
                }
            }
        }
    }

    fn n_wit(&self) -> usize { 1 + 2 * self.xs.len() }

    fn wit_mut(&mut self, i: usize, how: u8) -> Option<String> {
        let n = self.xs.len();
        if i == 0 {
            self.r = perturb_scalar::<C>(&self.r, how);
            return Some("r".into());
        }
        let k = i - 1;
        if k < n {
            self.xs[k] = perturb_scalar::<C>(&self.xs[k], how);
            Some(format!("xs[{k}]"))
        } else {
            self.rs[k - n] = perturb_scalar::<C>(&self.rs[k - n], how);
            Some(format!("rs[{}]", k - n))
        }
    }

    fn resp_comps(&self) -> Vec<RespComp> {
        let n = self.us.len();
        let l = C::SCALAR_LENGTH;
        let mut out = Vec::new();
        for i in 0..n {
            out.push(rs::<C>(format!("zs[{i}]"), 4 + i * l));
        }
        for i in 0..n {
            out.push(rs::<C>(format!("ss[{i}]"), 8 + (n + i) * l));
        }
        out.push(rs::<C>("s", 8 + 2 * n * l));
        out
    }

    fn resp_len(&self) -> usize { 8 + (2 * self.us.len() + 1) * C::SCALAR_LENGTH }

    fn holds(&self) -> bool {
        let n = self.us.len();
        if self.cmms.len() != n || self.xs.len() != n || self.rs.len() != n {
            return false;
        }
        let mut sum = Sc::<C>::zero();
        for i in 0..n {
            if self.cmms[i] != commit::<C>(&self.kg, &self.kh, &self.xs[i], &self.rs[i]) {
                return false;
            }
            mul_add::<C>(&self.us[i], &self.xs[i], &mut sum);
        }
        self.cmm == commit::<C>(&self.kg, &self.kh, &sum, &self.r)
    }
}

// ------------------------------------------------------------------------------------------
// ComMult: committed a1 * a2 = a3

#[derive(Clone)]
pub struct ComMultI<C: Curve> {
    pub a:    [Sc<C>; 2],
    pub r:    [Sc<C>; 3],
    pub kg:   C,
    pub kh:   C,
    pub cmms: [C; 3],
}

impl<C: Curve> ComMultI<C> {
    pub fn decode(u: &mut Unstructured, tr: &mut Trace, gens: &mut Gens<C>) -> Self {
        let kg = gens.next(u, tr, "cmm_key.g");
        let kh = gens.next(u, tr, "cmm_key.h");
        let a = [scalar::<C>(u, tr, "a1"), scalar::<C>(u, tr, "a2")];
        let r = [scalar::<C>(u, tr, "r1"), scalar::<C>(u, tr, "r2"), scalar::<C>(u, tr, "r3")];
        let mut a3 = a[0];
        a3.mul_assign(&a[1]);
        let cmms = [commit::<C>(&kg, &kh, &a[0], &r[0]), commit::<C>(&kg, &kh, &a[1], &r[1]), commit::<C>(&kg, &kh, &a3, &r[2])];
        for c in &cmms {
            tr.public_point(c);
        }
        ComMultI { a, r, kg, kh, cmms }
    }

    pub fn build(&self) -> ComMult<C> {
        ComMult { cmms: [Commitment(self.cmms[0]), Commitment(self.cmms[1]), Commitment(self.cmms[2])], cmm_key: CommitmentKey { g: self.kg, h: self.kh } }
    }

    pub fn wit(&self) -> ComMultSecret<C> {
        ComMultSecret {
            values: [Value::new(self.a[0]), Value::new(self.a[1])],
            rands:  [PedRandomness::new(self.r[0]), PedRandomness::new(self.r[1]), PedRandomness::new(self.r[2])],
        }
    }
}

impl<C: Curve> Inst for ComMultI<C> {
    fn n_stmt(&self) -> usize { 5 }

    fn stmt_mut(&mut self, i: usize, how: u8) -> Option<String> {
        match i {
            0..=2 => {
                self.cmms[i] = perturb_point(&self.cmms[i], how);
                Some(format!("cmms[{i}]"))
            }
            3 => {
                self.kg = perturb_point(&self.kg, how);
                Some("cmm_key.g".into())
            }
            _ => {
                self.kh = perturb_point(&self.kh, how);
                Some("cmm_key.h".into())
            }
        }
    }

    fn n_wit(&self) -> usize { 5 }

    fn wit_mut(&mut self, i: usize, how: u8) -> Option<String> {
        if i < 2 {
            self.a[i] = perturb_scalar::<C>(&self.a[i], how);
            Some(format!("values[{i}]"))
        } else {
            self.r[i - 2] = perturb_scalar::<C>(&self.r[i - 2], how);
            Some(format!("rands[{}]", i - 2))
        }
    }

    fn resp_comps(&self) -> Vec<RespComp> {
        let l = C::SCALAR_LENGTH;
        vec![rs::<C>("ss[0]", 0), rs::<C>("ss[1]", l), rs::<C>("ts[0]", 2 * l), rs::<C>("ts[1]", 3 * l), rs::<C>("t", 4 * l)]
    }

    fn resp_len(&self) -> usize { 5 * C::SCALAR_LENGTH }

    fn holds(&self) -> bool {
        let mut a3 = self.a[0];
        a3.mul_assign(&self.a[1]);
        self.cmms[0] == commit::<C>(&self.kg, &self.kh, &self.a[0], &self.r[0])
            && self.cmms[1] == commit::<C>(&self.kg, &self.kh, &self.a[1], &self.r[1])
            && self.cmms[2] == commit::<C>(&self.kg, &self.kh, &a3, &self.r[2])
    }
}

// ------------------------------------------------------------------------------------------
// VecComEq: C = h^r prod g_i^{x_i}, C_i = gbar^{x_i} hbar^{r_i} for i in I

#[derive(Clone)]
pub struct VecComEqI<C: Curve> {
    pub gis:   Vec<C>,
    pub h:     C,
    pub g_bar: C,
    pub h_bar: C,
    pub xis:   Vec<Sc<C>>,
    pub r:     Sc<C>,
    pub ris:   BTreeMap<u8, Sc<C>>,
    pub comm:  C,
    pub comms: BTreeMap<u8, C>,
}

impl<C: Curve> VecComEqI<C> {
    pub fn decode(u: &mut Unstructured, tr: &mut Trace, big: usize) -> Self {
        let mut gens = Gens::<C>::new();
        let h = gens.next(u, tr, "h");
        let g_bar = gens.next(u, tr, "g_bar");
        let h_bar = gens.next(u, tr, "h_bar");
        let mut n = size(u, tr, "n", 1, big).min(256);
        // the index type is u8: 256 generators is the largest statement, position 255 the last index
        if n == big && gen::ratio(u, 1, 3) {
            n = if gen::boolean(u) { 256 } else { 255 };
            tr.size("n(boundary)", n);
        }
        let r = scalar::<C>(u, tr, "r");
        let mut comm = h.mul_by_scalar(&r);
        let (mut gis, mut xis) = (vec![], vec![]);
        let mut ris = BTreeMap::new();
        let mut comms = BTreeMap::new();
        // index set: all, none, or a generated subset
        let mode = gen::byte(u) % 4;
        for i in 0..n {
            let gi = gens.next(u, tr, &format!("g{i}"));
            let xi = scalar::<C>(u, tr, &format!("x{i}"));
            comm = comm.plus_point(&gi.mul_by_scalar(&xi));
            let inside = match mode {
                0 => true,
                1 => false,
                _ => gen::boolean(u),
            };
            if inside {
                let ri = scalar::<C>(u, tr, &format!("r{i}"));
                let ci = commit::<C>(&g_bar, &h_bar, &xi, &ri);
                tr.public_point(&ci);
                ris.insert(i as u8, ri);
                comms.insert(i as u8, ci);
            }
            gis.push(gi);
            xis.push(xi);
        }
        tr.size("|I|", comms.len());
        tr.public_point(&comm);
        VecComEqI { gis, h, g_bar, h_bar, xis, r, ris, comm, comms }
    }

    pub fn build(&self) -> VecComEq<C> {
        VecComEq {
            comm:  Commitment(self.comm),
            comms: self.comms.iter().map(|(k, v)| (*k, Commitment(*v))).collect(),
            gis:   self.gis.clone(),
            h:     self.h,
            g_bar: self.g_bar,
            h_bar: self.h_bar,
        }
    }

    #[allow(clippy::type_complexity)]
    pub fn wit(&self) -> (Vec<Sc<C>>, Value<C>, BTreeMap<u8, Value<C>>) {
        (self.xis.clone(), Value::new(self.r), self.ris.iter().map(|(k, v)| (*k, Value::new(*v))).collect())
    }
}

impl<C: Curve> Inst for VecComEqI<C> {
    fn n_stmt(&self) -> usize { 6 + self.gis.len() + self.comms.len() }

    fn stmt_mut(&mut self, i: usize, how: u8) -> Option<String> {
        let n = self.gis.len();
        match i {
            0 => {
                self.comm = perturb_point(&self.comm, how);
                Some("comm".into())
            }
            1 => {
                self.h = perturb_point(&self.h, how);
                Some("h".into())
            }
            2 => {
                self.g_bar = perturb_point(&self.g_bar, how);
                Some("g_bar".into())
            }
            3 => {
                self.h_bar = perturb_point(&self.h_bar, how);
                Some("h_bar".into())
            }
            4 => {
                // a commitment moves to an index that had none
                let (k, v) = self.comms.iter().next().map(|(k, v)| (*k, *v))?;
                let free = (0..n as u8).find(|j| !self.comms.contains_key(j))?;
                self.comms.remove(&k);
                self.comms.insert(free, v);
                Some("comms(index moved)".into())
            }
            5 => {
                let k = *self.comms.keys().next_back()?;
                self.comms.remove(&k);
                Some("comms(count-1)".into())
            }
            _ => {
                let k = i - 6;
                if k < n {
                    self.gis[k] = perturb_point(&self.gis[k], how);
                    Some(format!("gis[{k}]"))
                } else {
                    let key = *self.comms.keys().nth(k - n)?;
                    let v = self.comms.get_mut(&key)?;
                    *v = perturb_point(v, how);
                    Some(format!("comms[{key}]"))
                }
            }
        }
    }

    fn n_wit(&self) -> usize { 1 + self.xis.len() + self.ris.len() }

    fn wit_mut(&mut self, i: usize, how: u8) -> Option<String> {
        let n = self.xis.len();
        if i == 0 {
            self.r = perturb_scalar::<C>(&self.r, how);
            return Some("r".into());
        }
        let k = i - 1;
        if k < n {
            self.xis[k] = perturb_scalar::<C>(&self.xis[k], how);
            Some(format!("xis[{k}]"))
        } else {
            let key = *self.ris.keys().nth(k - n)?;
            let v = self.ris.get_mut(&key)?;
            *v = perturb_scalar::<C>(v, how);
            Some(format!("ris[{key}]"))
        }
    }

    fn resp_comps(&self) -> Vec<RespComp> {
        let n = self.gis.len();
        let l = C::SCALAR_LENGTH;
        let mut out = Vec::new();
        for i in 0..n {
            out.push(rs::<C>(format!("sis[{i}]"), 2 + i * l));
        }
        out.push(rs::<C>("t", 2 + n * l));
        let base = 2 + (n + 1) * l + 2;
        for (j, k) in self.comms.keys().enumerate() {
            out.push(rs::<C>(format!("tis[{k}]"), base + j * (1 + l) + 1));
        }
        out
    }

    fn resp_len(&self) -> usize { 2 + (self.gis.len() + 1) * C::SCALAR_LENGTH + 2 + self.comms.len() * (1 + C::SCALAR_LENGTH) }

    fn holds(&self) -> bool {
        let n = self.gis.len();
        if self.xis.len() != n || self.comms.len() != self.ris.len() {
            return false;
        }
        let mut c = self.h.mul_by_scalar(&self.r);
        for i in 0..n {
            c = c.plus_point(&self.gis[i].mul_by_scalar(&self.xis[i]));
        }
        if c != self.comm {
            return false;
        }
        for (k, ci) in &self.comms {
            let Some(ri) = self.ris.get(k) else { return false };
            let Some(xi) = self.xis.get(*k as usize) else { return false };
            if *ci != commit::<C>(&self.g_bar, &self.h_bar, xi, ri) {
                return false;
            }
        }
        true
    }
}

// ------------------------------------------------------------------------------------------
// Pointcheval-Sanders material shared by ComEqSig and PsSigKnown

#[derive(Clone)]
pub struct PsMat {
    pub pk:    PsPublicKey<IpPairing>,
    pub a_hat: PG1,
    pub b_hat: PG1,
    /// the blinding scalars (r, r') of `Signature::blind`
    pub blind: (Fr, Fr),
}

/// Key of length `len` and a blinded signature on `ms` (|ms| <= len).
fn ps_material(u: &mut Unstructured, tr: &mut Trace, len: usize, ms: &[Fr]) -> PsMat {
    // generators: mostly the library's fixed ones
    let (g, g_tilda) = if gen::byte(u) % 4 == 3 {
        let k1 = nz_scalar::<PG1>(u, tr, "ps.g");
        let k2 = nz_scalar::<PG2>(u, tr, "ps.g~");
        (PG1::one_point().mul_by_scalar(&k1), PG2::one_point().mul_by_scalar(&k2))
    } else {
        (PG1::one_point(), PG2::one_point())
    };
    let x = scalar::<PG1>(u, tr, "ps.x");
    let mut ys = Vec::with_capacity(len);
    for i in 0..len {
        // non-zero: a zero y_i makes Y~_i the identity, which is not a valid key component
        ys.push(nz_scalar::<PG1>(u, tr, &format!("ps.y{i}")));
    }
    let pk = PsPublicKey::<IpPairing> {
        g,
        g_tilda,
        ys: ys.iter().map(|y| g.mul_by_scalar(y)).collect(),
        y_tildas: ys.iter().map(|y| g_tilda.mul_by_scalar(y)).collect(),
        x_tilda: g_tilda.mul_by_scalar(&x),
    };
    // signature (a, a^{x + sum y_i m_i}) with a = g^k, k != 0
    let k = nz_scalar::<PG1>(u, tr, "sig.k");
    let a = g.mul_by_scalar(&k);
    let mut e = x;
    for (m, y) in ms.iter().zip(ys.iter()) {
        mul_add::<PG1>(m, y, &mut e);
    }
    let b = a.mul_by_scalar(&e);
    // blinding: (a^r, (b a^t)^r), r != 0
    let r = nz_scalar::<PG1>(u, tr, "blind.r");
    let t = scalar::<PG1>(u, tr, "blind.r'");
    let a_hat = a.mul_by_scalar(&r);
    let b_hat = b.plus_point(&a.mul_by_scalar(&t)).mul_by_scalar(&r);
    tr.public_point(&b_hat);
    PsMat { pk, a_hat, b_hat, blind: (r, t) }
}

impl PsMat {
    fn blinded(&self) -> BlindedSignature<IpPairing> { BlindedSignature { sig: Signature(self.a_hat, self.b_hat) } }

    const N_FIXED: usize = 5;

    /// e(b_hat, g~) == e(a_hat, X~ g~^{r'} prod_{i < |ms|} Y~_i^{m_i})
    fn sig_holds(&self, ms: &[Fr]) -> bool {
        if ms.len() > self.pk.y_tildas.len() {
            return false;
        }
        let mut q = self.pk.x_tilda.plus_point(&self.pk.g_tilda.mul_by_scalar(&self.blind.1));
        for (m, y) in ms.iter().zip(self.pk.y_tildas.iter()) {
            q = q.plus_point(&y.mul_by_scalar(m));
        }
        IpPairing::check_pairing_eq(&self.b_hat, &self.pk.g_tilda, &self.a_hat, &q)
    }

    fn n_stmt(&self) -> usize { Self::N_FIXED + 1 + self.pk.ys.len() + self.pk.y_tildas.len() }

    /// Perturbations of the blinded signature and of every component of the public key.
    fn stmt_mut(&mut self, i: usize, how: u8, used: usize) -> Option<String> {
        let l = self.pk.ys.len();
        match i {
            0 => {
                self.a_hat = perturb_point(&self.a_hat, how);
                Some("blinded_sig.0".into())
            }
            1 => {
                self.b_hat = perturb_point(&self.b_hat, how);
                Some("blinded_sig.1".into())
            }
            2 => {
                self.pk.g = perturb_point(&self.pk.g, how);
                Some("ps_pub_key.g".into())
            }
            3 => {
                self.pk.g_tilda = perturb_point(&self.pk.g_tilda, how);
                Some("ps_pub_key.g_tilda".into())
            }
            4 => {
                self.pk.x_tilda = perturb_point(&self.pk.x_tilda, how);
                Some("ps_pub_key.x_tilda".into())
            }
            5 => {
                // drop an unused trailing key component (key longer than the message)
                if l <= used {
                    return None;
                }
                self.pk.ys.pop();
                self.pk.y_tildas.pop();
                Some("ps_pub_key(len-1)".into())
            }
            _ => {
                let k = i - 6;
                if k < l {
                    self.pk.ys[k] = perturb_point(&self.pk.ys[k], how);
                    Some(format!("ps_pub_key.ys[{k}]"))
                } else {
                    let k = k - l;
                    self.pk.y_tildas[k] = perturb_point(&self.pk.y_tildas[k], how);
                    Some(format!("ps_pub_key.y_tildas[{k}]"))
                }
            }
        }
    }
}

fn key_len(u: &mut Unstructured, tr: &mut Trace, n: usize) -> usize {
    let extra = match gen::byte(u) % 4 {
        0 => 0,
        1 => 1,
        2 => 0,
        _ => gen::range_usize(u, 0, 5),
    };
    tr.note(format!("keylen={}", n + extra));
    n + extra
}

// ------------------------------------------------------------------------------------------
// ComEqSig: knowledge of a PS signature on committed values

#[derive(Clone)]
pub struct ComEqSigI<C: Curve<Scalar = Fr>> {
    pub ps:   PsMat,
    pub kg:   C,
    pub kh:   C,
    pub ms:   Vec<Fr>,
    pub rs:   Vec<Fr>,
    pub cmms: Vec<C>,
}

impl<C: Curve<Scalar = Fr>> ComEqSigI<C> {
    pub fn decode(u: &mut Unstructured, tr: &mut Trace, big: usize) -> Self {
        let mut gens = Gens::<C>::new();
        let kg = gens.next(u, tr, "comm_key.g");
        let kh = gens.next(u, tr, "comm_key.h");
        let n = size(u, tr, "n", 0, big);
        let len = key_len(u, tr, n);
        let (mut ms, mut rs_, mut cmms) = (vec![], vec![], vec![]);
        for i in 0..n {
            let m = scalar::<C>(u, tr, &format!("m{i}"));
            let r = scalar::<C>(u, tr, &format!("r{i}"));
            let c = commit::<C>(&kg, &kh, &m, &r);
            tr.public_point(&c);
            ms.push(m);
            rs_.push(r);
            cmms.push(c);
        }
        let ps = ps_material(u, tr, len, &ms);
        ComEqSigI { ps, kg, kh, ms, rs: rs_, cmms }
    }

    pub fn build(&self) -> ComEqSig<IpPairing, C> {
        ComEqSig {
            blinded_sig: self.ps.blinded(),
            commitments: self.cmms.iter().map(|c| Commitment(*c)).collect(),
            ps_pub_key:  self.ps.pk.clone(),
            comm_key:    CommitmentKey { g: self.kg, h: self.kh },
        }
    }

    pub fn wit(&self) -> ComEqSigSecret<IpPairing, C> {
        ComEqSigSecret {
            blind_rand:       BlindingRandomness(Secret::new(self.ps.blind.0), Secret::new(self.ps.blind.1)),
            values_and_rands: self.ms.iter().zip(self.rs.iter()).map(|(m, r)| (Value::new(*m), PedRandomness::new(*r))).collect(),
        }
    }
}

impl<C: Curve<Scalar = Fr>> Inst for ComEqSigI<C> {
    fn n_stmt(&self) -> usize { 3 + self.cmms.len() + self.ps.n_stmt() }

    fn stmt_mut(&mut self, i: usize, how: u8) -> Option<String> {
        let n = self.cmms.len();
        match i {
            0 => {
                self.kg = perturb_point(&self.kg, how);
                Some("comm_key.g".into())
            }
            1 => {
                self.kh = perturb_point(&self.kh, how);
                Some("comm_key.h".into())
            }
            2 => {
                self.cmms.pop()?;
                Some("commitments(count-1)".into())
            }
            _ => {
                let k = i - 3;
                if k < n {
                    self.cmms[k] = perturb_point(&self.cmms[k], how);
                    Some(format!("commitments[{k}]"))
                } else {
                    self.ps.stmt_mut(k - n, how, n)
                }
            }
        }
    }

    fn n_wit(&self) -> usize { 2 + 2 * self.ms.len() }

    fn wit_mut(&mut self, i: usize, how: u8) -> Option<String> {
        let n = self.ms.len();
        match i {
            0 => {
                self.ps.blind.1 = perturb_scalar::<C>(&self.ps.blind.1, how);
                Some("blind_rand.1".into())
            }
            1 => {
                self.ms.pop()?;
                self.rs.pop();
                Some("values_and_rands(count-1)".into())
            }
            _ => {
                let k = i - 2;
                if k < n {
                    self.ms[k] = perturb_scalar::<C>(&self.ms[k], how);
                    Some(format!("values[{k}]"))
                } else {
                    self.rs[k - n] = perturb_scalar::<C>(&self.rs[k - n], how);
                    Some(format!("rands[{}]", k - n))
                }
            }
        }
    }

    fn resp_comps(&self) -> Vec<RespComp> {
        let l = C::SCALAR_LENGTH;
        let mut out = vec![rs::<C>("response_rho", 0)];
        for i in 0..self.cmms.len() {
            out.push(rs::<C>(format!("response_commit[{i}].0"), l + 4 + 2 * i * l));
            out.push(rs::<C>(format!("response_commit[{i}].1"), l + 4 + (2 * i + 1) * l));
        }
        out
    }

    fn resp_len(&self) -> usize { C::SCALAR_LENGTH * (1 + 2 * self.cmms.len()) + 4 }

    fn holds(&self) -> bool {
        let n = self.cmms.len();
        if self.ms.len() != n || self.rs.len() != n || n > self.ps.pk.ys.len() {
            return false;
        }
        for i in 0..n {
            if self.cmms[i] != commit::<C>(&self.kg, &self.kh, &self.ms[i], &self.rs[i]) {
                return false;
            }
        }
        self.ps.sig_holds(&self.ms)
    }
}

// ------------------------------------------------------------------------------------------
// PsSigKnown: knowledge of a PS signature whose message parts are committed / public / known

#[derive(Clone, Copy, PartialEq, Eq, Debug)]
pub enum MsgKind {
    Cmm,
    Public,
    Known,
}

#[derive(Clone)]
pub struct PsKnownI<C: Curve<Scalar = Fr>> {
    pub ps:    PsMat,
    pub kg:    C,
    pub kh:    C,
    pub kinds: Vec<MsgKind>,
    pub ms:    Vec<Fr>,
    pub rs:    Vec<Fr>,
    pub cmms:  Vec<C>,
    /// statement-side override used by the "kind changed" perturbation
    pub stmt_kinds: Vec<MsgKind>,
    pub stmt_ms:    Vec<Fr>,
}

impl<C: Curve<Scalar = Fr>> PsKnownI<C> {
    pub fn decode(u: &mut Unstructured, tr: &mut Trace, big: usize) -> Self {
        let mut gens = Gens::<C>::new();
        let kg = gens.next(u, tr, "cmm_key.g");
        let kh = gens.next(u, tr, "cmm_key.h");
        let n = size(u, tr, "n", 0, big);
        let len = key_len(u, tr, n);
        let mode = gen::byte(u) % 5;
        let (mut kinds, mut ms, mut rs_, mut cmms) = (vec![], vec![], vec![], vec![]);
        for i in 0..n {
            let kind = match mode {
                0 => MsgKind::Cmm,
                1 => MsgKind::Public,
                2 => MsgKind::Known,
                _ => match gen::byte(u) % 3 {
                    0 => MsgKind::Cmm,
                    1 => MsgKind::Public,
                    _ => MsgKind::Known,
                },
            };
            tr.note(format!("kind{i}={kind:?}"));
            let m = scalar::<C>(u, tr, &format!("m{i}"));
            let r = if kind == MsgKind::Cmm { scalar::<C>(u, tr, &format!("r{i}")) } else { Fr::zero() };
            let c = if kind == MsgKind::Cmm { commit::<C>(&kg, &kh, &m, &r) } else { C::zero_point() };
            kinds.push(kind);
            ms.push(m);
            rs_.push(r);
            cmms.push(c);
        }
        let ps = ps_material(u, tr, len, &ms);
        PsKnownI { ps, kg, kh, stmt_kinds: kinds.clone(), stmt_ms: ms.clone(), kinds, ms, rs: rs_, cmms }
    }

    pub fn build(&self) -> PsSigKnown<IpPairing, C> {
        PsSigKnown {
            blinded_sig: self.ps.blinded(),
            msgs:        (0..self.stmt_kinds.len())
                .map(|i| match self.stmt_kinds[i] {
                    MsgKind::Cmm => PsSigMsg::EqualToCommitment(Commitment(self.cmms[i])),
                    MsgKind::Public => PsSigMsg::Public(Value::new(self.stmt_ms[i])),
                    MsgKind::Known => PsSigMsg::Known,
                })
                .collect(),
            ps_pub_key:  self.ps.pk.clone(),
            cmm_key:     CommitmentKey { g: self.kg, h: self.kh },
        }
    }

    pub fn wit(&self) -> PsSigWitness<IpPairing, C> {
        PsSigWitness {
            r_prime: Secret::new(self.ps.blind.1),
            msgs:    (0..self.kinds.len())
                .map(|i| match self.kinds[i] {
                    MsgKind::Cmm => PsSigWitnessMsg::EqualToCommitment(Value::new(self.ms[i]), PedRandomness::new(self.rs[i])),
                    MsgKind::Public => PsSigWitnessMsg::Public,
                    MsgKind::Known => PsSigWitnessMsg::Known(Value::new(self.ms[i])),
                })
                .collect(),
        }
    }
}

impl<C: Curve<Scalar = Fr>> Inst for PsKnownI<C> {
    fn n_stmt(&self) -> usize { 3 + 2 * self.stmt_kinds.len() + self.ps.n_stmt() }

    fn stmt_mut(&mut self, i: usize, how: u8) -> Option<String> {
        let n = self.stmt_kinds.len();
        match i {
            0 => {
                self.kg = perturb_point(&self.kg, how);
                Some("cmm_key.g".into())
            }
            1 => {
                self.kh = perturb_point(&self.kh, how);
                Some("cmm_key.h".into())
            }
            2 => {
                self.stmt_kinds.pop()?;
                Some("msgs(count-1)".into())
            }
            _ => {
                let k = i - 3;
                if k < n {
                    // the content of message part k
                    match self.stmt_kinds[k] {
                        MsgKind::Cmm => {
                            self.cmms[k] = perturb_point(&self.cmms[k], how);
                            Some(format!("msgs[{k}].commitment"))
                        }
                        MsgKind::Public => {
                            self.stmt_ms[k] = perturb_scalar::<C>(&self.stmt_ms[k], how);
                            Some(format!("msgs[{k}].public-value"))
                        }
                        MsgKind::Known => None,
                    }
                } else if k < 2 * n {
                    // the kind of message part k (keeping the true value where one is needed)
                    let k = k - n;
                    let old = self.stmt_kinds[k];
                    let new = match (old, how % 2) {
                        (MsgKind::Cmm, 0) => MsgKind::Public,
                        (MsgKind::Cmm, _) => MsgKind::Known,
                        (MsgKind::Public, 0) => MsgKind::Known,
                        (MsgKind::Public, _) => MsgKind::Cmm,
                        (MsgKind::Known, 0) => MsgKind::Public,
                        (MsgKind::Known, _) => MsgKind::Cmm,
                    };
                    if new == MsgKind::Cmm && old != MsgKind::Cmm {
                        self.cmms[k] = commit::<C>(&self.kg, &self.kh, &self.ms[k], &Fr::one());
                    }
                    self.stmt_kinds[k] = new;
                    Some(format!("msgs[{k}].kind({old:?}->{new:?})"))
                } else {
                    self.ps.stmt_mut(k - 2 * n, how, n)
                }
            }
        }
    }

    fn n_wit(&self) -> usize { 2 + 2 * self.ms.len() }

    fn wit_mut(&mut self, i: usize, how: u8) -> Option<String> {
        let n = self.ms.len();
        match i {
            0 => {
                self.ps.blind.1 = perturb_scalar::<C>(&self.ps.blind.1, how);
                Some("r_prime".into())
            }
            1 => {
                self.kinds.pop()?;
                Some("msgs(count-1)".into())
            }
            _ => {
                let k = i - 2;
                if k < n {
                    if self.kinds.get(k).copied()? == MsgKind::Public {
                        return None;
                    }
                    self.ms[k] = perturb_scalar::<C>(&self.ms[k], how);
                    Some(format!("msgs[{k}].value"))
                } else {
                    let k = k - n;
                    if self.kinds.get(k).copied()? != MsgKind::Cmm {
                        return None;
                    }
                    self.rs[k] = perturb_scalar::<C>(&self.rs[k], how);
                    Some(format!("msgs[{k}].randomness"))
                }
            }
        }
    }

    fn resp_comps(&self) -> Vec<RespComp> {
        let l = C::SCALAR_LENGTH;
        let mut out = vec![rs::<C>("resp_r_prime", 0)];
        let mut off = l + 4;
        for (i, k) in self.kinds.iter().enumerate() {
            off += 1; // variant tag
            match k {
                MsgKind::Cmm => {
                    out.push(rs::<C>(format!("resp_msgs[{i}].m"), off));
                    out.push(rs::<C>(format!("resp_msgs[{i}].r"), off + l));
                    off += 2 * l;
                }
                MsgKind::Public => {}
                MsgKind::Known => {
                    out.push(rs::<C>(format!("resp_msgs[{i}].m"), off));
                    off += l;
                }
            }
        }
        out
    }

    fn resp_len(&self) -> usize {
        let l = C::SCALAR_LENGTH;
        l + 4
            + self
                .kinds
                .iter()
                .map(|k| match k {
                    MsgKind::Cmm => 1 + 2 * l,
                    MsgKind::Public => 1,
                    MsgKind::Known => 1 + l,
                })
                .sum::<usize>()
    }

    fn holds(&self) -> bool {
        let n = self.stmt_kinds.len();
        if n > self.kinds.len() || n > self.ps.pk.ys.len() {
            return false;
        }
        let mut ms = Vec::with_capacity(n);
        for i in 0..n {
            if self.stmt_kinds[i] != self.kinds[i] {
                return false;
            }
            match self.kinds[i] {
                MsgKind::Cmm => {
                    if self.cmms[i] != commit::<C>(&self.kg, &self.kh, &self.ms[i], &self.rs[i]) {
                        return false;
                    }
                    ms.push(self.ms[i]);
                }
                MsgKind::Public => ms.push(self.stmt_ms[i]),
                MsgKind::Known => ms.push(self.ms[i]),
            }
        }
        self.ps.sig_holds(&ms)
    }
}

// ------------------------------------------------------------------------------------------
// EncTrans: pk = g^sk, S2 = S1^sk h^s with s the 2^32-weighted sum of the chunk secrets of the
// ComEq sub-statements

#[derive(Clone)]
pub struct EncTransI<C: Curve> {
    pub g:  C,
    pub sk: Sc<C>,
    pub pk: C,
    pub s1: C,
    pub h:  C,
    pub s2: C,
    pub e1: Vec<ComEqI<C, C>>,
    pub e2: Vec<ComEqI<C, C>>,
}

fn weighted<C: Curve>(xs: &[Sc<C>]) -> Sc<C> {
    let two32 = C::scalar_from_u64(1u64 << 32);
    let mut p = Sc::<C>::one();
    let mut sum = Sc::<C>::zero();
    for x in xs {
        mul_add::<C>(x, &p, &mut sum);
        p.mul_assign(&two32);
    }
    sum
}

impl<C: Curve> EncTransI<C> {
    pub fn decode(u: &mut Unstructured, tr: &mut Trace, big: usize) -> Self {
        let mut gens = Gens::<C>::new();
        let g = gens.next(u, tr, "g");
        let h = gens.next(u, tr, "h");
        let sk = scalar::<C>(u, tr, "sk");
        let pk = g.mul_by_scalar(&sk);
        let sk2 = scalar::<C>(u, tr, "sk_receiver");
        let pk2 = g.mul_by_scalar(&sk2);
        let rho = scalar::<C>(u, tr, "S1.rand");
        let s1 = g.mul_by_scalar(&rho);
        let n1 = size(u, tr, "t", 0, big);
        let n2 = size(u, tr, "t'", 0, big);
        // realistic shape (key = (pk_receiver, h), g = g) or independently generated generators
        let realistic = gen::byte(u) % 4 != 3;
        let mut mk = |u: &mut Unstructured, tr: &mut Trace, key: C, tag: &str, i: usize| {
            let a = scalar::<C>(u, tr, &format!("{tag}{i}.rand"));
            let r = chunk_scalar::<C>(u, tr, &format!("{tag}{i}.chunk"));
            if realistic {
                ComEqI::make(a, r, key, h, g)
            } else {
                let kg = gens.next(u, tr, "kg");
                let kh = gens.next(u, tr, "kh");
                let gg = gens.next(u, tr, "g'");
                ComEqI::make(a, r, kg, kh, gg)
            }
        };
        let e1: Vec<_> = (0..n1).map(|i| mk(u, tr, if pk2.is_zero_point() { g } else { pk2 }, "a", i)).collect();
        let e2: Vec<_> = (0..n2).map(|i| mk(u, tr, if pk.is_zero_point() { g } else { pk }, "s'", i)).collect();
        let mut s = weighted::<C>(&e1.iter().map(|e| e.r).collect::<Vec<_>>());
        s.add_assign(&weighted::<C>(&e2.iter().map(|e| e.r).collect::<Vec<_>>()));
        let s2 = commit::<C>(&s1, &h, &sk, &s);
        tr.public_point(&pk);
        tr.public_point(&s1);
        tr.public_point(&s2);
        EncTransI { g, sk, pk, s1, h, s2, e1, e2 }
    }

    pub fn build(&self) -> EncTrans<C> {
        EncTrans {
            dlog:    Dlog { public: self.pk, coeff: self.g },
            elg_dec: ElgDec { public: self.s2, coeff: [self.s1, self.h] },
            encexp1: self.e1.iter().map(|e| e.build()).collect(),
            encexp2: self.e2.iter().map(|e| e.build()).collect(),
        }
    }

    pub fn wit(&self) -> EncTransSecret<C> {
        EncTransSecret {
            dlog_secret:     Rc::new(self.sk),
            encexp1_secrets: self.e1.iter().map(|e| e.wit()).collect(),
            encexp2_secrets: self.e2.iter().map(|e| e.wit()).collect(),
        }
    }
}

impl<C: Curve> Inst for EncTransI<C> {
    fn n_stmt(&self) -> usize { 7 + 5 * (self.e1.len() + self.e2.len()) }

    fn stmt_mut(&mut self, i: usize, how: u8) -> Option<String> {
        let n1 = self.e1.len();
        match i {
            0 => {
                self.pk = perturb_point(&self.pk, how);
                Some("dlog.public".into())
            }
            1 => {
                self.g = perturb_point(&self.g, how);
                Some("dlog.coeff".into())
            }
            2 => {
                self.s2 = perturb_point(&self.s2, how);
                Some("elg_dec.public".into())
            }
            3 => {
                self.s1 = perturb_point(&self.s1, how);
                Some("elg_dec.coeff[0]".into())
            }
            4 => {
                self.h = perturb_point(&self.h, how);
                Some("elg_dec.coeff[1]".into())
            }
            5 => {
                self.e1.pop()?;
                Some("encexp1(count-1)".into())
            }
            6 => {
                // the last sub-statement of encexp1 becomes the first of encexp2
                let e = self.e1.pop()?;
                self.e2.insert(0, e);
                Some("encexp1->encexp2".into())
            }
            _ => {
                let k = i - 7;
                let (j, f) = (k / 5, k % 5);
                if j < n1 {
                    self.e1[j].stmt_mut(f, how).map(|s| format!("encexp1[{j}].{s}"))
                } else {
                    self.e2[j - n1].stmt_mut(f, how).map(|s| format!("encexp2[{}].{s}", j - n1))
                }
            }
        }
    }

    fn n_wit(&self) -> usize { 2 + 2 * (self.e1.len() + self.e2.len()) }

    fn wit_mut(&mut self, i: usize, how: u8) -> Option<String> {
        let n1 = self.e1.len();
        match i {
            0 => {
                self.sk = perturb_scalar::<C>(&self.sk, how);
                Some("dlog_secret".into())
            }
            1 => {
                self.e2.pop()?;
                Some("encexp2_secrets(count-1)".into())
            }
            _ => {
                let k = i - 2;
                let (j, f) = (k / 2, k % 2);
                if j < n1 {
                    self.e1[j].wit_mut(f, how).map(|s| format!("encexp1_secrets[{j}].{s}"))
                } else {
                    self.e2[j - n1].wit_mut(f, how).map(|s| format!("encexp2_secrets[{}].{s}", j - n1))
                }
            }
        }
    }

    fn resp_comps(&self) -> Vec<RespComp> {
        let l = C::SCALAR_LENGTH;
        let mut out = vec![rs::<C>("response_common", 0)];
        let mut off = l + 4;
        for j in 0..self.e1.len() {
            out.push(rs::<C>(format!("response_encexp1[{j}].s"), off));
            out.push(rs::<C>(format!("response_encexp1[{j}].t"), off + l));
            off += 2 * l;
        }
        off += 4;
        for j in 0..self.e2.len() {
            out.push(rs::<C>(format!("response_encexp2[{j}].s"), off));
            out.push(rs::<C>(format!("response_encexp2[{j}].t"), off + l));
            off += 2 * l;
        }
        out
    }

    fn resp_len(&self) -> usize { C::SCALAR_LENGTH * (1 + 2 * (self.e1.len() + self.e2.len())) + 8 }

    fn legacy_unframed(&self, i: usize) -> bool { i == 6 }

    fn holds(&self) -> bool {
        if self.pk != self.g.mul_by_scalar(&self.sk) || !self.e1.iter().all(|e| e.holds()) || !self.e2.iter().all(|e| e.holds()) {
            return false;
        }
        let mut s = weighted::<C>(&self.e1.iter().map(|e| e.r).collect::<Vec<_>>());
        s.add_assign(&weighted::<C>(&self.e2.iter().map(|e| e.r).collect::<Vec<_>>()));
        self.s2 == commit::<C>(&self.s1, &self.h, &self.sk, &s)
    }
}

// ------------------------------------------------------------------------------------------
// Compositions

#[derive(Clone)]
pub struct AndI<A: Inst, B: Inst> {
    pub a: A,
    pub b: B,
}

impl<A: Inst, B: Inst> Inst for AndI<A, B> {
    fn n_stmt(&self) -> usize { self.a.n_stmt() + self.b.n_stmt() }

    fn stmt_mut(&mut self, i: usize, how: u8) -> Option<String> {
        let na = self.a.n_stmt();
        if i < na {
            self.a.stmt_mut(i, how).map(|s| format!("first.{s}"))
        } else {
            self.b.stmt_mut(i - na, how).map(|s| format!("second.{s}"))
        }
    }

    fn n_wit(&self) -> usize { self.a.n_wit() + self.b.n_wit() }

    fn wit_mut(&mut self, i: usize, how: u8) -> Option<String> {
        let na = self.a.n_wit();
        if i < na {
            self.a.wit_mut(i, how).map(|s| format!("first.{s}"))
        } else {
            self.b.wit_mut(i - na, how).map(|s| format!("second.{s}"))
        }
    }

    fn resp_comps(&self) -> Vec<RespComp> {
        let mut out = shift(self.a.resp_comps(), 0, "r1.");
        out.extend(shift(self.b.resp_comps(), self.a.resp_len(), "r2."));
        out
    }

    fn resp_len(&self) -> usize { self.a.resp_len() + self.b.resp_len() }

    fn holds(&self) -> bool { self.a.holds() && self.b.holds() }

    fn legacy_unframed(&self, i: usize) -> bool {
        let na = self.a.n_stmt();
        if i < na {
            self.a.legacy_unframed(i)
        } else {
            self.b.legacy_unframed(i - na)
        }
    }

    fn known_not_in_public(&self, i: usize) -> bool {
        let na = self.a.n_stmt();
        if i < na {
            self.a.known_not_in_public(i)
        } else {
            self.b.known_not_in_public(i - na)
        }
    }
}

pub fn and_build<A, B, PA: SigmaProtocol, PB: SigmaProtocol>(i: &AndI<A, B>, fa: impl Fn(&A) -> PA, fb: impl Fn(&B) -> PB) -> AndAdapter<PA, PB>
where
    A: Inst,
    B: Inst, {
    AndAdapter { first: fa(&i.a), second: fb(&i.b) }
}

/// Replicated protocol; the adapter documents the list as non-empty.
#[derive(Clone)]
pub struct RepI<A: Inst> {
    pub v: Vec<A>,
    /// witness-side count override (dropping one secret)
    pub wit_n: usize,
}

impl<A: Inst> Inst for RepI<A> {
    fn n_stmt(&self) -> usize { 2 + self.v.iter().map(|a| a.n_stmt()).sum::<usize>() }

    fn stmt_mut(&mut self, i: usize, how: u8) -> Option<String> {
        match i {
            0 => {
                if self.v.len() < 2 {
                    return None;
                }
                self.v.pop();
                Some("protocols(count-1)".into())
            }
            1 => {
                let last = self.v.last()?.clone();
                self.v.push(last);
                Some("protocols(count+1)".into())
            }
            _ => {
                let mut k = i - 2;
                for (j, a) in self.v.iter_mut().enumerate() {
                    let m = a.n_stmt();
                    if k < m {
                        return a.stmt_mut(k, how).map(|s| format!("protocols[{j}].{s}"));
                    }
                    k -= m;
                }
                None
            }
        }
    }

    fn n_wit(&self) -> usize { 1 + self.v.iter().map(|a| a.n_wit()).sum::<usize>() }

    fn wit_mut(&mut self, i: usize, how: u8) -> Option<String> {
        if i == 0 {
            self.wit_n = self.wit_n.checked_sub(1)?;
            return Some("secrets(count-1)".into());
        }
        let mut k = i - 1;
        for (j, a) in self.v.iter_mut().enumerate() {
            let m = a.n_wit();
            if k < m {
                return a.wit_mut(k, how).map(|s| format!("secrets[{j}].{s}"));
            }
            k -= m;
        }
        None
    }

    fn resp_comps(&self) -> Vec<RespComp> {
        let mut out = Vec::new();
        let mut off = 4;
        for (j, a) in self.v.iter().enumerate() {
            out.extend(shift(a.resp_comps(), off, &format!("responses[{j}].")));
            off += a.resp_len();
        }
        out
    }

    fn resp_len(&self) -> usize { 4 + self.v.iter().map(|a| a.resp_len()).sum::<usize>() }

    fn holds(&self) -> bool { self.wit_n >= self.v.len() && self.v.iter().all(|a| a.holds()) }

    fn legacy_unframed(&self, i: usize) -> bool { self.locate(i).map(|(j, k)| self.v[j].legacy_unframed(k)).unwrap_or(false) }

    fn known_not_in_public(&self, i: usize) -> bool { self.locate(i).map(|(j, k)| self.v[j].known_not_in_public(k)).unwrap_or(false) }
}

impl<A: Inst> RepI<A> {
    fn locate(&self, i: usize) -> Option<(usize, usize)> {
        let mut k = i.checked_sub(2)?;
        for (j, a) in self.v.iter().enumerate() {
            let m = a.n_stmt();
            if k < m {
                return Some((j, k));
            }
            k -= m;
        }
        None
    }
}

pub fn rep_build<A: Inst, PA: SigmaProtocol>(i: &RepI<A>, fa: impl Fn(&A) -> PA) -> ReplicateAdapter<PA> { ReplicateAdapter { protocols: i.v.iter().map(fa).collect() } }
