//! Shared decoding helpers: scalar / generator tables, case trace, point and scalar
//! perturbations, transcript abstraction and transcript context prefixes.
use concordium_base::{
    common::{from_bytes, to_bytes},
    curve_arithmetic::{Curve, Field},
    random_oracle::{Challenge, RandomOracle, TranscriptProtocol, TranscriptProtocolV1},
};
use std::hash::{Hash, Hasher};
use vcore::{gen, Unstructured};

// ------------------------------------------------------------------------------------------
// Case trace: human readable description + hash key + boundary bookkeeping

pub struct Trace {
    pub parts:      Vec<String>,
    hasher:         std::collections::hash_map::DefaultHasher,
    /// number of boundary scalars (0, 1, r-1) decoded
    pub boundary:   u32,
    /// number of size parameters equal to 0 or 1
    pub edge_sizes: u32,
    /// number of repeated generators
    pub repeats:    u32,
    /// number of identity points among the public values of the statement
    pub identities: u32,
}

impl Trace {
    pub fn new() -> Self {
        Trace {
            parts:      Vec::new(),
            hasher:     std::collections::hash_map::DefaultHasher::new(),
            boundary:   0,
            edge_sizes: 0,
            repeats:    0,
            identities: 0,
        }
    }

    pub fn note(&mut self, s: impl Into<String>) {
        let s = s.into();
        s.hash(&mut self.hasher);
        self.parts.push(s);
    }

    pub fn feed(&mut self, b: &[u8]) { b.hash(&mut self.hasher); }

    pub fn key(&self) -> u64 { self.hasher.clone().finish() }

    pub fn text(&self) -> String { self.parts.join(" ") }

    pub fn size(&mut self, name: &str, n: usize) {
        if n <= 1 {
            self.edge_sizes += 1;
        }
        self.note(format!("{name}={n}"));
    }

    pub fn public_point<C: Curve>(&mut self, p: &C) {
        if p.is_zero_point() {
            self.identities += 1;
        }
    }
}

// ------------------------------------------------------------------------------------------
// Scalars

pub fn minus_one<C: Curve>() -> C::Scalar {
    let mut s = C::Scalar::one();
    s.negate();
    s
}

fn rand_scalar<C: Curve>(u: &mut Unstructured, tr: &mut Trace) -> (C::Scalar, String) {
    let b: [u8; 32] = gen::array(u);
    tr.feed(&b);
    let mut s = C::scalar_from_bytes(b);
    let neg = gen::boolean(u);
    if neg {
        s.negate();
    }
    (s, format!("{}rnd:{}", if neg { "-" } else { "" }, gen::hex(&b[..4])))
}

/// A scalar from the boundary table 0, 1, r-1, 2, small, -small, random. The all-zero choice is 0.
pub fn scalar<C: Curve>(u: &mut Unstructured, tr: &mut Trace, name: &str) -> C::Scalar {
    let (s, d) = match gen::byte(u) % 10 {
        0 => {
            tr.boundary += 1;
            (C::Scalar::zero(), "0".to_string())
        }
        1 => {
            tr.boundary += 1;
            (C::Scalar::one(), "1".to_string())
        }
        2 => {
            tr.boundary += 1;
            (minus_one::<C>(), "r-1".to_string())
        }
        3 => (C::scalar_from_u64(2), "2".to_string()),
        4 => {
            let v = gen::boundary_u64(u);
            (C::scalar_from_u64(v), format!("{v}"))
        }
        5 => {
            let v = gen::boundary_u64(u);
            let mut s = C::scalar_from_u64(v);
            s.negate();
            (s, format!("-{v}"))
        }
        _ => rand_scalar::<C>(u, tr),
    };
    tr.note(format!("{name}={d}"));
    s
}

/// As [`scalar`] but never zero (zero is replaced by one).
pub fn nz_scalar<C: Curve>(u: &mut Unstructured, tr: &mut Trace, name: &str) -> C::Scalar {
    let s = scalar::<C>(u, tr, name);
    if s.is_zero() {
        // the trace already says "0"; record the replacement
        tr.note("(->1)");
        tr.boundary = tr.boundary.saturating_sub(1);
        C::Scalar::one()
    } else {
        s
    }
}

/// A 32-bit "chunk" scalar (as used for encrypted amounts), or a general scalar.
pub fn chunk_scalar<C: Curve>(u: &mut Unstructured, tr: &mut Trace, name: &str) -> C::Scalar {
    match gen::byte(u) % 4 {
        0 => scalar::<C>(u, tr, name),
        1 => {
            tr.note(format!("{name}=2^32-1"));
            C::scalar_from_u64(u32::MAX as u64)
        }
        _ => {
            let v = gen::u32v(u) as u64;
            tr.note(format!("{name}={v}"));
            C::scalar_from_u64(v)
        }
    }
}

// ------------------------------------------------------------------------------------------
// Generators: non-identity group elements G^k; with some probability a previously produced
// generator is repeated.

pub struct Gens<C: Curve> {
    pool: Vec<C>,
}

impl<C: Curve> Gens<C> {
    pub fn new() -> Self { Gens { pool: Vec::new() } }

    pub fn next(&mut self, u: &mut Unstructured, tr: &mut Trace, name: &str) -> C {
        let sel = gen::byte(u);
        if !self.pool.is_empty() && sel % 8 == 7 {
            let i = gen::idx(u, self.pool.len());
            tr.repeats += 1;
            tr.note(format!("{name}=gen#{i}"));
            return self.pool[i];
        }
        let g = if sel % 8 == 0 {
            tr.note(format!("{name}=G"));
            C::one_point()
        } else {
            let k = nz_scalar::<C>(u, tr, &format!("{name}=G^k,k"));
            C::one_point().mul_by_scalar(&k)
        };
        self.pool.push(g);
        g
    }
}

// ------------------------------------------------------------------------------------------
// Perturbations: the result is always a well-formed element different from the input.

pub fn perturb_point<C: Curve>(p: &C, how: u8) -> C {
    let g = C::one_point();
    let q = match how % 4 {
        0 => p.plus_point(&g),
        1 => {
            if p.is_zero_point() {
                g
            } else {
                C::zero_point()
            }
        }
        2 => p.inverse_point(),
        _ => p.double_point(),
    };
    if q == *p {
        p.plus_point(&g)
    } else {
        q
    }
}

pub fn perturb_scalar<C: Curve>(s: &C::Scalar, how: u8) -> C::Scalar {
    let mut q = *s;
    match how % 4 {
        0 => q.add_assign(&C::Scalar::one()),
        1 => {
            if s.is_zero() {
                q = C::Scalar::one()
            } else {
                q = C::Scalar::zero()
            }
        }
        2 => q.negate(),
        _ => q.sub_assign(&C::Scalar::one()),
    }
    if q == *s {
        q.add_assign(&C::Scalar::one());
    }
    q
}

/// Perturb the scalar serialised in `b` (exactly one scalar of `C`), in place.
pub fn bump_scalar<C: Curve>(b: &mut [u8], how: u8) -> bool {
    let s: C::Scalar = match from_bytes(&mut std::io::Cursor::new(&b[..])) {
        Ok(s) => s,
        Err(_) => return false,
    };
    let out = to_bytes(&perturb_scalar::<C>(&s, how));
    if out.len() != b.len() {
        return false;
    }
    b.copy_from_slice(&out);
    true
}

/// Perturb the point serialised in `b` (exactly one group element of `C`), in place.
pub fn bump_point<C: Curve>(b: &mut [u8], how: u8) -> bool {
    let s: C = match from_bytes(&mut std::io::Cursor::new(&b[..])) {
        Ok(s) => s,
        Err(_) => return false,
    };
    let out = to_bytes(&perturb_point::<C>(&s, how));
    if out.len() != b.len() {
        return false;
    }
    b.copy_from_slice(&out);
    true
}

#[derive(Clone)]
pub struct RespComp {
    pub name: String,
    pub off:  usize,
    pub len:  usize,
    pub bump: fn(&mut [u8], u8) -> bool,
}

pub fn rs<C: Curve>(name: impl Into<String>, off: usize) -> RespComp {
    RespComp { name: name.into(), off, len: C::SCALAR_LENGTH, bump: bump_scalar::<C> }
}

pub fn shift(v: Vec<RespComp>, by: usize, prefix: &str) -> Vec<RespComp> {
    v.into_iter().map(|mut c| {
        c.off += by;
        c.name = format!("{prefix}{}", c.name);
        c
    }).collect()
}

/// Field names in signatures must be stable: bracketed indices are replaced by '#'.
pub fn sig_name(s: &str) -> String {
    let mut out = String::new();
    let mut in_brackets = false;
    let mut in_digits = false;
    for ch in s.chars() {
        match ch {
            '[' => {
                in_brackets = true;
                out.push(ch);
            }
            ']' => {
                in_brackets = false;
                in_digits = false;
                out.push(ch);
            }
            d if in_brackets && d.is_ascii_digit() => {
                if !in_digits {
                    out.push('#');
                }
                in_digits = true;
            }
            _ => {
                in_digits = false;
                out.push(ch);
            }
        }
    }
    out
}

// ------------------------------------------------------------------------------------------
// Size parameters

/// Size from the table 0, 1, 2, 3, 17 (`min` is the smallest admissible size).
pub fn size(u: &mut Unstructured, tr: &mut Trace, name: &str, min: usize, big: usize) -> usize {
    let n = match gen::byte(u) % 10 {
        0 => 0,
        1 | 2 => 1,
        3 | 4 => 2,
        5 => 3,
        6 => big,
        7 => gen::range_usize(u, 0, 6),
        8 => 1,
        _ => 2,
    };
    let n = n.max(min);
    tr.size(name, n);
    n
}

// ------------------------------------------------------------------------------------------
// Transcripts

pub trait Tx: TranscriptProtocol + Sized {
    const NAME: &'static str;
    fn start(domain: &[u8]) -> Self;
    fn fork(&self) -> Self;
    fn raw(&self) -> Challenge { self.extract_raw_challenge() }
}

impl Tx for RandomOracle {
    const NAME: &'static str = "legacy";

    #[allow(deprecated)]
    fn start(domain: &[u8]) -> Self { RandomOracle::domain(domain) }

    fn fork(&self) -> Self { self.split() }
}

impl Tx for TranscriptProtocolV1 {
    const NAME: &'static str = "v1";

    fn start(domain: &[u8]) -> Self { TranscriptProtocolV1::with_domain(domain) }

    fn fork(&self) -> Self { self.split() }
}

/// A transcript context: a domain string followed by labelled byte messages.
#[derive(Clone, Debug, PartialEq, Eq, Hash)]
pub struct CtxSpec {
    pub domain: Vec<u8>,
    pub items:  Vec<(Vec<u8>, Vec<u8>)>,
}

impl CtxSpec {
    pub fn decode(u: &mut Unstructured) -> Self {
        let domain = gen::short_bytes(u, 40);
        let n = match gen::byte(u) % 4 {
            0 => 0,
            1 => 1,
            2 => 2,
            _ => gen::range_usize(u, 0, 4),
        };
        let mut items = Vec::new();
        for _ in 0..n {
            items.push((gen::short_bytes(u, 12), gen::short_bytes(u, 40)));
        }
        CtxSpec { domain, items }
    }

    pub fn build<T: Tx>(&self) -> T {
        let mut t = T::start(&self.domain);
        for (l, m) in &self.items {
            t.append_message(l, m);
        }
        t
    }

    pub const N_MUT: usize = 8;

    /// The i-th perturbation of the context (a different prefix, an extra or a missing message, a
    /// different label, a moved split point). `None` when not applicable.
    pub fn mutant(&self, i: usize, u: &mut Unstructured) -> Option<(&'static str, CtxSpec)> {
        let mut c = self.clone();
        let name = match i {
            0 => {
                // one domain byte changed (or one added to an empty domain)
                if c.domain.is_empty() {
                    c.domain.push(gen::byte(u));
                } else {
                    let k = gen::idx(u, c.domain.len());
                    c.domain[k] ^= 1 << (gen::byte(u) % 8);
                }
                "domain-byte"
            }
            1 => {
                c.domain.push(gen::byte(u));
                "domain-extended"
            }
            2 => {
                c.domain.pop()?;
                "domain-truncated"
            }
            3 => {
                c.items.push((gen::short_bytes(u, 6), gen::short_bytes(u, 6)));
                "extra-message"
            }
            4 => {
                c.items.pop()?;
                "missing-message"
            }
            5 => {
                let n = c.items.len();
                if n == 0 {
                    return None;
                }
                let k = gen::idx(u, n);
                let l = &mut c.items[k].0;
                if l.is_empty() {
                    l.push(b'x');
                } else {
                    let j = gen::idx(u, l.len());
                    l[j] ^= 1 << (gen::byte(u) % 8);
                }
                "label-changed"
            }
            6 => {
                let n = c.items.len();
                if n == 0 {
                    return None;
                }
                let k = gen::idx(u, n);
                let m = &mut c.items[k].1;
                if m.is_empty() {
                    m.push(0);
                } else {
                    let j = gen::idx(u, m.len());
                    m[j] ^= 1 << (gen::byte(u) % 8);
                }
                "message-changed"
            }
            _ => {
                // split point moved: last byte of a label becomes the first byte of its message
                let n = c.items.len();
                if n == 0 {
                    return None;
                }
                let k = gen::idx(u, n);
                let b = c.items[k].0.pop()?;
                c.items[k].1.insert(0, b);
                "split-point-moved"
            }
        };
        if c == *self {
            return None;
        }
        Some((name, c))
    }
}

pub fn challenge_bytes(c: &Challenge) -> [u8; 32] {
    let mut out = [0u8; 32];
    out.copy_from_slice(c.as_ref());
    out
}

/// Choose up to `budget` indices out of `0..n`: all of them when they fit, otherwise a window
/// starting at a generated position.
pub fn pick(u: &mut Unstructured, n: usize, budget: usize) -> Vec<usize> {
    if n <= budget {
        return (0..n).collect();
    }
    let start = gen::idx(u, n);
    let stride = if n > 2 * budget { 1 + gen::idx(u, n / budget) } else { 1 };
    let mut out = Vec::with_capacity(budget);
    let mut seen = std::collections::BTreeSet::new();
    let mut k = start;
    while out.len() < budget {
        if seen.insert(k % n) {
            out.push(k % n);
        } else {
            k += 1;
            continue;
        }
        k += stride;
    }
    out
}
