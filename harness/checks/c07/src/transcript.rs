//! Transcript framing: the bytes fed to the challenge hash, observed through an independent
//! SHA3-256 over a model of the documented framing, and injectivity of that framing.
use crate::util::{challenge_bytes, Tx};
use concordium_base::random_oracle::{RandomOracle, TranscriptProtocol, TranscriptProtocolV1};
use sha3::{Digest, Sha3_256};
use vcore::{gen, vensure, CheckResult, Ctx, Unstructured, Violation};

#[derive(Clone, Debug, PartialEq, Eq, Hash)]
pub enum Item {
    /// `Vec<u8>`: u64 length prefix + bytes
    Bytes(Vec<u8>),
    /// `String`: u64 length prefix + utf8
    Str(String),
    U8(u8),
    U32(u32),
    U64(u64),
}

#[derive(Clone, Debug, PartialEq, Eq, Hash)]
pub enum Items {
    Bytes(Vec<Vec<u8>>),
    U64(Vec<u64>),
    U8(Vec<u8>),
}

impl Items {
    fn len(&self) -> usize {
        match self {
            Items::Bytes(v) => v.len(),
            Items::U64(v) => v.len(),
            Items::U8(v) => v.len(),
        }
    }

    fn items(&self) -> Vec<Item> {
        match self {
            Items::Bytes(v) => v.iter().map(|b| Item::Bytes(b.clone())).collect(),
            Items::U64(v) => v.iter().map(|b| Item::U64(*b)).collect(),
            Items::U8(v) => v.iter().map(|b| Item::U8(*b)).collect(),
        }
    }
}

#[derive(Clone, Debug, PartialEq, Eq, Hash)]
pub enum Op {
    Label(Vec<u8>),
    Msg(Vec<u8>, Item),
    Msgs(Vec<u8>, Items),
    /// `append_each_message`: every group is appended by a closure running the nested ops
    Each(Vec<u8>, Vec<Vec<Op>>),
    Final(Vec<u8>, Item),
}

#[derive(Clone, Debug, PartialEq, Eq, Hash)]
pub struct Script {
    pub domain: Vec<u8>,
    pub ops:    Vec<Op>,
}

/// Token of the canonical view. `Lp` = length-prefixed byte string (labels under V1, `Vec<u8>`
/// and `String` items), `W` = fixed width big-endian word (u8/u32/u64 items; collection counts
/// under V1), `Raw` = unframed bytes (labels under the legacy oracle).
#[derive(Clone, Debug, PartialEq, Eq)]
pub enum Tok {
    Lp(Vec<u8>),
    W(Vec<u8>),
    Raw(Vec<u8>),
}

impl Tok {
    fn enc(&self, out: &mut Vec<u8>) {
        match self {
            Tok::Lp(b) => {
                out.extend_from_slice(&(b.len() as u64).to_be_bytes());
                out.extend_from_slice(b);
            }
            Tok::W(b) | Tok::Raw(b) => out.extend_from_slice(b),
        }
    }
}

fn item_tok(i: &Item) -> Tok {
    match i {
        Item::Bytes(b) => Tok::Lp(b.clone()),
        Item::Str(s) => Tok::Lp(s.as_bytes().to_vec()),
        Item::U8(x) => Tok::W(vec![*x]),
        Item::U32(x) => Tok::W(x.to_be_bytes().to_vec()),
        Item::U64(x) => Tok::W(x.to_be_bytes().to_vec()),
    }
}

fn label_tok(v1: bool, l: &[u8]) -> Tok {
    if v1 {
        Tok::Lp(l.to_vec())
    } else {
        Tok::Raw(l.to_vec())
    }
}

fn flatten_ops(v1: bool, ops: &[Op], out: &mut Vec<Tok>) {
    for op in ops {
        match op {
            Op::Label(l) => out.push(label_tok(v1, l)),
            Op::Msg(l, it) => {
                out.push(label_tok(v1, l));
                out.push(item_tok(it));
            }
            Op::Msgs(l, its) => {
                out.push(label_tok(v1, l));
                if v1 {
                    out.push(Tok::W((its.len() as u64).to_be_bytes().to_vec()));
                }
                for it in its.items() {
                    out.push(item_tok(&it));
                }
            }
            Op::Each(l, groups) => {
                out.push(label_tok(v1, l));
                if v1 {
                    out.push(Tok::W((groups.len() as u64).to_be_bytes().to_vec()));
                }
                for g in groups {
                    flatten_ops(v1, g, out);
                }
            }
            Op::Final(l, it) => {
                // the legacy oracle documents that it omits the final prover message
                if v1 {
                    out.push(label_tok(v1, l));
                    out.push(item_tok(it));
                }
            }
        }
    }
}

pub fn flatten(v1: bool, s: &Script) -> Vec<Tok> {
    let mut out = vec![label_tok(v1, &s.domain)];
    flatten_ops(v1, &s.ops, &mut out);
    out
}

pub fn model_bytes(toks: &[Tok]) -> Vec<u8> {
    let mut out = Vec::new();
    for t in toks {
        t.enc(&mut out);
    }
    out
}

fn apply_item<T: TranscriptProtocol>(t: &mut T, l: &[u8], it: &Item, fin: bool) {
    macro_rules! go {
        ($v:expr) => {
            if fin {
                t.append_final_prover_message(l, $v)
            } else {
                t.append_message(l, $v)
            }
        };
    }
    match it {
        Item::Bytes(b) => go!(b),
        Item::Str(s) => go!(s),
        Item::U8(x) => go!(x),
        Item::U32(x) => go!(x),
        Item::U64(x) => go!(x),
    }
}

fn apply_ops<T: TranscriptProtocol>(t: &mut T, ops: &[Op]) {
    for op in ops {
        match op {
            Op::Label(l) => t.append_label(l),
            Op::Msg(l, it) => apply_item(t, l, it, false),
            Op::Msgs(l, its) => match its {
                Items::Bytes(v) => t.append_messages(l, v),
                Items::U64(v) => t.append_messages(l, v),
                Items::U8(v) => t.append_messages(l, v),
            },
            Op::Each(l, groups) => t.append_each_message(l, groups, |t, g| apply_ops(t, g)),
            Op::Final(l, it) => apply_item(t, l, it, true),
        }
    }
}

pub fn run_script<T: Tx>(s: &Script) -> [u8; 32] {
    let mut t = T::start(&s.domain);
    apply_ops(&mut t, &s.ops);
    challenge_bytes(&t.raw())
}

fn sha3(b: &[u8]) -> [u8; 32] {
    let mut h = Sha3_256::new();
    h.update(b);
    h.finalize().into()
}

// ------------------------------------------------------------------------------------------
// decoding

fn label(u: &mut Unstructured) -> Vec<u8> {
    match gen::byte(u) % 6 {
        0 => Vec::new(),
        1 => b"a".to_vec(),
        2 => b"ab".to_vec(),
        3 => b"point".to_vec(),
        _ => gen::short_bytes(u, 12),
    }
}

fn item(u: &mut Unstructured) -> Item {
    match gen::byte(u) % 6 {
        0 => Item::Bytes(gen::short_bytes(u, 24)),
        1 => Item::U8(gen::byte(u)),
        2 => Item::U32(gen::boundary_u32(u)),
        3 => Item::U64(gen::boundary_u64(u)),
        4 => {
            let b = gen::short_bytes(u, 12);
            Item::Str(b.iter().map(|x| (b'a' + x % 26) as char).collect())
        }
        _ => Item::Bytes(gen::short_bytes(u, 8)),
    }
}

fn items(u: &mut Unstructured) -> Items {
    let n = match gen::byte(u) % 5 {
        0 => 0,
        1 => 1,
        2 => 2,
        3 => 3,
        _ => gen::range_usize(u, 0, 6),
    };
    match gen::byte(u) % 3 {
        0 => Items::Bytes((0..n).map(|_| gen::short_bytes(u, 10)).collect()),
        1 => Items::U64((0..n).map(|_| gen::boundary_u64(u)).collect()),
        _ => Items::U8((0..n).map(|_| gen::byte(u)).collect()),
    }
}

fn op(u: &mut Unstructured, depth: usize) -> Op {
    match gen::byte(u) % 8 {
        0 => Op::Label(label(u)),
        1 | 2 | 3 => Op::Msg(label(u), item(u)),
        4 => Op::Msgs(label(u), items(u)),
        5 if depth == 0 => {
            let n = gen::range_usize(u, 0, 3);
            let groups = (0..n)
                .map(|_| {
                    let k = gen::range_usize(u, 0, 2);
                    (0..k).map(|_| op(u, 1)).collect()
                })
                .collect();
            Op::Each(label(u), groups)
        }
        6 => Op::Final(label(u), item(u)),
        _ => Op::Msg(label(u), item(u)),
    }
}

fn script(u: &mut Unstructured) -> Script {
    let domain = label(u);
    let n = gen::range_usize(u, 0, 6);
    Script { domain, ops: (0..n).map(|_| op(u, 0)).collect() }
}

/// The named split-point attacks: two scripts that differ only in where a boundary lies.
fn attack(u: &mut Unstructured, base: &Script) -> (&'static str, Script, Script) {
    let mut a = base.clone();
    let mut b = base.clone();
    let x = {
        let mut x = gen::short_bytes(u, 6);
        if x.is_empty() {
            x.push(b'c');
        }
        x
    };
    let l = label(u);
    let pos = gen::idx(u, base.ops.len() + 1);
    let name = match gen::byte(u) % 9 {
        8 => {
            // a one-byte item between two labels vs one long label: only the label framing separates them
            let c = gen::byte(u);
            let it = item(u);
            let mut long = l.clone();
            long.push(c);
            long.extend_from_slice(&x);
            a.ops.insert(pos, Op::Msg(x.clone(), it.clone()));
            a.ops.insert(pos, Op::Msg(l, Item::U8(c)));
            b.ops.insert(pos, Op::Msg(long, it));
            "label,u8,label|label"
        }
        0 => {
            // ("ab","c") vs ("a","bc"): label / message boundary
            let m = gen::short_bytes(u, 6);
            let mut l2 = l.clone();
            l2.extend_from_slice(&x);
            let mut m2 = x.clone();
            m2.extend_from_slice(&m);
            a.ops.insert(pos, Op::Msg(l2, Item::Bytes(m)));
            b.ops.insert(pos, Op::Msg(l, Item::Bytes(m2)));
            "label|message"
        }
        1 => {
            // label "ab" vs labels "a","b"
            let mut l2 = l.clone();
            l2.extend_from_slice(&x);
            a.ops.insert(pos, Op::Label(l2));
            b.ops.insert(pos, Op::Label(x));
            b.ops.insert(pos, Op::Label(l));
            "label|label"
        }
        2 => {
            // [x,y] vs [x],[y]
            let y = gen::short_bytes(u, 6);
            let l2 = if gen::boolean(u) { Vec::new() } else { label(u) };
            a.ops.insert(pos, Op::Msgs(l.clone(), Items::Bytes(vec![x.clone(), y.clone()])));
            b.ops.insert(pos, Op::Msgs(l2, Items::Bytes(vec![y])));
            b.ops.insert(pos, Op::Msgs(l, Items::Bytes(vec![x])));
            "[x,y]|[x],[y]"
        }
        3 => {
            // [x,y] vs [xy] with fixed-width items: only the count tells them apart
            let p = gen::byte(u);
            let q = gen::byte(u);
            a.ops.insert(pos, Op::Msgs(l.clone(), Items::U8(vec![p, q])));
            b.ops.insert(pos, Op::Msgs(l.clone(), Items::U8(vec![p])));
            b.ops.insert(pos + 1, Op::Msgs(Vec::new(), Items::U8(vec![q])));
            "[p,q]|[p],[q] u8"
        }
        4 => {
            // each: two groups vs one group with the same nested ops
            let g1 = vec![Op::Msg(b"Item".to_vec(), Item::U8(gen::byte(u)))];
            let g2 = vec![Op::Msg(b"Item".to_vec(), Item::U8(gen::byte(u)))];
            let mut both = g1.clone();
            both.extend(g2.clone());
            a.ops.insert(pos, Op::Each(l.clone(), vec![g1, g2]));
            b.ops.insert(pos, Op::Each(l, vec![both]));
            "each 2|1"
        }
        5 => {
            // domain / first label boundary
            a.domain.extend_from_slice(&x);
            b.ops.insert(0, Op::Label(x));
            "domain|label"
        }
        6 => {
            // label that is a prefix of another label, same message
            let it = item(u);
            let mut l2 = l.clone();
            l2.extend_from_slice(&x);
            a.ops.insert(pos, Op::Msg(l, it.clone()));
            b.ops.insert(pos, Op::Msg(l2, it));
            "label-prefix"
        }
        _ => {
            // an empty collection vs nothing but its label
            a.ops.insert(pos, Op::Msgs(l.clone(), Items::Bytes(vec![])));
            b.ops.insert(pos, Op::Msgs(l, Items::Bytes(vec![Vec::new()])));
            "[]|[\"\"]"
        }
    };
    (name, a, b)
}

fn mutate(u: &mut Unstructured, s: &Script) -> Script {
    let mut m = s.clone();
    if m.ops.is_empty() || gen::byte(u) % 8 == 0 {
        m.domain.push(gen::byte(u));
        return m;
    }
    let k = gen::idx(u, m.ops.len());
    match gen::byte(u) % 5 {
        0 => {
            m.ops.remove(k);
        }
        1 => {
            let o = op(u, 0);
            m.ops.insert(k, o);
        }
        2 => {
            let o = m.ops[k].clone();
            m.ops.insert(k, o);
        }
        3 => match &mut m.ops[k] {
            Op::Label(l) | Op::Msg(l, _) | Op::Msgs(l, _) | Op::Each(l, _) | Op::Final(l, _) => {
                if l.is_empty() {
                    l.push(gen::byte(u));
                } else {
                    let j = gen::idx(u, l.len());
                    l[j] ^= 1 << (gen::byte(u) % 8);
                }
            }
        },
        _ => match &mut m.ops[k] {
            Op::Msg(_, it) | Op::Final(_, it) => *it = item(u),
            Op::Msgs(_, its) => *its = items(u),
            Op::Label(l) => l.push(gen::byte(u)),
            Op::Each(_, g) => g.push(vec![]),
        },
    }
    m
}

/// Same appends and labels, one data item changed (keeps its type).
fn mutate_data(u: &mut Unstructured, s: &Script) -> Script {
    let mut m = s.clone();
    let idxs: Vec<usize> = m.ops.iter().enumerate().filter(|(_, o)| matches!(o, Op::Msg(..) | Op::Msgs(..) | Op::Final(..))).map(|(i, _)| i).collect();
    if idxs.is_empty() {
        m.ops.push(Op::Msg(label(u), item(u)));
        return m;
    }
    let k = idxs[gen::idx(u, idxs.len())];
    let flip = |u: &mut Unstructured, b: &mut Vec<u8>| {
        match gen::byte(u) % 3 {
            0 => b.push(gen::byte(u)),
            1 if !b.is_empty() => {
                b.pop();
            }
            _ => {
                if b.is_empty() {
                    b.push(1)
                } else {
                    let j = gen::idx(u, b.len());
                    b[j] ^= 1 << (gen::byte(u) % 8);
                }
            }
        }
    };
    match &mut m.ops[k] {
        Op::Msg(_, it) | Op::Final(_, it) => match it {
            Item::Bytes(b) => flip(u, b),
            Item::Str(s) => s.push('z'),
            Item::U8(x) => *x ^= 1 << (gen::byte(u) % 8),
            Item::U32(x) => *x ^= 1 << (gen::byte(u) % 32),
            Item::U64(x) => *x ^= 1 << (gen::byte(u) % 64),
        },
        Op::Msgs(_, its) => match its {
            Items::Bytes(v) => {
                if v.is_empty() {
                    v.push(vec![])
                } else {
                    let j = gen::idx(u, v.len());
                    flip(u, &mut v[j])
                }
            }
            Items::U64(v) => {
                if v.is_empty() {
                    v.push(0)
                } else {
                    let j = gen::idx(u, v.len());
                    v[j] ^= 1 << (gen::byte(u) % 64)
                }
            }
            Items::U8(v) => {
                if v.is_empty() {
                    v.push(0)
                } else {
                    let j = gen::idx(u, v.len());
                    v[j] ^= 1 << (gen::byte(u) % 8)
                }
            }
        },
        _ => {}
    }
    m
}

/// First position where two token lists differ, classified.
#[derive(Debug, PartialEq, Eq)]
enum Diff {
    Equal,
    /// one list is a proper prefix of the other and the rest encodes to at least one byte
    Prefix,
    /// both tokens are self-delimiting and of the same kind: the framing claims injectivity
    Framed,
    /// the first difference involves an unframed token or tokens of different kinds
    Unframed,
}

fn first_diff(a: &[Tok], b: &[Tok]) -> Diff {
    let n = a.len().min(b.len());
    for i in 0..n {
        if a[i] != b[i] {
            return match (&a[i], &b[i]) {
                (Tok::Lp(_), Tok::Lp(_)) => Diff::Framed,
                (Tok::W(x), Tok::W(y)) if x.len() == y.len() => Diff::Framed,
                _ => Diff::Unframed,
            };
        }
    }
    if a.len() == b.len() {
        return Diff::Equal;
    }
    let rest = if a.len() > n { &a[n..] } else { &b[n..] };
    if model_bytes(rest).is_empty() {
        Diff::Unframed
    } else {
        Diff::Prefix
    }
}

fn hex32(b: &[u8; 32]) -> String { gen::hex(b) }

/// Digests pinned by the repository's own unit tests (`test_v0_*_stable`, `test_v1_*_stable`).
fn golden() -> CheckResult {
    let m = |l: &str| Op::Msg(l.as_bytes().to_vec(), Item::Bytes(vec![1, 2, 3]));
    let each = Op::Each(b"Label1".to_vec(), (1u8..=3).map(|x| vec![Op::Msg(b"Item".to_vec(), Item::U8(x))]).collect());
    let cases: Vec<(bool, &str, Vec<Op>, &str)> = vec![
        (false, "Domain1", vec![], "b6dbfe8bfbc515d92bcc322b1e98291a45536f81f6eca2411d8dae54766666f1"),
        (false, "", vec![Op::Label(vec![1, 2, 3])], "fd1780a6fc9ee0dab26ceb4b3941ab03e66ccd970d1db91612c66df4515b0a0a"),
        (false, "", vec![m("Label1")], "3756eec6f9241f9a1cd8b401f54679cf9be2e057365728336221b1871ff666fb"),
        (false, "", vec![Op::Msgs(b"Label1".to_vec(), Items::U8(vec![1, 2, 3]))], "6b1addb1c08e887242f5e78127c31c17851f29349c45aa415adce255f95fd292"),
        (false, "", vec![Op::Final(b"Label1".to_vec(), Item::Bytes(vec![1, 2, 3]))], "a7ffc6f8bf1ed76651c14756a061d662f580ff4de43b49fa82d80a4b80f8434a"),
        (false, "", vec![each.clone()], "90da7b2dc7bc9091be9201598ef0d8b43f8b00c53454822a2f8ce41c6a3f3d85"),
        (true, "Domain1", vec![], "5691f0658460c461ffe14baa70071545df78725892d0decfe6f6642233a0d8e2"),
        (true, "Domain1", vec![Op::Label(vec![1, 2, 3])], "683a300a44b3f9165f78dd9fd90efc9a632c11131ef5e805ff3505b5bf0cc7d2"),
        (true, "Domain1", vec![m("Label1")], "5fb23e3d1cfb33d1b2e2da1c070c7a79056b00d13d642ee47fba542d4863a911"),
        (true, "Domain1", vec![Op::Msgs(b"Label1".to_vec(), Items::U8(vec![1, 2, 3]))], "5fb23e3d1cfb33d1b2e2da1c070c7a79056b00d13d642ee47fba542d4863a911"),
        (true, "Domain1", vec![Op::Final(b"Label1".to_vec(), Item::Bytes(vec![1, 2, 3]))], "5fb23e3d1cfb33d1b2e2da1c070c7a79056b00d13d642ee47fba542d4863a911"),
        (true, "Domain1", vec![each], "ffd0694d68003afd3751f33bbadd38ae26db78aa4e62ce4d53814b9676d6c7dd"),
    ];
    for (i, (v1, d, ops, want)) in cases.into_iter().enumerate() {
        let s = Script { domain: d.as_bytes().to_vec(), ops };
        let got = if v1 { run_script::<TranscriptProtocolV1>(&s) } else { run_script::<RandomOracle>(&s) };
        let model = sha3(&model_bytes(&flatten(v1, &s)));
        if hex32(&got) != want {
            return Err(Violation::new("transcript-golden", format!("pinned digest {i} ({}) changed: got {}, pinned {want}", if v1 { "v1" } else { "legacy" }, hex32(&got)))
                .with_signature(format!("transcript-golden:{i}")));
        }
        if hex32(&model) != want {
            return Err(Violation::new("harness-model", format!("harness model disagrees with pinned digest {i}")).with_signature("harness-model"));
        }
    }
    Ok(())
}

fn actual(v1: bool, s: &Script) -> [u8; 32] {
    if v1 {
        run_script::<TranscriptProtocolV1>(s)
    } else {
        run_script::<RandomOracle>(s)
    }
}

fn conform(v1: bool, s: &Script, toks: &[Tok], got: &[u8; 32]) -> CheckResult {
    let want = sha3(&model_bytes(toks));
    if *got != want {
        let name = if v1 { "v1" } else { "legacy" };
        return Err(Violation::new(
            "transcript-stream",
            format!("{name}: the challenge is not the SHA3-256 of the documented framing of this sequence of appends: {s:?}\nmodel bytes: {}", gen::hex(&model_bytes(toks))),
        )
        .with_signature(format!("transcript-stream:{name}")));
    }
    Ok(())
}

pub fn t_transcript(data: &[u8], ctx: &mut Ctx) -> CheckResult {
    let mut u = Unstructured::new(data);
    let base = script(&mut u);
    let mode = gen::byte(&mut u) % 6;
    let (kind, a, b) = match mode {
        4 | 5 => {
            let b = mutate_data(&mut u, &base);
            ("data-mutation".to_string(), base, b)
        }
        0 | 1 => {
            let (n, a, b) = attack(&mut u, &base);
            (format!("attack:{n}"), a, b)
        }
        2 => {
            let b = mutate(&mut u, &base);
            ("mutation".to_string(), base, b)
        }
        _ => {
            let b = script(&mut u);
            ("independent".to_string(), base, b)
        }
    };
    ctx.class(&format!("pair={kind}"));
    ctx.sample(|| format!("{kind}: A={a:?} B={b:?}"));
    ctx.describe(|| format!("{kind}\nA = {a:#?}\nB = {b:#?}"));

    for v1 in [true, false] {
        let name = if v1 { "v1" } else { "legacy" };
        let (ta, tb) = (flatten(v1, &a), flatten(v1, &b));
        let (ha, hb) = (actual(v1, &a), actual(v1, &b));
        let d = first_diff(&ta, &tb);
        let ma = model_bytes(&ta);
        let mb = model_bytes(&tb);
        match d {
            Diff::Equal => {
                ctx.class(&format!("{name}:same-tokens"));
                vensure!(ha == hb, "transcript-determinism", "{name}: identical token sequences give different challenges: {a:?} / {b:?}");
            }
            Diff::Framed | Diff::Prefix => {
                ctx.class(&format!("{name}:framed-difference"));
                ctx.nontrivial(&(&a, &b));
                if ma == mb {
                    return Err(Violation::new("harness-model", format!("{name}: framed difference but equal model bytes: {a:?} / {b:?}")).with_signature("harness-model"));
                }
                if ha == hb {
                    return Err(Violation::new(
                        "transcript-injectivity",
                        format!("{name}: two different sequences of labelled appends ({kind}) give the same challenge {}:\nA = {a:?}\nB = {b:?}", hex32(&ha)),
                    )
                    .with_signature(format!("transcript-injectivity:{name}:{kind}")));
                }
            }
            Diff::Unframed => {
                // outside the documented framing guarantee (legacy labels and collection counts, or
                // appends of different kinds at the same position): streams may or may not coincide
                if ma == mb {
                    ctx.class(&format!("{name}:unframed-or-mixed-kind-collision"));
                } else {
                    ctx.class(&format!("{name}:unframed-or-mixed-kind-difference"));
                }
            }
        }
        // the bytes fed to the hash are exactly the documented framing
        conform(v1, &a, &ta, &ha)?;
        conform(v1, &b, &tb, &hb)?;
    }
    golden()
}
