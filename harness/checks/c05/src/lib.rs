//! C05: on-chain binary encodings round-trip, are canonical, and decode totally.
//!
//! Targets (all driven by the same registry of chain types, see `registry()`):
//!   * `roundtrip`  value -> bytes -> value: decode succeeds, consumes exactly the encoding (a
//!                  trailing byte is left unread), re-encodes to the same bytes, equals the value.
//!   * `canon`      mutated valid encodings / random bytes: whenever decoding succeeds having
//!                  consumed n bytes, re-encoding the result reproduces exactly those n bytes.
//!   * `total`      same input families, biased to length-field inflation: no panic, terminates,
//!                  peak allocation during decode <= 64 * len(input) + 4 MiB.
//!   * `raw`        the case bytes are the decoder input (after a type selector): totality, allocation
//!                  bound and canonicity on random bytes; entry point for libFuzzer and for
//!                  hand-written reproducers.
//!   * `golden`     corpus only: fixed encodings taken from the repository's test data must decode
//!                  completely and re-encode to the identical bytes (format drift).
pub mod types;
pub mod wire;

use concordium_base::common::to_bytes;
use std::{hash::Hash, io::Cursor};
use types::*;
use vcore::{gen, vensure, CheckResult, Ctx, Property, Target, Unstructured as U, Violation};

// ---------------------------------------------------------------------------------------------
// Registry

pub enum Dec {
    Ok { consumed: usize, reenc: Vec<u8> },
    Err { consumed: usize, msg: String },
}

/// Families of inputs that trigger defects already reported for the unchanged tree (NOTES.md).
const FAM_U32_PREALLOC: u8 = 1; // F5a/F5b: u32-declared string / byte lengths are allocated up front
const FAM_PU_URL: u8 = 2; // F5c: ProtocolUpdate url length (u64) allocated up front
const FAM_F7: u8 = 4; // F7: BlockItem::AccountTransactionV1 has no decoder
const FAM_O5: u8 = 8; // O5 (outside the claim): the varint of common::Version accepts padded encodings

pub struct Entry {
    pub name:     &'static str,
    pub weight:   u32,
    /// The type has a variable-length or optional part.
    pub var:      bool,
    pub fam:      u8,
    pub encode:   fn(&mut U) -> Vec<u8>,
    pub describe: fn(&mut U) -> String,
    pub roundtrip: fn(&mut U, &'static str) -> (Vec<u8>, CheckResult),
    pub decode:   fn(&[u8]) -> Dec,
    pub measured: fn(&[u8]) -> (bool, usize, vcore::alloc::AllocReport),
}

fn enc<T: Chain>(u: &mut U) -> Vec<u8> { to_bytes(&T::gen(u)) }

fn describe<T: Chain + std::fmt::Debug>(u: &mut U) -> String { format!("{:?}", T::gen(u)) }

fn decode<T: Chain>(b: &[u8]) -> Dec {
    let mut c = Cursor::new(b);
    match T::deserial(&mut c) {
        Ok(v) => Dec::Ok { consumed: c.position() as usize, reenc: to_bytes(&v) },
        Err(e) => Dec::Err { consumed: c.position() as usize, msg: format!("{e:#}") },
    }
}

fn measured<T: Chain>(b: &[u8]) -> (bool, usize, vcore::alloc::AllocReport) {
    let mut c = Cursor::new(b);
    let (ok, rep) = vcore::alloc::measure(|| T::deserial(&mut c).is_ok());
    (ok, c.position() as usize, rep)
}

fn fail(oracle: &str, name: &str, detail: String) -> CheckResult {
    Err(Violation::new(oracle, format!("type {name}: {detail}")).with_signature(format!("{oracle}:{name}")))
}

fn short_hex(b: &[u8]) -> String {
    if b.len() <= 400 {
        gen::hex(b)
    } else {
        format!("{}... ({} bytes)", gen::hex(&b[..400]), b.len())
    }
}

/// The value round-trip oracle for one generated value.
fn check_value<T: Chain>(v: &T, name: &'static str, also_exact: bool) -> CheckResult {
    let bytes = to_bytes(v);
    // 1. with trailing bytes: the decoder must stop exactly at the end of the encoding
    let mut ext = bytes.clone();
    ext.extend_from_slice(&[0xa5, 0x5a, 0xff]);
    let mut c = Cursor::new(&ext[..]);
    let d = match T::deserial(&mut c) {
        Ok(d) => d,
        Err(e) => return fail("roundtrip-decode", name, format!("encoding of a generated value is rejected: {e:#}; encoding {}", short_hex(&bytes))),
    };
    if c.position() as usize != bytes.len() {
        return fail(
            "roundtrip-consumed",
            name,
            format!("decoder consumed {} bytes of a {} byte encoding (3 trailing bytes present); encoding {}", c.position(), bytes.len(), short_hex(&bytes)),
        );
    }
    let re = to_bytes(&d);
    if re != bytes {
        return fail("roundtrip-reencode", name, format!("decoded value re-encodes differently:\n  original  {}\n  re-encoded {}", short_hex(&bytes), short_hex(&re)));
    }
    if T::same(v, &d) == Some(false) {
        return fail("roundtrip-equal", name, format!("decoded value differs from the original (PartialEq); encoding {}", short_hex(&bytes)));
    }
    // 2. the exact slice (end of input right after the encoding)
    if also_exact {
        let mut c = Cursor::new(&bytes[..]);
        match T::deserial(&mut c) {
            Ok(d2) => {
                if c.position() as usize != bytes.len() || to_bytes(&d2) != bytes {
                    return fail("roundtrip-exact", name, format!("decoding the exact encoding consumed {} of {} bytes or re-encodes differently; encoding {}", c.position(), bytes.len(), short_hex(&bytes)));
                }
            }
            Err(e) => return fail("roundtrip-exact", name, format!("the exact encoding (no trailing bytes) is rejected: {e:#}; encoding {}", short_hex(&bytes))),
        }
    }
    Ok(())
}

fn roundtrip<T: Chain>(u: &mut U, name: &'static str) -> (Vec<u8>, CheckResult) {
    let v = T::gen(u);
    (to_bytes(&v), check_value(&v, name, true))
}

/// Findings whose fix has been committed to `/repo`: their exclusion is permanently off, so the check
/// reports them again if they return (the reproducers stay in the corpus). Add `"F5ab"`, `"F5c"`,
/// `"F7"` here when they are fixed.
const FIXED_IN_REPO: &[&str] = &["F6", "F5ab", "F5c", "F7"];

/// `C05_STRICT_FINDINGS=1` (all) or a comma separated subset of `F5ab,F5c,F6,F7,O5` switches the
/// corresponding exclusion off, so that the reported defects can be reproduced with the reproducers
/// kept in the corpus.
fn strict(which: &str) -> bool {
    if FIXED_IN_REPO.contains(&which) {
        return true;
    }
    static V: std::sync::OnceLock<String> = std::sync::OnceLock::new();
    let v = V.get_or_init(|| std::env::var("C05_STRICT_FINDINGS").unwrap_or_default());
    v == "1" || v.split(',').any(|x| x == which)
}

/// F7: `BlockItem::AccountTransactionV1` values. Excluded from the oracle (counted) unless
/// C05_STRICT_FINDINGS=1.
fn roundtrip_block_item_v1(u: &mut U, name: &'static str) -> (Vec<u8>, CheckResult) {
    let v = block_item_v1(u);
    let r = if strict("F7") { check_value(&v, name, true) } else { Ok(()) };
    (to_bytes(&v), r)
}

fn e<T: Chain + std::fmt::Debug>(name: &'static str, weight: u32, var: bool, fam: u8) -> Entry {
    Entry { name, weight, var, fam, encode: enc::<T>, describe: describe::<T>, roundtrip: roundtrip::<T>, decode: decode::<T>, measured: measured::<T> }
}

pub fn registry() -> &'static [Entry] {
    use concordium_base::{
        base::*,
        common::types::*,
        contracts_common::{self as cc, AccountAddress, Address, ContractAddress},
        encrypted_transfers::types::*,
        id::{constants::AttributeKind, secret_sharing::Threshold, types::*},
        protocol_level_tokens::{RawCbor, TokenId},
        smart_contracts::*,
        transactions::*,
        updates::*,
    };
    use std::collections::{BTreeMap, BTreeSet};
    use wire::G1;
    static R: std::sync::OnceLock<Vec<Entry>> = std::sync::OnceLock::new();
    R.get_or_init(|| {
        let f = false;
        let t = true;
        let p = FAM_U32_PREALLOC;
        vec![
            // transactions and block items (central)
            e::<Payload>("Payload", 60, t, p),
            e::<AccountTransaction<EncodedPayload>>("AccountTransaction<EncodedPayload>", 20, t, 0),
            e::<AccountTransaction<Payload>>("AccountTransaction<Payload>", 25, t, p),
            e::<AccountTransactionV1<EncodedPayload>>("AccountTransactionV1<EncodedPayload>", 15, t, 0),
            e::<AccountTransactionV1<Payload>>("AccountTransactionV1<Payload>", 15, t, p),
            e::<BlockItem<EncodedPayload>>("BlockItem<EncodedPayload>", 30, t, 0),
            Entry {
                name:      "BlockItem::AccountTransactionV1",
                weight:    3,
                var:       t,
                fam:       FAM_F7,
                encode:    |u| to_bytes(&block_item_v1(u)),
                describe:  |u| format!("{:?}", block_item_v1(u)),
                roundtrip: roundtrip_block_item_v1,
                decode:    decode::<BlockItem<EncodedPayload>>,
                measured:  measured::<BlockItem<EncodedPayload>>,
            },
            e::<TransactionHeader>("TransactionHeader", 4, f, 0),
            e::<TransactionHeaderV1>("TransactionHeaderV1", 8, t, 0),
            e::<PayloadSize>("PayloadSize", 2, f, 0),
            e::<TransactionSignature>("TransactionSignature", 15, t, 0),
            e::<TransactionSignaturesV1>("TransactionSignaturesV1", 12, t, 0),
            e::<Signature>("Signature", 4, t, 0),
            e::<Memo>("Memo", 4, t, 0),
            e::<RegisteredData>("RegisteredData", 4, t, 0),
            e::<InitContractPayload>("InitContractPayload", 5, t, 0),
            e::<UpdateContractPayload>("UpdateContractPayload", 5, t, 0),
            e::<AddBakerPayload>("AddBakerPayload", 3, f, 0),
            e::<BakerKeysPayload<AddBakerKeysMarker>>("BakerKeysPayload", 3, f, 0),
            e::<WasmModule>("WasmModule", 5, t, 0),
            e::<ModuleSource>("ModuleSource", 3, t, 0),
            e::<WasmVersion>("WasmVersion", 2, f, 0),
            // keys and access structures
            e::<AccountAccessStructure>("AccountAccessStructure", 15, t, 0),
            e::<CredentialPublicKeys>("CredentialPublicKeys", 12, t, 0),
            e::<VerifyKey>("VerifyKey", 3, f, 0),
            e::<SchemeId>("SchemeId", 1, f, 0),
            e::<UpdatePublicKey>("UpdatePublicKey", 2, f, 0),
            e::<BakerElectionVerifyKey>("BakerElectionVerifyKey", 2, f, 0),
            e::<BakerSignatureVerifyKey>("BakerSignatureVerifyKey", 2, f, 0),
            e::<BakerAggregationVerifyKey>("BakerAggregationVerifyKey", 2, f, 0),
            e::<concordium_base::eddsa_ed25519::Ed25519DlogProof>("Ed25519DlogProof", 2, f, 0),
            e::<CredentialRegistrationID>("CredentialRegistrationID", 3, f, 0),
            // updates
            e::<UpdatePayload>("UpdatePayload", 40, t, p | FAM_PU_URL),
            e::<UpdateInstruction>("UpdateInstruction", 20, t, 0),
            e::<UpdateHeader>("UpdateHeader", 2, f, 0),
            e::<UpdateInstructionSignature>("UpdateInstructionSignature", 6, t, 0),
            e::<ProtocolUpdate>("ProtocolUpdate", 10, t, FAM_PU_URL),
            e::<RootUpdate>("RootUpdate", 8, t, 0),
            e::<Level1Update>("Level1Update", 8, t, 0),
            e::<HigherLevelAccessStructure<RootKeysKind>>("HigherLevelAccessStructure", 8, t, 0),
            e::<AccessStructure>("AccessStructure", 8, t, 0),
            e::<AuthorizationsV0>("AuthorizationsV0", 8, t, 0),
            e::<TransactionFeeDistribution>("TransactionFeeDistribution", 3, f, 0),
            e::<GASRewards>("GASRewards", 2, f, 0),
            e::<GASRewardsV1>("GASRewardsV1", 2, f, 0),
            e::<BakerParameters>("BakerParameters", 1, f, 0),
            e::<CooldownParameters>("CooldownParameters", 1, f, 0),
            e::<TimeoutParameters>("TimeoutParameters", 4, f, 0),
            e::<RewardPeriodLength>("RewardPeriodLength", 1, f, 0),
            e::<TimeParameters>("TimeParameters", 2, f, 0),
            e::<PoolParameters>("PoolParameters", 4, f, 0),
            e::<FinalizationCommitteeParameters>("FinalizationCommitteeParameters", 2, f, 0),
            e::<ValidatorScoreParameters>("ValidatorScoreParameters", 1, f, 0),
            e::<CreatePlt>("CreatePlt", 5, t, p),
            e::<MintDistributionV0>("MintDistributionV0", 3, f, 0),
            e::<MintDistributionV1>("MintDistributionV1", 2, f, 0),
            e::<UpdateKeysThreshold>("UpdateKeysThreshold", 1, f, 0),
            e::<UpdateKeysIndex>("UpdateKeysIndex", 1, f, 0),
            // base.rs parameters
            e::<UrlText>("UrlText", 4, t, 0),
            e::<OpenStatus>("OpenStatus", 1, f, 0),
            e::<DelegationTarget>("DelegationTarget", 3, t, 0),
            e::<ProtocolVersion>("ProtocolVersion", 2, f, 0),
            e::<PartsPerHundredThousands>("PartsPerHundredThousands", 2, f, 0),
            e::<AmountFraction>("AmountFraction", 2, f, 0),
            e::<ElectionDifficulty>("ElectionDifficulty", 1, f, 0),
            e::<CapitalBound>("CapitalBound", 1, f, 0),
            e::<MintRate>("MintRate", 1, f, 0),
            e::<CommissionRates>("CommissionRates", 1, f, 0),
            e::<CommissionRanges>("CommissionRanges", 2, f, 0),
            e::<InclusiveRange<AmountFraction>>("InclusiveRange<AmountFraction>", 3, f, 0),
            e::<LeverageFactor>("LeverageFactor", 3, f, 0),
            e::<SlotDuration>("SlotDuration", 1, f, 0),
            e::<DurationSeconds>("DurationSeconds", 1, f, 0),
            e::<Slot>("Slot", 1, f, 0),
            e::<Epoch>("Epoch", 1, f, 0),
            e::<Round>("Round", 1, f, 0),
            e::<Nonce>("Nonce", 1, f, 0),
            e::<UpdateSequenceNumber>("UpdateSequenceNumber", 1, f, 0),
            e::<BlockHeight>("BlockHeight", 1, f, 0),
            e::<AbsoluteBlockHeight>("AbsoluteBlockHeight", 1, f, 0),
            e::<AccountIndex>("AccountIndex", 1, f, 0),
            e::<Energy>("Energy", 1, f, 0),
            e::<FinalizationIndex>("FinalizationIndex", 1, f, 0),
            e::<BakerId>("BakerId", 1, f, 0),
            e::<GenesisIndex>("GenesisIndex", 1, f, 0),
            e::<CredentialsPerBlockLimit>("CredentialsPerBlockLimit", 1, f, 0),
            // common::types
            e::<Amount>("Amount", 2, f, 0),
            e::<cc::Timestamp>("Timestamp", 1, f, 0),
            e::<cc::Duration>("Duration", 1, f, 0),
            e::<TransactionTime>("TransactionTime", 1, f, 0),
            e::<AccountAddress>("AccountAddress", 1, f, 0),
            e::<ContractAddress>("ContractAddress", 1, f, 0),
            e::<Address>("Address", 3, t, 0),
            e::<KeyIndex>("KeyIndex", 1, f, 0),
            e::<CredentialIndex>("CredentialIndex", 1, f, 0),
            e::<cc::OwnedContractName>("OwnedContractName", 4, t, 0),
            e::<cc::OwnedReceiveName>("OwnedReceiveName", 4, t, 0),
            e::<cc::OwnedParameter>("OwnedParameter", 3, t, 0),
            e::<cc::ModuleReference>("ModuleReference", 1, f, 0),
            e::<concordium_base::hashes::BlockHash>("HashBytes", 1, f, 0),
            e::<Ratio>("Ratio", 4, f, 0),
            e::<cc::ExchangeRate>("ExchangeRate", 4, f, 0),
            // identity layer
            e::<Cdi>("CredentialDeploymentInfo", 25, t, 0),
            e::<ICdi>("InitialCredentialDeploymentInfo", 10, t, 0),
            e::<Acm>("AccountCredentialMessage", 15, t, 0),
            e::<Ac>("AccountCredential", 8, t, 0),
            e::<Acwp>("AccountCredentialWithoutProofs", 8, t, 0),
            e::<CredentialDeploymentValues<G1, AttributeKind>>("CredentialDeploymentValues", 6, t, 0),
            e::<InitialCredentialDeploymentValues<G1, AttributeKind>>("InitialCredentialDeploymentValues", 4, t, 0),
            e::<CredentialDeploymentCommitments<G1>>("CredentialDeploymentCommitments", 5, t, 0),
            e::<CredDeploymentProofs<concordium_base::id::constants::IpPairing, G1>>("CredDeploymentProofs", 10, t, 0),
            e::<Pol>("Policy", 8, t, 0),
            e::<IpInfo<concordium_base::id::constants::IpPairing>>("IpInfo", 10, t, p),
            e::<ArInfo<G1>>("ArInfo", 10, t, p),
            e::<GlobalContext<G1>>("GlobalContext", 8, t, p),
            e::<Description>("Description", 5, t, p),
            e::<concordium_base::ps_sig::PublicKey<concordium_base::id::constants::IpPairing>>("ps_sig::PublicKey", 4, t, 0),
            e::<ChainArData<G1>>("ChainArData", 2, f, 0),
            e::<AccountOwnershipProof>("AccountOwnershipProof", 4, t, 0),
            e::<AccountOwnershipSignature>("AccountOwnershipSignature", 1, f, 0),
            e::<IpCdiSignature>("IpCdiSignature", 1, f, 0),
            e::<IpIdentity>("IpIdentity", 1, f, 0),
            e::<ArIdentity>("ArIdentity", 2, f, 0),
            e::<AttributeTag>("AttributeTag", 1, f, 0),
            e::<AttributeKind>("AttributeKind", 4, t, 0),
            e::<Threshold>("Threshold", 1, f, 0),
            e::<YearMonth>("YearMonth", 3, f, 0),
            // encrypted amounts
            e::<EncryptedAmount<G1>>("EncryptedAmount", 6, f, 0),
            e::<EncryptedAmountTransferData<G1>>("EncryptedAmountTransferData", 12, t, 0),
            e::<SecToPubAmountTransferData<G1>>("SecToPubAmountTransferData", 10, t, 0),
            e::<concordium_base::bulletproofs::range_proof::RangeProof<G1>>("RangeProof", 5, t, 0),
            e::<concordium_base::elgamal::Cipher<G1>>("elgamal::Cipher", 3, f, 0),
            e::<concordium_base::elgamal::PublicKey<G1>>("elgamal::PublicKey", 2, f, 0),
            e::<concordium_base::pedersen_commitment::Commitment<G1>>("pedersen::Commitment", 2, f, 0),
            e::<concordium_base::pedersen_commitment::CommitmentKey<G1>>("pedersen::CommitmentKey", 2, f, 0),
            // protocol level tokens
            e::<TokenId>("TokenId", 4, t, 0),
            e::<RawCbor>("RawCbor", 4, t, p),
            // generic instances of serialize.rs
            e::<u8>("u8", 1, f, 0),
            e::<u16>("u16", 1, f, 0),
            e::<u32>("u32", 1, f, 0),
            e::<u64>("u64", 1, f, 0),
            e::<i64>("i64", 1, f, 0),
            e::<bool>("bool", 2, f, 0),
            e::<String>("String", 4, t, 0),
            e::<Vec<u8>>("Vec<u8>", 3, t, 0),
            e::<Vec<u16>>("Vec<u16>", 3, t, 0),
            e::<Option<u64>>("Option<u64>", 3, t, 0),
            e::<BTreeSet<u16>>("BTreeSet<u16>", 5, t, 0),
            e::<BTreeMap<u8, u16>>("BTreeMap<u8,u16>", 5, t, 0),
            e::<(u8, u64)>("(u8,u64)", 1, f, 0),
            e::<[u8; 5]>("[u8;5]", 1, f, 0),
            e::<either::Either<u8, u32>>("Either<u8,u32>", 2, t, 0),
            e::<num::rational::Ratio<u64>>("num::Ratio<u64>", 2, f, 0),
            e::<chrono::DateTime<chrono::Utc>>("DateTime<Utc>", 2, f, 0),
            e::<std::num::NonZeroU16>("NonZeroU16", 1, f, 0),
            // not a chain type (file / JSON versioning); registered to document observation O5
            e::<concordium_base::common::Version>("Version", 1, t, FAM_O5),
        ]
    })
}

fn total_weight() -> u32 {
    static W: std::sync::OnceLock<u32> = std::sync::OnceLock::new();
    *W.get_or_init(|| registry().iter().map(|e| e.weight).sum())
}

/// Weighted choice of a type from two bytes of the choice sequence (monotone in the bytes; an
/// exhausted sequence selects the first = most central entry).
fn pick(u: &mut U) -> &'static Entry {
    let x = gen::range_u64(u, 0, total_weight() as u64 - 1) as u32;
    let mut acc = 0;
    for e in registry() {
        acc += e.weight;
        if x < acc {
            return e;
        }
    }
    &registry()[0]
}

fn key_of(name: &str, bytes: &[u8]) -> u64 {
    let mut h = std::collections::hash_map::DefaultHasher::new();
    name.hash(&mut h);
    bytes.hash(&mut h);
    std::hash::Hasher::finish(&h)
}

// ---------------------------------------------------------------------------------------------
// roundtrip

fn t_roundtrip(data: &[u8], ctx: &mut Ctx) -> CheckResult {
    wire::warm();
    let mut u = U::new(data);
    let e = pick(&mut u);
    ctx.class(e.name);
    if e.fam & FAM_F7 != 0 && !strict("F7") {
        ctx.class("excluded-known:F7-blockitem-v1-has-no-decoder");
    }
    // the generator is a pure function of the remaining choice sequence: evaluate it a second time
    // only when a description / sample is wanted
    let rest: Vec<u8> = u.take_rest().to_vec();
    ctx.describe(|| format!("{} = {}", e.name, (e.describe)(&mut U::new(&rest))));
    let (bytes, r) = (e.roundtrip)(&mut U::new(&rest), e.name);
    if e.var {
        ctx.class("variable-or-optional-part");
        ctx.nontrivial(&key_of(e.name, &bytes));
    }
    ctx.sample(|| {
        let hex = if bytes.len() <= 96 { gen::hex(&bytes) } else { format!("{}...", gen::hex(&bytes[..96])) };
        format!("{}: encoding({} bytes) = {}; value = {}", e.name, bytes.len(), hex, (e.describe)(&mut U::new(&rest)))
    });
    r
}

// ---------------------------------------------------------------------------------------------
// byte-level inputs

/// A position in `0..len`, biased towards the first and the last bytes (tags, bitmaps, length
/// prefixes, trailing thresholds).
fn pos(u: &mut U, len: usize) -> usize {
    if len == 0 {
        return 0;
    }
    match gen::byte(u) % 8 {
        0..=2 => gen::idx(u, len.min(8)),
        3 => len - 1 - gen::idx(u, len.min(8)),
        4 => gen::idx(u, len.min(64)),
        _ => gen::idx(u, len),
    }
}

const MUT_KINDS: usize = 10;
const MUT_NAMES: [&str; MUT_KINDS] =
    ["truncate", "bitflip", "set-byte", "inc-dec", "inflate-length", "tag-substitution", "append", "copy-chunk", "delete-chunk", "insert"];

/// One mutation of an encoding. `bias_inflate` makes length-field inflation and truncation the
/// most frequent kinds (totality target).
fn mutate(u: &mut U, b: &mut Vec<u8>, bias_inflate: bool) -> &'static str {
    let mut k = gen::idx(u, if bias_inflate { MUT_KINDS + 6 } else { MUT_KINDS });
    if k >= MUT_KINDS {
        k = if k % 3 == 0 { 0 } else { 4 };
    }
    let len = b.len();
    match k {
        0 => {
            // truncation: anywhere, or just before the end
            let n = if gen::boolean(u) { gen::idx(u, len + 1) } else { len.saturating_sub(1 + gen::idx(u, 8)) };
            b.truncate(n);
        }
        1 => {
            if len > 0 {
                let p = pos(u, len);
                b[p] ^= 1 << (gen::byte(u) % 8);
            }
        }
        2 => {
            if len > 0 {
                let p = pos(u, len);
                b[p] = match gen::byte(u) % 8 {
                    0 => 0,
                    1 => 1,
                    2 => 0xff,
                    3 => 0x80,
                    4 => 0x7f,
                    5 => 0xc0,
                    _ => gen::byte(u),
                };
            }
        }
        3 => {
            if len > 0 {
                let p = pos(u, len);
                b[p] = if gen::boolean(u) { b[p].wrapping_add(1) } else { b[p].wrapping_sub(1) };
            }
        }
        4 => {
            // overwrite a would-be length prefix of width 1/2/4/8 with MAX, remaining+1, high bit, 0
            if len > 0 {
                let w = [1usize, 2, 4, 8][gen::idx(u, 4)];
                let p = pos(u, len).min(len.saturating_sub(w));
                let w = w.min(len - p);
                let remaining = (len - p - w) as u64;
                let full = if w == 8 { u64::MAX } else { (1u64 << (8 * w)) - 1 };
                let v: u64 = match gen::byte(u) % 6 {
                    0 => full,
                    1 => remaining + 1,
                    2 => (full >> 1) + 1,
                    3 => 0,
                    4 => (1u64 << 20).min(full),
                    _ => remaining.wrapping_mul(gen::range_u64(u, 2, 5000)) & full,
                };
                let be = v.to_be_bytes();
                b[p..p + w].copy_from_slice(&be[8 - w..]);
            }
        }
        5 => {
            if len > 0 {
                let p = if gen::ratio(u, 3, 4) { 0 } else { pos(u, len) };
                b[p] = gen::idx(u, 40) as u8;
            }
        }
        6 => {
            let n = 1 + gen::idx(u, 16);
            let extra = gen::bytes(u, n);
            b.extend_from_slice(&extra);
        }
        7 => {
            // copy a chunk over another place: duplicate or reordered map keys, repeated fields
            if len >= 2 {
                let w = [1usize, 2, 4, 32, 48][gen::idx(u, 5)].min(len / 2);
                let from = gen::idx(u, len - w + 1);
                let to = gen::idx(u, len - w + 1);
                let chunk = b[from..from + w].to_vec();
                b[to..to + w].copy_from_slice(&chunk);
            }
        }
        8 => {
            if len > 0 {
                let p = pos(u, len);
                let w = (1 + gen::idx(u, 8)).min(len - p);
                b.drain(p..p + w);
            }
        }
        _ => {
            let p = if len == 0 { 0 } else { pos(u, len + 1).min(len) };
            let n = 1 + gen::idx(u, 4);
            let fill = if gen::boolean(u) { 0 } else { gen::byte(u) };
            for _ in 0..n {
                b.insert(p, fill);
            }
        }
    }
    MUT_NAMES[k]
}

struct ByteCase {
    entry:   &'static Entry,
    input:   Vec<u8>,
    /// "random" or the list of applied mutations
    how:     String,
    mutated: bool,
}

fn byte_case(u: &mut U, bias_inflate: bool) -> ByteCase {
    let e = pick(u);
    let mode = gen::byte(u) % 10;
    if mode == 9 {
        // random bytes; sometimes with a plausible first byte
        let mut input = gen::short_bytes(u, 200);
        if !input.is_empty() && gen::boolean(u) {
            input[0] = gen::idx(u, 32) as u8;
        }
        return ByteCase { entry: e, input, how: "random".into(), mutated: false };
    }
    let mut input = (e.encode)(u);
    let n = match mode {
        0 => 0, // unmodified valid encoding (sanity: must be accepted and canonical)
        1..=5 => 1,
        6 | 7 => 2,
        _ => 3,
    };
    let mut how = String::new();
    for i in 0..n {
        if i > 0 {
            how.push('+');
        }
        how.push_str(mutate(u, &mut input, bias_inflate));
    }
    if n == 0 {
        how.push_str("valid");
    }
    ByteCase { entry: e, input, how, mutated: n > 0 }
}

fn be64(b: &[u8], at: usize) -> Option<u64> { b.get(at..at + 8).map(|x| u64::from_be_bytes(x.try_into().unwrap())) }

/// F5c: does decoding `b` as a `ProtocolUpdate` reach the allocation of the url buffer with a
/// declared length above 1 MiB? (`b` starts at the u64 total length.)
fn protocol_update_url_trigger(b: &[u8]) -> bool {
    let Some(data_len) = be64(b, 0) else { return false };
    let Some(msg_len) = be64(b, 8) else { return false };
    if data_len < 8 || msg_len > 4096 || msg_len > data_len - 8 {
        return false;
    }
    let m = msg_len as usize;
    let Some(msg) = b.get(16..16 + m) else { return false };
    if std::str::from_utf8(msg).is_err() || data_len - 8 - msg_len < 8 {
        return false;
    }
    matches!(be64(b, 16 + m), Some(url_len) if url_len > (1 << 20))
}

fn excluded_pu_url(e: &Entry, input: &[u8]) -> bool {
    if e.fam & FAM_PU_URL == 0 || strict("F5c") {
        return false;
    }
    if e.name == "ProtocolUpdate" {
        protocol_update_url_trigger(input)
    } else {
        // UpdatePayload: tag 1 = protocol update
        input.first() == Some(&1) && protocol_update_url_trigger(&input[1..])
    }
}

const INF_G1: [u8; 48] = {
    let mut a = [0u8; 48];
    a[0] = 0xc0;
    a
};
const INF_G2: [u8; 96] = {
    let mut a = [0u8; 96];
    a[0] = 0xc0;
    a
};

/// F6: is every difference between the accepted input and its re-encoding explained by a BLS12-381
/// group element whose infinity flag is set while other bits of its encoding are not zero (the
/// decoder ignores them; the canonical encoding of the identity is c0 00 .. 00)?
fn explained_by_infinity_flag(input: &[u8], reenc: &[u8]) -> bool {
    if input.len() != reenc.len() {
        return false;
    }
    let n = input.len();
    let mut i = 0;
    'outer: while i < n {
        if input[i] == reenc[i] {
            i += 1;
            continue;
        }
        for (w, inf) in [(48usize, &INF_G1[..]), (96usize, &INF_G2[..])] {
            let lo = (i + 1).saturating_sub(w);
            for s in lo..=i {
                if s + w <= n && &reenc[s..s + w] == inf && input[s] & 0xc0 == 0xc0 {
                    i = s + w;
                    continue 'outer;
                }
            }
        }
        return false;
    }
    true
}

fn describe_case(c: &ByteCase) -> String { format!("type {} [{}] input({} bytes) = {}", c.entry.name, c.how, c.input.len(), short_hex(&c.input)) }

fn t_canon(data: &[u8], ctx: &mut Ctx) -> CheckResult {
    wire::warm();
    let mut u = U::new(data);
    let c = byte_case(&mut u, false);
    ctx.class(c.entry.name);
    ctx.describe(|| describe_case(&c));
    canon_oracle(&c, ctx)
}

fn canon_oracle(c: &ByteCase, ctx: &mut Ctx) -> CheckResult {
    let name = c.entry.name;
    if excluded_pu_url(c.entry, &c.input) {
        ctx.class("excluded-known:F5c-protocol-update-url-prealloc");
        return Ok(());
    }
    let out = match vcore::catch(|| (c.entry.decode)(&c.input)) {
        Ok(o) => o,
        Err(msg) => {
            return Err(Violation::new("canon-panic", format!("decoder panicked: {msg}\n{}", describe_case(c)))
                .with_signature(format!("canon-panic:{name}")))
        }
    };
    match out {
        Dec::Ok { consumed, reenc } => {
            ctx.class(if c.mutated { "accepted-mutated" } else { "accepted-other" });
            vensure!(consumed <= c.input.len(), "canon-position", "cursor beyond input");
            if c.mutated || c.how == "random" {
                ctx.nontrivial(&key_of(name, &c.input));
            }
            if reenc[..] != c.input[..consumed] {
                if c.entry.fam & FAM_O5 != 0 && !strict("O5") {
                    ctx.class("excluded-observation:O5-version-varint-accepts-padding");
                    return Ok(());
                }
                let f6 = explained_by_infinity_flag(&c.input[..consumed], &reenc);
                if f6 && !strict("F6") {
                    ctx.class("excluded-known:F6-bls-infinity-flag-ignores-other-bits");
                    return Ok(());
                }
                let sig = if f6 { "canon:bls-infinity-flag-ignores-other-bits".to_string() } else { format!("canon:{name}") };
                return Err(Violation::new(
                    "canon",
                    format!(
                        "type {name} [{}]: decoding succeeded consuming {consumed} bytes but the result re-encodes differently\n  accepted   {}\n  re-encoded {}",
                        c.how,
                        short_hex(&c.input[..consumed]),
                        short_hex(&reenc)
                    ),
                )
                .with_signature(sig));
            }
            if !c.mutated && c.how == "valid" {
                vensure!(consumed == c.input.len(), "canon-valid-consumed", "type {name}: valid encoding not fully consumed");
            }
            ctx.sample(|| format!("accepted: {}", describe_case(c)));
        }
        Dec::Err { consumed, msg } => {
            if !c.mutated && c.how == "valid" {
                if c.entry.fam & FAM_F7 != 0 && !strict("F7") {
                    ctx.class("excluded-known:F7-blockitem-v1-has-no-decoder");
                    return Ok(());
                }
                return fail("canon-valid-rejected", name, format!("unmodified valid encoding rejected: {msg}; {}", describe_case(c)));
            }
            ctx.class("rejected");
            if c.mutated && consumed >= 2 {
                ctx.class("rejected-after-first-field");
                ctx.nontrivial(&key_of(name, &c.input));
            }
        }
    }
    Ok(())
}

const ALLOC_SLACK: usize = 4 << 20;

fn t_total(data: &[u8], ctx: &mut Ctx) -> CheckResult {
    wire::warm();
    let mut u = U::new(data);
    let c = byte_case(&mut u, true);
    ctx.class(c.entry.name);
    ctx.describe(|| describe_case(&c));
    total_oracle(&c, ctx)
}

fn total_oracle(c: &ByteCase, ctx: &mut Ctx) -> CheckResult {
    let name = c.entry.name;
    if excluded_pu_url(c.entry, &c.input) {
        ctx.class("excluded-known:F5c-protocol-update-url-prealloc");
        return Ok(());
    }
    let (ok, consumed, rep) = match vcore::catch(|| (c.entry.measured)(&c.input)) {
        Ok(o) => o,
        Err(msg) => {
            return Err(Violation::new("total-panic", format!("decoder panicked: {msg}\n{}", describe_case(c)))
                .with_signature(format!("total-panic:{name}")))
        }
    };
    ctx.class(if ok { "accepted" } else { "rejected" });
    if c.how.contains("inflate") {
        ctx.class("length-inflated");
    }
    if c.mutated && (ok || consumed >= 2) {
        ctx.nontrivial(&key_of(name, &c.input));
    }
    let bound = 64 * c.input.len() + ALLOC_SLACK;
    if rep.peak > bound {
        // F5a/F5b: the single largest request equals an over-declared u32 length in the input
        if !strict("F5ab") && c.entry.fam & FAM_U32_PREALLOC != 0 && rep.max_single <= u32::MAX as usize && rep.peak - rep.max_single <= bound {
            let l = (rep.max_single as u32).to_be_bytes();
            let hit = (0..c.input.len().saturating_sub(3)).any(|o| c.input[o..o + 4] == l && rep.max_single > c.input.len() - o - 4);
            if hit {
                ctx.class("excluded-known:F5ab-u32-length-allocated-up-front");
                return Ok(());
            }
        }
        return Err(Violation::new(
            "alloc-bound",
            format!(
                "decoding allocated a peak of {} bytes (largest single request {}) for an input of {} bytes; bound 64*len + 4 MiB = {}\n{}",
                rep.peak,
                rep.max_single,
                c.input.len(),
                bound,
                describe_case(c)
            ),
        )
        .with_signature(format!("alloc-bound:{name}")));
    }
    ctx.sample(|| format!("{} -> {} after {consumed} bytes, peak alloc {} B", describe_case(c), if ok { "accepted" } else { "rejected" }, rep.peak));
    Ok(())
}

// ---------------------------------------------------------------------------------------------
// raw bytes: the input of the decoder is the case itself (random-bytes driver, libFuzzer entry,
// hand-written reproducers). Formats: [0xff][name length u8][type name][bytes] or
// [two bytes: weighted type choice][bytes].

fn t_raw(data: &[u8], ctx: &mut Ctx) -> CheckResult {
    wire::warm();
    let (entry, input): (&'static Entry, Vec<u8>) = if data.first() == Some(&0xff) {
        let n = *data.get(1).unwrap_or(&0) as usize;
        let Some(name) = data.get(2..2 + n).and_then(|b| std::str::from_utf8(b).ok()) else { return Ok(()) };
        let Some(e) = registry().iter().find(|e| e.name == name) else { return Ok(()) };
        (e, data[2 + n..].to_vec())
    } else {
        let mut u = U::new(data);
        let e = pick(&mut u);
        (e, u.take_rest().to_vec())
    };
    let c = ByteCase { entry, input, how: "random".into(), mutated: false };
    ctx.class(entry.name);
    ctx.describe(|| describe_case(&c));
    total_oracle(&c, ctx)?;
    canon_oracle(&c, ctx)
}

// ---------------------------------------------------------------------------------------------
// golden vectors (corpus only): [name length u8][type name][encoding]

fn t_golden(data: &[u8], ctx: &mut Ctx) -> CheckResult {
    wire::warm();
    if data.is_empty() {
        return Ok(());
    }
    let n = data[0] as usize;
    let Some(name) = data.get(1..1 + n).and_then(|b| std::str::from_utf8(b).ok()) else { return Ok(()) };
    let Some(e) = registry().iter().find(|e| e.name == name) else { return Ok(()) };
    let bytes = &data[1 + n..];
    ctx.class(e.name);
    ctx.nontrivial(&key_of(e.name, bytes));
    ctx.describe(|| format!("golden {} = {}", e.name, short_hex(bytes)));
    match (e.decode)(bytes) {
        Dec::Ok { consumed, reenc } => {
            if consumed != bytes.len() {
                return fail("golden-consumed", e.name, format!("golden encoding: consumed {consumed} of {} bytes", bytes.len()));
            }
            if reenc != bytes {
                return fail("golden-reencode", e.name, format!("golden encoding re-encodes differently:\n  golden     {}\n  re-encoded {}", short_hex(bytes), short_hex(&reenc)));
            }
            Ok(())
        }
        Dec::Err { msg, .. } => fail("golden-decode", e.name, format!("golden encoding rejected: {msg}")),
    }
}

/// The byte-level target for coverage-guided fuzzing (`vcore::fuzz_one("C05", &c05::raw_target(), data)`).
pub fn raw_target() -> Target { Target::new("raw", t_raw).len(2, 4096) }

pub fn property() -> Property {
    Property {
        id: "C05",
        rule: "A case selects one of ~150 registered Serial/Deserial chain types (weighted; classes = type names) and (roundtrip) builds a value of it from the choice sequence inside the documented domain of the type (group elements are k*G / sums of such, scalars canonical, maps and optional fields of varying size), or (canon, total) builds such a value, encodes it and applies 0-3 byte mutations (truncate, bit flip, byte set, +-1, length-prefix inflation, tag substitution, append, chunk copy/delete/insert; positions biased to the first/last bytes) or uses random bytes. Non-trivial: value cases whose type has a variable-length or optional part; byte cases that are mutated/random and either decode successfully or are rejected after >= 2 bytes were consumed. Distinct = distinct (type, encoding / input bytes).",
        assumptions: &[
            "values stay inside the documented domain of each type (non-empty signature maps, reduced ratios, thresholds <= number of keys, valid names, <= 255 schedule entries, Level2KeysUpdateV1 without / V2 with create_plt)",
            "types without public constructors (range proofs, sigma-protocol responses, baker key proofs) are produced by decoding an encoding assembled field by field from valid scalars and points; for them the round-trip starts from the decoder's image",
            "equality of decoded and original value is PartialEq where the type offers it, otherwise equality of re-encodings (all fields are serialised)",
            "allocation is measured on the decoding thread with a counting global allocator; bound 64*len(input) + 4 MiB",
            "inputs matching the reported defects F5a-c (unbounded up-front allocation for u32/u64-declared lengths: Description, genesis_string, RawCbor, ProtocolUpdate url), and F7 (BlockItem::AccountTransactionV1 has no decoder) are excluded by exact signature and counted (classes excluded-known:*); C05_STRICT_FINDINGS=1 disables the exclusions; F6 (BLS12-381 infinity flag ignored the remaining bits) is fixed in /repo (512f728a1) and no longer excluded",
        ],
        targets: vec![
            Target::new("roundtrip", t_roundtrip).len(8, 1400).cases(200_000, 6_000_000).floors(&[
                ("variable-or-optional-part", 0.25),
                ("Payload", 0.03),
                ("UpdatePayload", 0.016),
                ("BlockItem<EncodedPayload>", 0.013),
                ("CredentialDeploymentInfo", 0.01),
            ]),
            Target::new("canon", t_canon).len(8, 1400).cases(600_000, 20_000_000).floors(&[
                ("accepted-mutated", 0.03),
                ("rejected-after-first-field", 0.15),
                ("Payload", 0.03),
                ("UpdatePayload", 0.016),
            ]),
            Target::new("total", t_total).len(8, 1400).cases(500_000, 20_000_000).floors(&[("length-inflated", 0.08), ("rejected", 0.2), ("Payload", 0.03)]),
            Target::new("raw", t_raw).len(2, 160).cases(300_000, 20_000_000).floors(&[("rejected", 0.5)]),
            Target::new("golden", t_golden).len(0, 8).cases(0, 0),
        ],
    }
}
