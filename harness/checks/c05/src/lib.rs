pub fn x(){ let _ = concordium_base::sigma_protocols::verif::dlog_equal::<concordium_base::curve_arithmetic::arkworks_instances::ArkGroup<ark_bls12_381::G1Projective>>; }
