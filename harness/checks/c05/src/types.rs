//! Value generators ("decoders from the choice sequence") for the on-chain types.
//!
//! Every generator constructs a value inside the documented domain of its type (constraints that
//! the decoders enforce, e.g. non-empty signature maps, coprime ratios, thresholds not exceeding
//! the number of keys). An exhausted choice sequence (all zeros) yields the simplest value.
#![allow(deprecated)]
use crate::wire::{self, ascii, dec, long_utf8, small_len, utf8, G1, W};
use concordium_base::{
    base::*,
    common::{
        types::{
            Amount, CredentialIndex, KeyIndex, Ratio, Signature, Timestamp, TransactionSignature, TransactionSignaturesV1,
            TransactionTime,
        },
        Deserial, Serial,
    },
    contracts_common::{
        AccountAddress, AccountThreshold, Address, ContractAddress, Duration, ExchangeRate, ModuleReference, OwnedContractName,
        OwnedParameter, OwnedReceiveName, SignatureThreshold,
    },
    encrypted_transfers::types::{
        EncryptedAmount, EncryptedAmountAggIndex, EncryptedAmountTransferData, SecToPubAmountTransferData,
    },
    hashes,
    id::{
        constants::{ArCurve, AttributeKind, IpPairing},
        secret_sharing::Threshold,
        types::*,
    },
    protocol_level_tokens::{RawCbor, TokenId, TokenOperationsPayload},
    smart_contracts::{ModuleSource, WasmModule, WasmVersion},
    transactions::*,
    updates::*,
};
use std::collections::{BTreeMap, BTreeSet};
use vcore::{gen, Unstructured as U};

pub type Cdi = CredentialDeploymentInfo<IpPairing, ArCurve, AttributeKind>;
pub type ICdi = InitialCredentialDeploymentInfo<ArCurve, AttributeKind>;
pub type Acm = AccountCredentialMessage<IpPairing, ArCurve, AttributeKind>;
pub type Ac = AccountCredential<IpPairing, ArCurve, AttributeKind>;
pub type Acwp = AccountCredentialWithoutProofs<ArCurve, AttributeKind>;
pub type Pol = Policy<ArCurve, AttributeKind>;

/// A chain type with a value generator.
pub trait Chain: Serial + Deserial + Sized + 'static {
    /// Generate a value from the choice sequence.
    fn gen(u: &mut U) -> Self;
    /// Structural equality where the type offers `PartialEq`.
    fn same(_a: &Self, _b: &Self) -> Option<bool> { None }
}

macro_rules! chain {
    ($t:ty, eq, |$u:ident| $body:expr) => {
        impl Chain for $t {
            fn gen($u: &mut U) -> Self { $body }

            fn same(a: &Self, b: &Self) -> Option<bool> { Some(a == b) }
        }
    };
    ($t:ty, noeq, |$u:ident| $body:expr) => {
        impl Chain for $t {
            fn gen($u: &mut U) -> Self { $body }
        }
    };
}

#[inline]
fn g<T: Chain>(u: &mut U) -> T { T::gen(u) }

fn opt<T>(u: &mut U, f: impl FnOnce(&mut U) -> T) -> Option<T> {
    if gen::boolean(u) {
        Some(f(u))
    } else {
        None
    }
}

// ---------------------------------------------------------------------------------------------
// std / generic containers (serialize.rs)

chain!(u8, eq, |u| gen::byte(u));
chain!(u16, eq, |u| gen::boundary_u32(u) as u16);
chain!(u32, eq, |u| gen::boundary_u32(u));
chain!(u64, eq, |u| gen::boundary_u64(u));
chain!(i64, eq, |u| gen::boundary_u64(u) as i64);
chain!(bool, eq, |u| gen::boolean(u));
chain!(String, eq, |u| if gen::ratio(u, 1, 40) {
    // crosses the 4096-byte chunking boundary of the String decoder
    long_utf8(u, 4090, 9000, 'x')
} else {
    utf8(u, 64)
});
chain!(Vec<u8>, eq, |u| gen::short_bytes(u, 300));
chain!(Vec<u16>, eq, |u| {
    let n = small_len(u, 40);
    (0..n).map(|_| g::<u16>(u)).collect()
});
chain!(Option<u64>, eq, |u| opt(u, g::<u64>));
chain!(BTreeSet<u16>, eq, |u| {
    let n = small_len(u, 20);
    (0..n).map(|_| g::<u16>(u)).collect()
});
chain!(BTreeMap<u8, u16>, eq, |u| {
    let n = small_len(u, 20);
    (0..n).map(|_| (gen::byte(u), g::<u16>(u))).collect()
});
chain!((u8, u64), eq, |u| (gen::byte(u), g::<u64>(u)));
chain!([u8; 5], eq, |u| gen::array::<5>(u));
chain!(either::Either<u8, u32>, eq, |u| if gen::boolean(u) {
    either::Either::Right(g::<u32>(u))
} else {
    either::Either::Left(gen::byte(u))
});
chain!(num::rational::Ratio<u64>, eq, |u| {
    let d = gen::boundary_u64(u).max(1);
    num::rational::Ratio::new_raw(gen::boundary_u64(u), d)
});
chain!(chrono::DateTime<chrono::Utc>, eq, |u| {
    // representable range of chrono: about +-262000 years in milliseconds
    let ms = (gen::boundary_u64(u) as i64) % 8_000_000_000_000_000;
    chrono::DateTime::from_timestamp_millis(ms).expect("in range")
});
chain!(concordium_base::common::Version, eq, |u| concordium_base::common::Version::from(gen::boundary_u32(u)));
chain!(std::num::NonZeroU16, eq, |u| std::num::NonZeroU16::new(g::<u16>(u).max(1)).unwrap());

// ---------------------------------------------------------------------------------------------
// common::types and contracts-common basics

chain!(Amount, eq, |u| Amount::from_micro_ccd(gen::boundary_u64(u)));
chain!(Timestamp, eq, |u| Timestamp::from_timestamp_millis(gen::boundary_u64(u)));
chain!(Duration, eq, |u| Duration::from_millis(gen::boundary_u64(u)));
chain!(TransactionTime, eq, |u| TransactionTime::from_seconds(gen::boundary_u64(u)));
chain!(AccountAddress, eq, |u| AccountAddress(gen::array::<32>(u)));
chain!(ContractAddress, eq, |u| ContractAddress::new(gen::boundary_u64(u), gen::boundary_u64(u)));
chain!(Address, eq, |u| if gen::boolean(u) { Address::Contract(g(u)) } else { Address::Account(g(u)) });
chain!(KeyIndex, eq, |u| KeyIndex(gen::byte(u)));
chain!(CredentialIndex, eq, |u| CredentialIndex { index: gen::byte(u) });

const NAME_CHARS: &[u8] = b"abcXYZ019_-!#$%&*+/<=>?@^~";

chain!(OwnedContractName, eq, |u| {
    // "init_" + up to 95 ascii alphanumeric/punctuation characters, no '.'
    let s = format!("init_{}", ascii(u, NAME_CHARS, 0, 95));
    OwnedContractName::new(s).expect("valid contract name")
});
chain!(OwnedReceiveName, eq, |u| {
    let a = ascii(u, NAME_CHARS, 0, 49);
    let b = ascii(u, NAME_CHARS, 0, 50);
    OwnedReceiveName::new(format!("{a}.{b}")).expect("valid receive name")
});
chain!(OwnedParameter, eq, |u| {
    let b = if gen::ratio(u, 1, 50) { gen::bytes(u, 65535) } else { gen::short_bytes(u, 200) };
    OwnedParameter::new_unchecked(b)
});
chain!(ModuleReference, eq, |u| ModuleReference::from(gen::array::<32>(u)));
chain!(hashes::BlockHash, eq, |u| hashes::BlockHash::from(gen::array::<32>(u)));

/// Coprime pair with non-zero denominator.
fn coprime(u: &mut U, min_num: u64) -> (u64, u64) {
    let mut n = gen::boundary_u64(u).max(min_num);
    let mut d = gen::boundary_u64(u).max(1);
    let gcd = num::integer::gcd(n, d);
    if gcd > 1 {
        n /= gcd;
        d /= gcd;
    }
    (n.max(min_num), d)
}

chain!(Ratio, eq, |u| {
    let (n, d) = coprime(u, 0);
    // gcd(0, d) = d, so 0/d is reduced only for d = 1
    if n == 0 {
        Ratio::new(0, 1).expect("0/1")
    } else {
        Ratio::new(n, d).expect("coprime")
    }
});
chain!(ExchangeRate, eq, |u| {
    let (n, d) = coprime(u, 1);
    let gcd = num::integer::gcd(n, d);
    ExchangeRate::new(n / gcd, d / gcd).expect("reduced non-zero")
});
chain!(LeverageFactor, eq, |u| {
    let (a, b) = coprime(u, 1);
    let gcd = num::integer::gcd(a, b);
    let (a, b) = (a / gcd, b / gcd);
    LeverageFactor::new(a.max(b), a.min(b)).expect("numerator >= denominator, reduced")
});
chain!(Signature, eq, |u| Signature {
    sig: if gen::ratio(u, 3, 4) {
        gen::bytes(u, 64)
    } else if gen::ratio(u, 1, 30) {
        gen::bytes(u, 65535)
    } else {
        gen::short_bytes(u, 200)
    },
});

fn sig_map(u: &mut U) -> BTreeMap<KeyIndex, Signature> {
    let n = 1 + small_len(u, 6);
    let mut m = BTreeMap::new();
    for _ in 0..n {
        m.insert(g::<KeyIndex>(u), g::<Signature>(u));
    }
    m
}

chain!(TransactionSignature, eq, |u| {
    let n = 1 + small_len(u, 4);
    let mut signatures = BTreeMap::new();
    for _ in 0..n {
        signatures.insert(g::<CredentialIndex>(u), sig_map(u));
    }
    TransactionSignature { signatures }
});
chain!(TransactionSignaturesV1, eq, |u| TransactionSignaturesV1 { sender: g(u), sponsor: opt(u, g::<TransactionSignature>) });

// ---------------------------------------------------------------------------------------------
// base.rs

macro_rules! newtype_u64 {
    ($t:ty) => {
        chain!($t, eq, |u| <$t>::from(gen::boundary_u64(u)));
    };
}
newtype_u64!(SlotDuration);
newtype_u64!(DurationSeconds);
newtype_u64!(Slot);
newtype_u64!(Epoch);
newtype_u64!(Round);
newtype_u64!(Nonce);
newtype_u64!(UpdateSequenceNumber);
newtype_u64!(BlockHeight);
newtype_u64!(AbsoluteBlockHeight);
newtype_u64!(AccountIndex);
newtype_u64!(Energy);
newtype_u64!(FinalizationIndex);
chain!(BakerId, eq, |u| BakerId { id: g(u) });
chain!(GenesisIndex, eq, |u| GenesisIndex::from(gen::boundary_u32(u)));
chain!(CredentialsPerBlockLimit, eq, |u| CredentialsPerBlockLimit::from(g::<u16>(u)));

chain!(UrlText, eq, |u| {
    let s = if gen::ratio(u, 1, 20) { "u".repeat(2048) } else { utf8(u, 100) };
    UrlText::try_from(s).expect("within MAX_URL_TEXT_LENGTH")
});
chain!(OpenStatus, eq, |u| match gen::idx(u, 3) {
    0 => OpenStatus::OpenForAll,
    1 => OpenStatus::ClosedForNew,
    _ => OpenStatus::ClosedForAll,
});
chain!(DelegationTarget, eq, |u| if gen::boolean(u) { DelegationTarget::Baker { baker_id: g(u) } } else { DelegationTarget::Passive });
chain!(ProtocolVersion, eq, |u| ProtocolVersion::try_from(1 + gen::idx(u, 10) as u64).expect("P1..P10"));

fn parts(u: &mut U) -> u32 {
    match gen::byte(u) % 6 {
        0 => 0,
        1 => 100_000,
        2 => 1,
        3 => 99_999,
        _ => gen::range_u64(u, 0, 100_000) as u32,
    }
}

chain!(PartsPerHundredThousands, eq, |u| PartsPerHundredThousands::new(parts(u)).expect("<= 100000"));
chain!(AmountFraction, eq, |u| AmountFraction::new(parts(u)).expect("<= 100000"));
chain!(ElectionDifficulty, eq, |u| ElectionDifficulty::new(parts(u)).expect("<= 100000"));
chain!(CapitalBound, eq, |u| CapitalBound { bound: g(u) });
chain!(MintRate, eq, |u| MintRate { mantissa: gen::boundary_u32(u), exponent: gen::byte(u) });
chain!(CommissionRates, eq, |u| CommissionRates { finalization: g(u), baking: g(u), transaction: g(u) });

fn range(u: &mut U) -> InclusiveRange<AmountFraction> {
    let a: AmountFraction = g(u);
    let b: AmountFraction = g(u);
    InclusiveRange { min: a.min(b), max: a.max(b) }
}

chain!(InclusiveRange<AmountFraction>, eq, |u| range(u));
chain!(CommissionRanges, noeq, |u| CommissionRanges { finalization: range(u), baking: range(u), transaction: range(u) });

/// Two fractions whose sum does not exceed 100%.
fn two_fractions(u: &mut U) -> (AmountFraction, AmountFraction) {
    let a = parts(u);
    let b = parts(u).min(100_000 - a);
    (AmountFraction::new(a).unwrap(), AmountFraction::new(b).unwrap())
}

chain!(MintDistributionV0, noeq, |u| {
    let (baking_reward, finalization_reward) = two_fractions(u);
    MintDistributionV0 { mint_per_slot: g(u), baking_reward, finalization_reward }
});
chain!(MintDistributionV1, noeq, |u| {
    let (baking_reward, finalization_reward) = two_fractions(u);
    MintDistributionV1 { baking_reward, finalization_reward }
});

chain!(VerifyKey, eq, |u| VerifyKey::Ed25519VerifyKey(wire::ed_pk(u)));
chain!(UpdatePublicKey, eq, |u| UpdatePublicKey { public: g(u) });
chain!(UpdateKeysIndex, eq, |u| UpdateKeysIndex { index: g::<u16>(u) });
chain!(UpdateKeysThreshold, eq, |u| UpdateKeysThreshold::try_from(g::<u16>(u).max(1)).expect("non-zero"));

chain!(CredentialRegistrationID, eq, |u| CredentialRegistrationID::new(wire::g1(u)));
chain!(BakerElectionVerifyKey, eq, |u| dec("BakerElectionVerifyKey", wire::ed_pk(u).as_bytes()));
chain!(BakerSignatureVerifyKey, eq, |u| dec("BakerSignatureVerifyKey", wire::ed_pk(u).as_bytes()));
chain!(BakerAggregationVerifyKey, eq, |u| dec("BakerAggregationVerifyKey", &wire::g2_bytes(u)));

// ---------------------------------------------------------------------------------------------
// transactions.rs

chain!(Memo, eq, |u| {
    let b = if gen::ratio(u, 1, 10) { gen::bytes(u, 256) } else { gen::short_bytes(u, 40) };
    Memo::try_from(b).expect("<= 256 bytes")
});

impl Chain for RegisteredData {
    fn gen(u: &mut U) -> Self {
        let b = if gen::ratio(u, 1, 10) { gen::bytes(u, 256) } else { gen::short_bytes(u, 40) };
        RegisteredData::try_from(b).expect("<= 256 bytes")
    }

    fn same(a: &Self, b: &Self) -> Option<bool> {
        let (x, y): (&[u8], &[u8]) = (a.as_ref(), b.as_ref());
        Some(x == y)
    }
}

fn payload_size(u: &mut U) -> PayloadSize {
    PayloadSize::from(match gen::byte(u) % 4 {
        0 => 0,
        1 => concordium_base::constants::MAX_PAYLOAD_SIZE,
        _ => gen::range_u64(u, 0, concordium_base::constants::MAX_PAYLOAD_SIZE as u64) as u32,
    })
}

chain!(PayloadSize, eq, |u| payload_size(u));

fn header(u: &mut U, payload_len: u32) -> TransactionHeader {
    TransactionHeader { sender: g(u), nonce: g(u), energy_amount: g(u), payload_size: PayloadSize::from(payload_len), expiry: g(u) }
}

fn header_v1(u: &mut U, payload_len: u32) -> TransactionHeaderV1 {
    TransactionHeaderV1 {
        sender:        g(u),
        nonce:         g(u),
        energy_amount: g(u),
        payload_size:  PayloadSize::from(payload_len),
        expiry:        g(u),
        sponsor:       opt(u, g::<AccountAddress>),
    }
}

chain!(TransactionHeader, noeq, |u| {
    let s = payload_size(u);
    header(u, s.into())
});
chain!(TransactionHeaderV1, eq, |u| {
    let s = payload_size(u);
    header_v1(u, s.into())
});

fn encoded_payload(u: &mut U) -> EncodedPayload {
    let b = match gen::byte(u) % 8 {
        0 => Vec::new(),
        1 => gen::short_bytes(u, 300),
        2 => gen::bytes(u, 3000),
        // usually the encoding of a real payload
        _ => concordium_base::common::to_bytes(&g::<Payload>(u)),
    };
    EncodedPayload::try_from(b).expect("<= MAX_PAYLOAD_SIZE")
}

chain!(AccountTransaction<EncodedPayload>, noeq, |u| {
    let payload = encoded_payload(u);
    let header = header(u, payload.size().into());
    AccountTransaction { signature: g(u), header, payload }
});
chain!(AccountTransaction<Payload>, noeq, |u| {
    let payload: Payload = g(u);
    let header = header(u, payload.encode().size().into());
    AccountTransaction { signature: g(u), header, payload }
});
chain!(AccountTransactionV1<EncodedPayload>, eq, |u| {
    let payload = encoded_payload(u);
    let header = header_v1(u, payload.size().into());
    AccountTransactionV1 { signatures: g(u), header, payload }
});
chain!(AccountTransactionV1<Payload>, noeq, |u| {
    let payload: Payload = g(u);
    let header = header_v1(u, payload.encode().size().into());
    AccountTransactionV1 { signatures: g(u), header, payload }
});

// Block items that the (unchanged) decoder supports. `BlockItem::AccountTransactionV1` is encoded
// with tag 3 by `Serial` but rejected by `Deserial` (finding F7, see NOTES.md); it is generated
// only by `block_item_v1`.
chain!(BlockItem<EncodedPayload>, noeq, |u| match gen::idx(u, 3) {
    0 => BlockItem::AccountTransaction(g(u)),
    1 => BlockItem::CredentialDeployment(Box::new(g::<Acm>(u))),
    _ => BlockItem::UpdateInstruction(g(u)),
});

pub fn block_item_v1(u: &mut U) -> BlockItem<EncodedPayload> { BlockItem::AccountTransactionV1(g(u)) }

chain!(WasmVersion, eq, |u| if gen::boolean(u) { WasmVersion::V1 } else { WasmVersion::V0 });
chain!(ModuleSource, eq, |u| {
    let b = match gen::byte(u) % 16 {
        0 => gen::bytes(u, 8 * 65536),
        1 => gen::bytes(u, 5000),
        _ => gen::short_bytes(u, 200),
    };
    ModuleSource::from(b)
});
chain!(WasmModule, eq, |u| WasmModule { version: g(u), source: g(u) });
chain!(InitContractPayload, noeq, |u| InitContractPayload { amount: g(u), mod_ref: g(u), init_name: g(u), param: g(u) });
chain!(UpdateContractPayload, noeq, |u| UpdateContractPayload { amount: g(u), address: g(u), receive_name: g(u), message: g(u) });

/// election key, signature key, aggregation key, proof_sig, proof_election, proof_aggregation
fn baker_keys_bytes(u: &mut U) -> Vec<u8> {
    let mut w = W::new();
    w.raw(wire::ed_pk(u).as_bytes()).raw(wire::ed_pk(u).as_bytes()).g2(u);
    for _ in 0..4 {
        w.raw(&wire::ed_scalar_bytes(u));
    }
    w.raw(&gen::array::<32>(u)).fr(u);
    w.0
}

impl<V: 'static> Chain for BakerKeysPayload<V> {
    fn gen(u: &mut U) -> Self { dec("BakerKeysPayload", &baker_keys_bytes(u)) }
}

chain!(AddBakerPayload, noeq, |u| AddBakerPayload { keys: g(u), baking_stake: g(u), restake_earnings: gen::boolean(u) });

fn schedule(u: &mut U) -> Vec<(Timestamp, Amount)> {
    let n = if gen::ratio(u, 1, 30) { 255 } else { small_len(u, 255) };
    (0..n).map(|_| (g(u), g(u))).collect()
}

fn configure_baker(u: &mut U) -> ConfigureBakerPayload {
    // one byte decides presence of the first eight fields, so that all-zero = empty payload
    let m = gen::byte(u);
    let m2 = gen::byte(u);
    ConfigureBakerPayload {
        capital: (m & 1 != 0).then(|| g(u)),
        restake_earnings: (m & 2 != 0).then(|| gen::boolean(u)),
        open_for_delegation: (m & 4 != 0).then(|| g(u)),
        keys_with_proofs: (m & 8 != 0).then(|| g(u)),
        metadata_url: (m & 16 != 0).then(|| g(u)),
        transaction_fee_commission: (m & 32 != 0).then(|| g(u)),
        baking_reward_commission: (m & 64 != 0).then(|| g(u)),
        finalization_reward_commission: (m & 128 != 0).then(|| g(u)),
        suspend: (m2 & 1 != 0).then(|| gen::boolean(u)),
    }
}

fn configure_delegation(u: &mut U) -> ConfigureDelegationPayload {
    ConfigureDelegationPayload {
        capital: opt(u, g::<Amount>),
        restake_earnings: opt(u, gen::boolean),
        delegation_target: opt(u, g::<DelegationTarget>),
    }
}

chain!(TokenId, eq, |u| {
    let s = ascii(u, b"abzAZ09-.%", 1, 128);
    TokenId::try_from(s).expect("valid token id")
});
chain!(RawCbor, eq, |u| RawCbor::from(if gen::ratio(u, 1, 40) { gen::bytes(u, 5000) } else { gen::short_bytes(u, 100) }));

pub const PAYLOAD_VARIANTS: usize = 22;

pub fn payload_variant(u: &mut U, which: usize) -> Payload {
    match which {
        0 => Payload::Transfer { to_address: g(u), amount: g(u) },
        1 => Payload::DeployModule { module: g(u) },
        2 => Payload::InitContract { payload: g(u) },
        3 => Payload::Update { payload: g(u) },
        4 => Payload::AddBaker { payload: Box::new(g(u)) },
        5 => Payload::RemoveBaker,
        6 => Payload::UpdateBakerStake { stake: g(u) },
        7 => Payload::UpdateBakerRestakeEarnings { restake_earnings: gen::boolean(u) },
        8 => Payload::UpdateBakerKeys { payload: Box::new(g(u)) },
        9 => Payload::UpdateCredentialKeys { cred_id: g(u), keys: g(u) },
        10 => Payload::EncryptedAmountTransfer { to: g(u), data: Box::new(g(u)) },
        11 => Payload::TransferToEncrypted { amount: g(u) },
        12 => Payload::TransferToPublic { data: Box::new(g(u)) },
        13 => Payload::TransferWithSchedule { to: g(u), schedule: schedule(u) },
        14 => {
            let n = small_len(u, 3);
            let mut new_cred_infos = BTreeMap::new();
            for _ in 0..n {
                new_cred_infos.insert(g::<CredentialIndex>(u), g::<Cdi>(u));
            }
            let k = small_len(u, 5);
            Payload::UpdateCredentials {
                new_cred_infos,
                remove_cred_ids: (0..k).map(|_| g(u)).collect(),
                new_threshold: AccountThreshold::try_from(gen::byte(u).max(1)).expect("non-zero"),
            }
        }
        15 => Payload::RegisterData { data: g(u) },
        16 => Payload::TransferWithMemo { to_address: g(u), memo: g(u), amount: g(u) },
        17 => Payload::EncryptedAmountTransferWithMemo { to: g(u), memo: g(u), data: Box::new(g(u)) },
        18 => Payload::TransferWithScheduleAndMemo { to: g(u), memo: g(u), schedule: schedule(u) },
        19 => Payload::ConfigureBaker { data: Box::new(configure_baker(u)) },
        20 => Payload::ConfigureDelegation { data: configure_delegation(u) },
        _ => Payload::TokenUpdate { payload: TokenOperationsPayload { token_id: g(u), operations: g(u) } },
    }
}

chain!(Payload, noeq, |u| {
    let which = gen::idx(u, PAYLOAD_VARIANTS);
    payload_variant(u, which)
});

fn cred_keys(u: &mut U) -> CredentialPublicKeys {
    let n = 1 + small_len(u, 5);
    let mut keys = BTreeMap::new();
    for _ in 0..n {
        keys.insert(g::<KeyIndex>(u), g::<VerifyKey>(u));
    }
    CredentialPublicKeys { keys, threshold: SignatureThreshold::try_from(gen::byte(u).max(1)).expect("non-zero") }
}

chain!(CredentialPublicKeys, eq, |u| cred_keys(u));
chain!(AccountAccessStructure, eq, |u| {
    let n = small_len(u, 4);
    let mut keys = BTreeMap::new();
    for _ in 0..n {
        keys.insert(g::<CredentialIndex>(u), cred_keys(u));
    }
    AccountAccessStructure { keys, threshold: AccountThreshold::try_from(gen::byte(u).max(1)).expect("non-zero") }
});

// ---------------------------------------------------------------------------------------------
// updates.rs

chain!(ProtocolUpdate, eq, |u| {
    // message / url lengths on both sides of the decoder's 4096 switch
    let long = |u: &mut U| if gen::ratio(u, 1, 12) { long_utf8(u, 4090, 4200, 'm') } else { utf8(u, 60) };
    ProtocolUpdate {
        message: long(u),
        specification_url: long(u),
        specification_hash: hashes::Hash::from(gen::array::<32>(u)),
        specification_auxiliary_data: if gen::ratio(u, 1, 12) {
            let n = gen::range_usize(u, 4090, 4200);
            gen::bytes(u, n)
        } else {
            gen::short_bytes(u, 100)
        },
    }
});
chain!(TransactionFeeDistribution, noeq, |u| {
    let (baker, gas_account) = two_fractions(u);
    TransactionFeeDistribution { baker, gas_account }
});
chain!(GASRewards, noeq, |u| GASRewards { baker: g(u), finalization_proof: g(u), account_creation: g(u), chain_update: g(u) });
chain!(GASRewardsV1, noeq, |u| GASRewardsV1 { baker: g(u), account_creation: g(u), chain_update: g(u) });

fn hlas<K>(u: &mut U) -> HigherLevelAccessStructure<K> {
    let n = 1 + small_len(u, 6);
    let keys: Vec<UpdatePublicKey> = (0..n).map(|_| g(u)).collect();
    let t = gen::range_u64(u, 1, n as u64) as u16;
    HigherLevelAccessStructure { keys, threshold: UpdateKeysThreshold::try_from(t).unwrap(), _phantom: Default::default() }
}

impl<K: 'static> Chain for HigherLevelAccessStructure<K> {
    fn gen(u: &mut U) -> Self { hlas(u) }

    fn same(a: &Self, b: &Self) -> Option<bool> { Some(a.keys == b.keys && a.threshold == b.threshold) }
}

chain!(AccessStructure, eq, |u| {
    let n = 1 + small_len(u, 6);
    let mut authorized_keys = BTreeSet::new();
    for _ in 0..n {
        authorized_keys.insert(g::<UpdateKeysIndex>(u));
    }
    let t = gen::range_u64(u, 1, authorized_keys.len() as u64) as u16;
    AccessStructure { authorized_keys, threshold: UpdateKeysThreshold::try_from(t).unwrap() }
});

fn auth_v0(u: &mut U) -> AuthorizationsV0 {
    let n = small_len(u, 5);
    AuthorizationsV0 {
        keys: (0..n).map(|_| g(u)).collect(),
        emergency: g(u),
        protocol: g(u),
        election_difficulty: g(u),
        euro_per_energy: g(u),
        micro_gtu_per_euro: g(u),
        foundation_account: g(u),
        mint_distribution: g(u),
        transaction_fee_distribution: g(u),
        param_gas_rewards: g(u),
        pool_parameters: g(u),
        add_anonymity_revoker: g(u),
        add_identity_provider: g(u),
    }
}

chain!(AuthorizationsV0, noeq, |u| auth_v0(u));

/// `with_plt` must match the constructor the value is used with (documented precondition of
/// `Level2KeysUpdateV1` / `Level2KeysUpdateV2`).
fn auth_v1(u: &mut U, with_plt: bool) -> AuthorizationsV1 {
    AuthorizationsV1 { v0: auth_v0(u), cooldown_parameters: g(u), time_parameters: g(u), create_plt: with_plt.then(|| g(u)) }
}

chain!(RootUpdate, noeq, |u| match gen::idx(u, 5) {
    0 => RootUpdate::RootKeysUpdate(g(u)),
    1 => RootUpdate::Level1KeysUpdate(g(u)),
    2 => RootUpdate::Level2KeysUpdate(Box::new(g(u))),
    3 => RootUpdate::Level2KeysUpdateV1(Box::new(auth_v1(u, false))),
    _ => RootUpdate::Level2KeysUpdateV2(Box::new(auth_v1(u, true))),
});
chain!(Level1Update, noeq, |u| match gen::idx(u, 4) {
    0 => Level1Update::Level1KeysUpdate(g(u)),
    1 => Level1Update::Level2KeysUpdate(Box::new(g(u))),
    2 => Level1Update::Level2KeysUpdateV1(Box::new(auth_v1(u, false))),
    _ => Level1Update::Level2KeysUpdateV2(Box::new(auth_v1(u, true))),
});
chain!(BakerParameters, noeq, |u| BakerParameters { minimum_threshold_for_baking: g(u) });
chain!(CooldownParameters, noeq, |u| CooldownParameters { pool_owner_cooldown: g(u), delegator_cooldown: g(u) });
chain!(TimeoutParameters, noeq, |u| {
    // increase > 1, 0 < decrease < 1, both reduced
    let (a, b) = coprime(u, 1);
    let gcd = num::integer::gcd(a, b);
    let (a, b) = (a / gcd, b / gcd);
    let (hi, lo) = if a == b { (2, 1) } else { (a.max(b), a.min(b)) };
    let (c, d) = coprime(u, 1);
    let gcd = num::integer::gcd(c, d);
    let (c, d) = (c / gcd, d / gcd);
    let (hi2, lo2) = if c == d { (3, 2) } else { (c.max(d), c.min(d)) };
    TimeoutParameters::new(g(u), Ratio::new(hi, lo).expect("reduced"), Ratio::new(lo2, hi2).expect("reduced")).expect("valid")
});
chain!(RewardPeriodLength, eq, |u| RewardPeriodLength::from(g::<Epoch>(u)));
chain!(TimeParameters, noeq, |u| TimeParameters { reward_period_length: g(u), mint_per_payday: g(u) });
chain!(PoolParameters, noeq, |u| PoolParameters {
    passive_finalization_commission: g(u),
    passive_baking_commission:       g(u),
    passive_transaction_commission:  g(u),
    commission_bounds:               g(u),
    minimum_equity_capital:          g(u),
    capital_bound:                   g(u),
    leverage_bound:                  g(u),
});
chain!(FinalizationCommitteeParameters, noeq, |u| FinalizationCommitteeParameters {
    min_finalizers: g(u),
    max_finalizers: g(u),
    finalizers_relative_stake_threshold: g(u),
});
chain!(ValidatorScoreParameters, noeq, |u| ValidatorScoreParameters { max_missed_rounds: g(u) });
chain!(CreatePlt, noeq, |u| CreatePlt {
    token_id: g(u),
    token_module: concordium_base::protocol_level_tokens::TokenModuleRef::from(gen::array::<32>(u)),
    decimals: gen::byte(u),
    initialization_parameters: g(u),
});

pub const UPDATE_VARIANTS: usize = 24;

pub fn update_variant(u: &mut U, which: usize) -> UpdatePayload {
    match which {
        0 => UpdatePayload::ElectionDifficulty(g(u)),
        1 => UpdatePayload::Protocol(g(u)),
        2 => UpdatePayload::EuroPerEnergy(g(u)),
        3 => UpdatePayload::MicroGTUPerEuro(g(u)),
        4 => UpdatePayload::FoundationAccount(g(u)),
        5 => UpdatePayload::MintDistribution(g(u)),
        6 => UpdatePayload::TransactionFeeDistribution(g(u)),
        7 => UpdatePayload::GASRewards(g(u)),
        8 => UpdatePayload::BakerStakeThreshold(g(u)),
        9 => UpdatePayload::Root(g(u)),
        10 => UpdatePayload::Level1(g(u)),
        11 => UpdatePayload::AddAnonymityRevoker(Box::new(g(u))),
        12 => UpdatePayload::AddIdentityProvider(Box::new(g(u))),
        13 => UpdatePayload::CooldownParametersCPV1(g(u)),
        14 => UpdatePayload::PoolParametersCPV1(g(u)),
        15 => UpdatePayload::TimeParametersCPV1(g(u)),
        16 => UpdatePayload::MintDistributionCPV1(g(u)),
        17 => UpdatePayload::GASRewardsCPV2(g(u)),
        18 => UpdatePayload::TimeoutParametersCPV2(g(u)),
        19 => UpdatePayload::MinBlockTimeCPV2(g(u)),
        20 => UpdatePayload::BlockEnergyLimitCPV2(g(u)),
        21 => UpdatePayload::FinalizationCommitteeParametersCPV2(g(u)),
        22 => UpdatePayload::ValidatorScoreParametersCPV3(g(u)),
        _ => UpdatePayload::CreatePlt(g(u)),
    }
}

chain!(UpdatePayload, noeq, |u| {
    let which = gen::idx(u, UPDATE_VARIANTS);
    update_variant(u, which)
});

fn update_header(u: &mut U, payload_len: u32) -> UpdateHeader {
    UpdateHeader { seq_number: g(u), effective_time: g(u), timeout: g(u), payload_size: PayloadSize::from(payload_len) }
}

chain!(UpdateHeader, noeq, |u| {
    let s = payload_size(u);
    update_header(u, s.into())
});
chain!(UpdateInstructionSignature, noeq, |u| {
    let n = 1 + small_len(u, 5);
    let mut signatures = BTreeMap::new();
    for _ in 0..n {
        signatures.insert(g::<UpdateKeysIndex>(u), g::<Signature>(u));
    }
    UpdateInstructionSignature { signatures }
});
chain!(UpdateInstruction, noeq, |u| {
    let payload: EncodedUpdatePayload = if gen::ratio(u, 3, 4) {
        EncodedUpdatePayload::encode(&g::<UpdatePayload>(u))
    } else {
        EncodedUpdatePayload::from(gen::short_bytes(u, 300))
    };
    let header = update_header(u, payload.size().into());
    UpdateInstruction { header, payload, signatures: g(u) }
});

// ---------------------------------------------------------------------------------------------
// id/types.rs

chain!(IpIdentity, eq, |u| IpIdentity(gen::boundary_u32(u)));
chain!(ArIdentity, eq, |u| ArIdentity::try_from(gen::boundary_u32(u).max(1)).expect("non-zero"));
chain!(AttributeTag, eq, |u| AttributeTag(gen::byte(u)));
chain!(AttributeKind, eq, |u| AttributeKind::try_new(utf8(u, 31)).expect("<= 31 bytes"));
chain!(Threshold, eq, |u| Threshold::try_new(gen::byte(u).max(1)).expect("non-zero"));
chain!(YearMonth, eq, |u| YearMonth::new(1000 + gen::range_u64(u, 0, 8999) as u16, 1 + gen::idx(u, 12) as u8).expect("in range"));
chain!(SchemeId, eq, |_u| SchemeId::Ed25519);
chain!(IpCdiSignature, eq, |u| IpCdiSignature::from(ed25519_dalek::Signature::from_bytes(&gen::array::<64>(u))));
chain!(AccountOwnershipSignature, eq, |u| AccountOwnershipSignature::from(ed25519_dalek::Signature::from_bytes(
    &gen::array::<64>(u)
)));
chain!(AccountOwnershipProof, eq, |u| {
    let n = 1 + small_len(u, 4);
    let mut sigs = BTreeMap::new();
    for _ in 0..n {
        sigs.insert(g::<KeyIndex>(u), g::<AccountOwnershipSignature>(u));
    }
    AccountOwnershipProof { sigs }
});

fn attr_map(u: &mut U) -> BTreeMap<AttributeTag, AttributeKind> {
    let n = small_len(u, 6);
    let mut m = BTreeMap::new();
    for _ in 0..n {
        m.insert(g::<AttributeTag>(u), g::<AttributeKind>(u));
    }
    m
}

chain!(Pol, eq, |u| Policy { valid_to: g(u), created_at: g(u), policy_vec: attr_map(u), _phantom: Default::default() });
chain!(Description, eq, |u| {
    // the three strings are read by the chunked string reader (4096-byte chunks)
    let f = |u: &mut U, max: usize| if gen::ratio(u, 1, 20) { long_utf8(u, 4090, 8300, 'd') } else { utf8(u, max) };
    Description { name: f(u, 40), url: f(u, 40), description: f(u, 80) }
});
chain!(concordium_base::elgamal::Cipher<G1>, eq, |u| concordium_base::elgamal::Cipher(wire::g1(u), wire::g1(u)));
chain!(concordium_base::elgamal::PublicKey<G1>, eq, |u| concordium_base::elgamal::PublicKey { generator: wire::g1(u), key: wire::g1(u) });
chain!(concordium_base::pedersen_commitment::Commitment<G1>, eq, |u| concordium_base::pedersen_commitment::Commitment(wire::g1(u)));
chain!(concordium_base::pedersen_commitment::CommitmentKey<G1>, eq, |u| concordium_base::pedersen_commitment::CommitmentKey {
    g: wire::g1(u),
    h: wire::g1(u),
});
chain!(ChainArData<G1>, eq, |u| ChainArData { enc_id_cred_pub_share: g(u) });
chain!(ArInfo<G1>, eq, |u| ArInfo { ar_identity: g(u), ar_description: g(u), ar_public_key: g(u) });

fn ps_public_key(u: &mut U) -> concordium_base::ps_sig::PublicKey<IpPairing> {
    let n = small_len(u, 4);
    concordium_base::ps_sig::PublicKey {
        g:        wire::g1(u),
        g_tilda:  wire::g2(u),
        ys:       (0..n).map(|_| wire::g1(u)).collect(),
        y_tildas: (0..small_len(u, 3)).map(|_| wire::g2(u)).collect(),
        x_tilda:  wire::g2(u),
    }
}

chain!(concordium_base::ps_sig::PublicKey<IpPairing>, eq, |u| ps_public_key(u));
chain!(IpInfo<IpPairing>, eq, |u| IpInfo {
    ip_identity:       g(u),
    ip_description:    g(u),
    ip_verify_key:     ps_public_key(u),
    ip_cdi_verify_key: wire::ed_pk(u),
});
chain!(GlobalContext<G1>, noeq, |u| {
    let n = small_len(u, 6);
    GlobalContext {
        on_chain_commitment_key: g(u),
        bulletproof_generators:  concordium_base::bulletproofs::utils::Generators { G_H: (0..n).map(|_| (wire::g1(u), wire::g1(u))).collect() },
        genesis_string:          utf8(u, 40),
    }
});

fn ar_data(u: &mut U) -> BTreeMap<ArIdentity, ChainArData<G1>> {
    let n = small_len(u, 4);
    let mut m = BTreeMap::new();
    for _ in 0..n {
        m.insert(g::<ArIdentity>(u), g::<ChainArData<G1>>(u));
    }
    m
}

chain!(CredentialDeploymentValues<G1, AttributeKind>, eq, |u| CredentialDeploymentValues {
    cred_key_info: g(u),
    cred_id:       wire::g1(u),
    ip_identity:   g(u),
    threshold:     g(u),
    ar_data:       ar_data(u),
    policy:        g(u),
});
chain!(InitialCredentialDeploymentValues<G1, AttributeKind>, eq, |u| InitialCredentialDeploymentValues {
    cred_account: g(u),
    reg_id:       wire::g1(u),
    ip_identity:  g(u),
    policy:       g(u),
});

fn commitments(u: &mut U) -> CredentialDeploymentCommitments<G1> {
    let n = small_len(u, 5);
    let mut cmm_attributes = BTreeMap::new();
    for _ in 0..n {
        cmm_attributes.insert(g::<AttributeTag>(u), g(u));
    }
    let k = small_len(u, 4);
    CredentialDeploymentCommitments {
        cmm_prf: g(u),
        cmm_cred_counter: g(u),
        cmm_max_accounts: g(u),
        cmm_attributes,
        cmm_id_cred_sec_sharing_coeff: (0..k).map(|_| g(u)).collect(),
    }
}

chain!(CredentialDeploymentCommitments<G1>, eq, |u| commitments(u));

/// RangeProof: A, S, T_1, T_2, tx, tx_tilde, e_tilde, ip_proof { u32 n, n x (L, R), a, b }
pub fn range_proof_bytes(u: &mut U, w: &mut W) {
    w.g1s(u, 4).frs(u, 3);
    let n = small_len(u, 6);
    w.u32(n as u32);
    w.g1s(u, 2 * n).frs(u, 2);
}

type RangeProofG1 = concordium_base::bulletproofs::range_proof::RangeProof<G1>;

chain!(RangeProofG1, eq, |u| {
    let mut w = W::new();
    range_proof_bytes(u, &mut w);
    dec("RangeProof", &w.0)
});

/// The body (after the u32 total length) of `CredDeploymentProofs`.
fn cred_proofs_bytes(u: &mut U) -> Vec<u8> {
    let mut w = W::new();
    w.g1s(u, 2); // blinded signature
    w.raw(&concordium_base::common::to_bytes(&commitments(u)));
    w.raw(&gen::array::<32>(u)); // challenge
    let n = small_len(u, 4);
    let ids: BTreeSet<ArIdentity> = (0..n).map(|_| g::<ArIdentity>(u)).collect();
    w.u32(ids.len() as u32);
    for id in ids {
        w.raw(&concordium_base::common::to_bytes(&id)).frs(u, 3); // com_enc_eq response
    }
    // proof_ip_sig: response_rho, u32 n, n x (Fr, Fr)
    w.fr(u);
    let k = small_len(u, 5);
    w.u32(k as u32).frs(u, 2 * k);
    w.frs(u, 5); // proof_reg_id (com_mult): ss[2], ts[2], t
    w.raw(&concordium_base::common::to_bytes(&g::<AccountOwnershipProof>(u)));
    range_proof_bytes(u, &mut w);
    let mut out = W::new();
    out.u32(w.0.len() as u32).raw(&w.0);
    out.0
}

chain!(CredDeploymentProofs<IpPairing, G1>, noeq, |u| dec("CredDeploymentProofs", &cred_proofs_bytes(u)));
chain!(Cdi, noeq, |u| CredentialDeploymentInfo { values: g(u), proofs: g(u) });
chain!(ICdi, noeq, |u| InitialCredentialDeploymentInfo { values: g(u), sig: g(u) });
chain!(Ac, noeq, |u| if gen::boolean(u) { AccountCredential::Normal { cdi: g(u) } } else { AccountCredential::Initial { icdi: g(u) } });
chain!(Acm, noeq, |u| AccountCredentialMessage { message_expiry: g(u), credential: g(u) });
chain!(Acwp, eq, |u| if gen::boolean(u) {
    AccountCredentialWithoutProofs::Normal { cdv: g(u), commitments: commitments(u) }
} else {
    AccountCredentialWithoutProofs::Initial { icdv: g(u) }
});

// ---------------------------------------------------------------------------------------------
// encrypted transfers

chain!(EncryptedAmount<G1>, eq, |u| EncryptedAmount { encryptions: [g(u), g(u)] });

/// SigmaProof<EncTransResponse>: challenge, response_common, u32 n, n x (Fr, Fr), u32 m, m x (Fr, Fr)
fn enc_trans_sigma_bytes(u: &mut U, w: &mut W) {
    w.raw(&gen::array::<32>(u)).fr(u);
    for _ in 0..2 {
        let n = small_len(u, 4);
        w.u32(n as u32).frs(u, 2 * n);
    }
}

chain!(EncryptedAmountTransferData<G1>, noeq, |u| {
    let mut w = W::new();
    enc_trans_sigma_bytes(u, &mut w);
    range_proof_bytes(u, &mut w);
    range_proof_bytes(u, &mut w);
    EncryptedAmountTransferData {
        remaining_amount: g(u),
        transfer_amount:  g(u),
        index:            EncryptedAmountAggIndex::from(gen::boundary_u64(u)),
        proof:            dec("EncryptedAmountTransferProof", &w.0),
    }
});
chain!(SecToPubAmountTransferData<G1>, noeq, |u| {
    let mut w = W::new();
    enc_trans_sigma_bytes(u, &mut w);
    range_proof_bytes(u, &mut w);
    SecToPubAmountTransferData {
        remaining_amount: g(u),
        transfer_amount:  g(u),
        index:            EncryptedAmountAggIndex::from(gen::boundary_u64(u)),
        proof:            dec("SecToPubAmountTransferProof", &w.0),
    }
});
chain!(concordium_base::eddsa_ed25519::Ed25519DlogProof, eq, |u| {
    let mut w = W::new();
    w.raw(&wire::ed_scalar_bytes(u)).raw(&wire::ed_scalar_bytes(u));
    dec("Ed25519DlogProof", &w.0)
});
