//! Wire-level primitives: valid encodings of scalars and group elements, produced from the choice
//! sequence. Group elements are `k*G` for generated scalars `k` (computed once into a table, then
//! combined by point addition), so every produced encoding is a valid, canonical, prime-order
//! subgroup element (or the canonical encoding of the identity).
use concordium_base::{
    common::{to_bytes, Deserial},
    curve_arithmetic::Curve,
    id::constants::{ArCurve, BlsG2},
};
use std::sync::OnceLock;
use vcore::{gen, Unstructured as U};

pub type G1 = ArCurve;
pub type G2 = BlsG2;

const TABLE: usize = 24;

struct Tables {
    g1:  Vec<G1>,
    g2:  Vec<G2>,
    g1b: Vec<[u8; 48]>,
    g2b: Vec<[u8; 96]>,
}

fn tables() -> &'static Tables {
    static T: OnceLock<Tables> = OnceLock::new();
    T.get_or_init(|| {
        // scalars: small ones, a few large "random" ones derived by squaring-and-adding; fixed.
        let mut ks: Vec<<G1 as Curve>::Scalar> = Vec::new();
        for k in [1u64, 2, 3, 5, 7, 11, 0xffff_ffff, u64::MAX] {
            ks.push(G1::scalar_from_u64(k));
        }
        let mut x = G1::scalar_from_u64(0x9e37_79b9_7f4a_7c15);
        while ks.len() < TABLE - 1 {
            use concordium_base::curve_arithmetic::Field;
            let mut y = x;
            y.square();
            y.add_assign(&G1::scalar_from_u64(ks.len() as u64 + 1));
            x = y;
            ks.push(x);
        }
        let mut g1: Vec<G1> = ks.iter().map(|k| G1::one_point().mul_by_scalar(k)).collect();
        let mut g2: Vec<G2> = ks.iter().map(|k| G2::one_point().mul_by_scalar(k)).collect();
        // the identity, canonically encoded, is a valid group element for the decoders
        g1.push(G1::zero_point());
        g2.push(G2::zero_point());
        let g1b = g1.iter().map(|p| to_bytes(p).try_into().expect("48 bytes")).collect();
        let g2b = g2.iter().map(|p| to_bytes(p).try_into().expect("96 bytes")).collect();
        Tables { g1, g2, g1b, g2b }
    })
}

/// Force table construction (so that the first measured case does not pay for it).
pub fn warm() { let _ = tables(); }

/// A valid G1 encoding. Mostly table entries (cheap); sometimes the sum of two entries.
pub fn g1_bytes(u: &mut U) -> [u8; 48] {
    let t = tables();
    let b = gen::byte(u);
    let i = (b as usize) % t.g1b.len();
    if b < 224 {
        t.g1b[i]
    } else {
        let j = gen::idx(u, t.g1.len());
        to_bytes(&t.g1[i].plus_point(&t.g1[j])).try_into().expect("48 bytes")
    }
}

pub fn g1(u: &mut U) -> G1 {
    let t = tables();
    let b = gen::byte(u);
    let i = (b as usize) % t.g1.len();
    if b < 224 {
        t.g1[i]
    } else {
        let j = gen::idx(u, t.g1.len());
        t.g1[i].plus_point(&t.g1[j])
    }
}

pub fn g2_bytes(u: &mut U) -> [u8; 96] {
    let t = tables();
    let b = gen::byte(u);
    let i = (b as usize) % t.g2b.len();
    if b < 240 {
        t.g2b[i]
    } else {
        let j = gen::idx(u, t.g2.len());
        to_bytes(&t.g2[i].plus_point(&t.g2[j])).try_into().expect("96 bytes")
    }
}

pub fn g2(u: &mut U) -> G2 {
    let t = tables();
    let b = gen::byte(u);
    let i = (b as usize) % t.g2.len();
    if b < 240 {
        t.g2[i]
    } else {
        let j = gen::idx(u, t.g2.len());
        t.g2[i].plus_point(&t.g2[j])
    }
}

/// r - 1 for the BLS12-381 scalar field, big endian.
const R_MINUS_1: [u8; 32] = [
    0x73, 0xed, 0xa7, 0x53, 0x29, 0x9d, 0x7d, 0x48, 0x33, 0x39, 0xd8, 0x08, 0x09, 0xa1, 0xd8, 0x05, 0x53, 0xbd, 0xa4, 0x02, 0xff,
    0xfe, 0x5b, 0xfe, 0xff, 0xff, 0xff, 0xff, 0x00, 0x00, 0x00, 0x00,
];

/// A canonical BLS12-381 scalar encoding (32 bytes big endian, value < r).
pub fn fr_bytes(u: &mut U) -> [u8; 32] {
    let mut out = [0u8; 32];
    match gen::byte(u) % 8 {
        0 => {}
        1 => out[31] = 1,
        2 => out = R_MINUS_1,
        3 => out[24..].copy_from_slice(&gen::boundary_u64(u).to_be_bytes()),
        _ => {
            out = gen::array::<32>(u);
            out[0] &= 0x3f; // < 2^254 < r
        }
    }
    out
}

pub fn fr(u: &mut U) -> <G1 as Curve>::Scalar { dec("Fr", &fr_bytes(u)) }

/// Canonical ed25519 scalar (little endian, < l).
pub fn ed_scalar_bytes(u: &mut U) -> [u8; 32] {
    let mut out = [0u8; 32];
    match gen::byte(u) % 4 {
        0 => {}
        1 => out[0] = 1,
        _ => {
            out = gen::array::<32>(u);
            out[31] &= 0x0f; // < 2^252 < l
        }
    }
    out
}

/// An ed25519 public key in the prime order subgroup (never small order), from a generated seed.
pub fn ed_pk(u: &mut U) -> ed25519_dalek::VerifyingKey {
    let seed: [u8; 32] = gen::array::<32>(u);
    ed25519_dalek::SigningKey::from_bytes(&seed).verifying_key()
}

/// Decode a value from an encoding that is valid by construction; all of it must be consumed.
/// A failure here means that a decoder rejects a valid encoding (or that the builder in this
/// crate is wrong); it is reported through the panic channel with a recognisable message.
pub fn dec<T: Deserial>(what: &str, bytes: &[u8]) -> T {
    let mut c = std::io::Cursor::new(bytes);
    match T::deserial(&mut c) {
        Ok(v) => {
            assert!(
                c.position() as usize == bytes.len(),
                "c05-builder: decoder of {what} consumed {} of {} bytes of a valid encoding",
                c.position(),
                bytes.len()
            );
            v
        }
        Err(e) => panic!("c05-builder: valid encoding of {what} rejected: {e:#} (bytes {})", gen::hex(bytes)),
    }
}

/// Byte writer used to assemble encodings of types whose fields are private.
#[derive(Default)]
pub struct W(pub Vec<u8>);

impl W {
    pub fn new() -> Self { W(Vec::new()) }

    pub fn u8(&mut self, x: u8) -> &mut Self {
        self.0.push(x);
        self
    }

    pub fn u16(&mut self, x: u16) -> &mut Self {
        self.0.extend_from_slice(&x.to_be_bytes());
        self
    }

    pub fn u32(&mut self, x: u32) -> &mut Self {
        self.0.extend_from_slice(&x.to_be_bytes());
        self
    }

    pub fn u64(&mut self, x: u64) -> &mut Self {
        self.0.extend_from_slice(&x.to_be_bytes());
        self
    }

    pub fn raw(&mut self, b: &[u8]) -> &mut Self {
        self.0.extend_from_slice(b);
        self
    }

    pub fn fr(&mut self, u: &mut U) -> &mut Self {
        let b = fr_bytes(u);
        self.raw(&b)
    }

    pub fn frs(&mut self, u: &mut U, n: usize) -> &mut Self {
        for _ in 0..n {
            self.fr(u);
        }
        self
    }

    pub fn g1(&mut self, u: &mut U) -> &mut Self {
        let b = g1_bytes(u);
        self.raw(&b)
    }

    pub fn g1s(&mut self, u: &mut U, n: usize) -> &mut Self {
        for _ in 0..n {
            self.g1(u);
        }
        self
    }

    pub fn g2(&mut self, u: &mut U) -> &mut Self {
        let b = g2_bytes(u);
        self.raw(&b)
    }
}

/// Small collection size: 0, 1, 2, 3 mostly; up to `max` sometimes.
pub fn small_len(u: &mut U, max: usize) -> usize {
    let b = gen::byte(u);
    match b % 8 {
        0 => 0,
        1 | 2 => 1,
        3 | 4 => 2.min(max),
        5 => 3.min(max),
        6 => gen::range_usize(u, 0, max.min(8)),
        _ => gen::range_usize(u, 0, max),
    }
}

/// ASCII string from an alphabet, length 0..=max (biased short).
pub fn ascii(u: &mut U, alphabet: &[u8], min: usize, max: usize) -> String {
    let n = min + small_len(u, max - min);
    let mut s = String::with_capacity(n);
    for _ in 0..n {
        s.push(alphabet[gen::idx(u, alphabet.len())] as char);
    }
    s
}

/// Valid UTF-8 string with some multi-byte characters, at most `max` *bytes*.
/// A long string (lo..hi bytes) for the chunked readers: ASCII or, half of the time, multi-byte
/// characters at every alignment (an ASCII shift of 0..3 bytes, then a cycle of 2-, 3- and 4-byte
/// characters), so that characters straddle every chunk boundary.
pub fn long_utf8(u: &mut U, lo: usize, hi: usize, ascii: char) -> String {
    let n = gen::range_usize(u, lo, hi);
    let sel = gen::byte(u);
    let mut s = String::with_capacity(n + 4);
    if sel & 1 == 0 {
        while s.len() < n {
            s.push(ascii);
        }
        return s;
    }
    for _ in 0..((sel >> 1) % 4) {
        s.push('y');
    }
    let fills: &[&str] = match (sel >> 3) % 3 {
        0 => &["é"],
        1 => &["é", "€", "😀"],
        _ => &["漢"],
    };
    let mut i = 0;
    while s.len() < n {
        s.push_str(fills[i % fills.len()]);
        i += 1;
    }
    s
}

pub fn utf8(u: &mut U, max: usize) -> String {
    const CH: [&str; 12] = ["a", "Z", "0", " ", "/", ":", ".", "é", "ß", "€", "漢", "😀"];
    let n = small_len(u, max);
    let mut s = String::new();
    for _ in 0..n {
        let c = CH[gen::idx(u, CH.len())];
        if s.len() + c.len() > max {
            break;
        }
        s.push_str(c);
    }
    s
}
