#![no_main]
//! Coverage-guided driver for the byte-level target of C05 (`raw`): the fuzz input is
//! [two bytes: weighted type choice][decoder input] (or [0xff][name length][type name][input]);
//! the oracle (no panic, allocation bound, canonicity) is the one of the proptest-driven check.
//! A violation aborts so that libFuzzer saves the input, which is then a replay file for
//! `bin/check C05 quick --replay <file> --target raw`.
use libfuzzer_sys::fuzz_target;
use std::sync::OnceLock;

// needed by vcore::alloc::measure (the allocation-bound oracle)
#[global_allocator]
static A: vcore::alloc::Counting = vcore::alloc::Counting;

static TARGET: OnceLock<vcore::Target> = OnceLock::new();

fuzz_target!(|data: &[u8]| {
    let t = TARGET.get_or_init(c05::raw_target);
    vcore::fuzz_one("C05", t, data);
});
