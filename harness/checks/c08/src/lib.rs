//! C08 — Identity credentials: issuance verifies, tampering fails, anonymity revocable.
//!
//! Targets
//!   * `pipeline`: a generated configuration (identity provider, anonymity revokers with arbitrary
//!     non-zero identities, chosen revoker subset, threshold, attribute list, policy, credential
//!     counter, v0/v1 identity object, new/existing account, account keys) is run through the real
//!     pipeline `generate_pio(_v1)` -> `validate_request(_v1)` -> `sign_identity_object(_v1)` ->
//!     `create_credential` -> (wire round trip) -> `verify_cdi`. Then every subset of the chosen
//!     revokers decrypts its shares and the interpolated value is compared with the holder's
//!     `idCredPub` / PRF key, and every single-field perturbation of the credential, of the signed
//!     message context and of the key lookup must make `verify_cdi` fail.
//!   * `sharing`: the sharing layer on its own (`compute_sharing_data`, `share`, `reveal`,
//!     `reveal_in_group`, `commitment_to_share`) over many more configurations than the expensive
//!     pipeline allows, including 2^32-1 sized share points and up to 10 revokers.
use concordium_base::{
    common::{
        from_bytes, to_bytes,
        types::{KeyIndex, KeyPair, TransactionTime},
        Deserial, Serial,
    },
    curve_arithmetic::{Curve, Field, Value},
    elgamal::{self, BabyStepGiantStep, Message},
    id::{
        account_holder::{
            commitment_to_share_and_rand, compute_sharing_data, create_credential, generate_pio,
            generate_pio_v1_with_rng,
        },
        anonymity_revoker::{reveal_id_cred_pub, reveal_prf_key},
        chain::{verify_cdi, verify_initial_cdi},
        constants::{ArCurve, AttributeKind, BaseField, IpPairing},
        identity_provider::{
            create_initial_cdi, sign_identity_object, sign_identity_object_v1_with_rng,
            validate_request, validate_request_v1,
        },
        secret_sharing::{reveal, reveal_in_group, share, Threshold},
        test::{test_create_id_use_data, test_create_ip_info},
        types::*,
        utils::{commitment_to_share, evaluate_poly},
    },
    pedersen_commitment::{Commitment, Randomness as PedersenRandomness},
};
use either::Either;
use rand::{Rng, RngCore};
use rand_chacha::ChaCha20Rng;
use std::{
    collections::{BTreeMap, BTreeSet},
    convert::TryFrom,
    sync::OnceLock,
};
use vcore::{gen, vensure, CheckResult, Ctx, Property, Target, Tier, Unstructured, Violation};

type Cdi = CredentialDeploymentInfo<IpPairing, ArCurve, AttributeKind>;
type Noe = Either<TransactionTime, AccountAddress>;
type ArMap = BTreeMap<ArIdentity, ArInfo<ArCurve>>;
type AList = AttributeList<BaseField, AttributeKind>;

// ------------------------------------------------------------------------------------------
// Shared, case-independent data

fn base_global() -> &'static GlobalContext<ArCurve> {
    static G: OnceLock<GlobalContext<ArCurve>> = OnceLock::new();
    G.get_or_init(|| GlobalContext::generate(String::from("genesis_string")))
}

/// log2 of the baby-step table used to decrypt the 32-bit chunks of PRF key shares.
const BSGS_BITS: u32 = 18;

fn bsgs() -> &'static BabyStepGiantStep<ArCurve> {
    static T: OnceLock<BabyStepGiantStep<ArCurve>> = OnceLock::new();
    T.get_or_init(|| {
        let h = *base_global().encryption_in_exponent_generator();
        BabyStepGiantStep::new(&h, 1u64 << BSGS_BITS)
    })
}

// ------------------------------------------------------------------------------------------
// Configuration

#[derive(Debug, Clone, Copy, PartialEq, Eq, Hash)]
enum CounterChoice {
    Zero,
    One,
    MaxMinusOne,
    Max,
    MaxPlusOne,
}

#[derive(Debug, Clone, Hash)]
struct Config {
    seed:          u64,
    pert_seed:     u64,
    /// identities of all anonymity revokers known to the identity provider and the chain
    ar_ids:        Vec<u32>,
    /// indices into `ar_ids` of the revokers chosen by the holder (non-empty, ascending)
    chosen:        Vec<usize>,
    threshold:     u8,
    attrs:         Vec<(u8, String)>,
    revealed:      Vec<u8>,
    valid_to:      (u16, u8),
    created_at:    (u16, u8),
    max_accounts:  u8,
    counter:       CounterChoice,
    v1:            bool,
    existing:      Option<[u8; 32]>,
    expiry:        u64,
    key_indices:   Vec<u8>,
    sig_threshold: u8,
    init_keys:     Vec<u8>,
    init_sig_thr:  u8,
    /// extra length of the identity provider's PS key beyond the minimum that works
    ps_slack_ars:  u8,
    ps_slack_attr: u8,
    /// create the credential with the provider's full revoker list (true) or the chosen ones only
    full_context:  bool,
    genesis:       u8,
    /// decrypt PRF key shares to scalars (baby-step giant-step) and call `reveal_prf_key`
    prf_scalar:    bool,
}

impl Config {
    fn counter_value(&self) -> u16 {
        let m = self.max_accounts as u16;
        match self.counter {
            CounterChoice::Zero => 0,
            CounterChoice::One => 1.min(m),
            CounterChoice::MaxMinusOne => m.saturating_sub(1),
            CounterChoice::Max => m,
            CounterChoice::MaxPlusOne => m + 1,
        }
    }

    fn negative(&self) -> bool { self.counter == CounterChoice::MaxPlusOne }
}

const YEARS: [u16; 8] = [2020, 1000, 9999, 2022, 1001, 9998, 1999, 2100];
const MONTHS: [u8; 4] = [5, 1, 12, 6];

fn distinct_u8(u: &mut Unstructured, n: usize, small_bias: bool, max: u8) -> Vec<u8> {
    let mut set = BTreeSet::new();
    let mut out = Vec::new();
    for i in 0..n {
        let raw = gen::byte(u);
        let mut v = if small_bias && raw & 0x80 == 0 {
            // small tags / indices, increasing with position so that zeros give 0,1,2,..
            (raw & 0x0f).wrapping_add(i as u8)
        } else if raw == 0xff {
            max
        } else {
            raw
        };
        if v > max {
            v %= max.wrapping_add(1).max(1);
        }
        while !set.insert(v) {
            v = if v >= max { 0 } else { v + 1 };
        }
        out.push(v);
    }
    out
}

fn attr_value(u: &mut Unstructured) -> String {
    let n = match gen::byte(u) % 8 {
        0 => 0,
        1 => 1,
        2 | 3 => gen::range_usize(u, 0, 8),
        4 | 5 => gen::range_usize(u, 0, 31),
        6 => 30,
        _ => 31,
    };
    let mode = gen::byte(u) % 4;
    let mut s = String::new();
    while s.len() < n {
        let b = gen::byte(u);
        let room = n - s.len();
        let c = match mode {
            // printable ASCII
            0 | 1 => (0x20 + b % 0x5f) as char,
            // any 7-bit character including NUL and DEL
            2 => (b & 0x7f) as char,
            // multi-byte UTF-8 where it fits
            _ => match (b % 3, room) {
                (1, 2..) => 'é',
                (2, 3..) => '€',
                _ => (0x20 + b % 0x5f) as char,
            },
        };
        s.push(c);
    }
    s
}

fn decode(u: &mut Unstructured, tier: Tier) -> Config {
    // fixed-size header first, so that short choice sequences still vary the structure
    let seed = gen::u64v(u);
    let pert_seed = gen::u64v(u);
    let nb = gen::byte(u);
    let n_total = match tier {
        Tier::Quick => {
            if nb >= 0xf4 {
                8
            } else {
                1 + (nb as usize % 6)
            }
        }
        Tier::Thorough => 1 + (nb as usize % 10),
    };
    let chosen_mask = gen::u16v(u);
    let thr_raw = gen::byte(u);
    let counter = match gen::byte(u) % 5 {
        0 => CounterChoice::Zero,
        1 => CounterChoice::One,
        2 => CounterChoice::MaxMinusOne,
        3 => CounterChoice::Max,
        _ => CounterChoice::MaxPlusOne,
    };
    let max_accounts = match gen::byte(u) % 8 {
        0 => 237,
        1 => 0,
        2 => 1,
        3 => 255,
        4 => 254,
        5 => 2,
        _ => gen::byte(u),
    };
    let flags = gen::byte(u);
    let v1 = flags & 1 != 0;
    let is_existing = flags & 2 != 0;
    let full_context = flags & 4 == 0;
    let prf_scalar = flags & 0x18 == 0x18;
    let n_attrs = match gen::byte(u) % 12 {
        0 => 0,
        x => (x as usize) % 9,
    };
    let reveal_mask = gen::u16v(u);
    let n_keys = 1 + gen::byte(u) as usize % 3;
    let sig_thr_raw = gen::byte(u);
    let n_init = 1 + gen::byte(u) as usize % 3;
    let init_thr_raw = gen::byte(u);
    let id_mode = gen::byte(u) % 4;
    let dates = gen::u16v(u);
    let slack = gen::byte(u);
    let genesis = gen::byte(u) % 3;

    // revoker identities: distinct, non-zero
    let mut ids: Vec<u32> = Vec::new();
    for i in 0..n_total {
        let mut v = match id_mode {
            0 => (i + 1) as u32,
            1 => match gen::byte(u) % 6 {
                0 => u32::MAX - i as u32,
                1 => 1u32 << (gen::byte(u) % 32),
                2 => (1u32 << 31) + i as u32,
                3 => 0xffff + i as u32,
                _ => gen::u32v(u),
            },
            2 => gen::u32v(u),
            _ => 1 + (gen::byte(u) as u32 % 16),
        };
        if v == 0 {
            v = 1;
        }
        while ids.contains(&v) {
            v = if v == u32::MAX { 1 } else { v + 1 };
        }
        ids.push(v);
    }
    // the top two bits of the mask select the mode: all revokers (half of the cases), all but one,
    // or an arbitrary non-empty subset
    let mut chosen: Vec<usize> = match chosen_mask >> 14 {
        0 | 1 => (0..n_total).collect(),
        2 if n_total >= 2 => {
            let skip = (chosen_mask as usize & 0xff) % n_total;
            (0..n_total).filter(|i| *i != skip).collect()
        }
        _ => (0..n_total).filter(|i| chosen_mask >> i & 1 == 1).collect(),
    };
    if chosen.is_empty() {
        chosen = (0..n_total).collect();
    }
    let n = chosen.len();
    let threshold = match thr_raw % 8 {
        0 => 1,
        1 => n as u8,
        2 => (n as u8).saturating_sub(1).max(1),
        _ => 1 + (thr_raw / 8) % n as u8,
    };

    let tags = distinct_u8(u, n_attrs, true, 253);
    let mut attrs: Vec<(u8, String)> = tags.into_iter().map(|t| (t, attr_value(u))).collect();
    attrs.sort();
    let revealed: Vec<u8> = attrs.iter().enumerate().filter(|(i, _)| reveal_mask >> i & 1 == 1).map(|(_, (t, _))| *t).collect();

    let key_indices = {
        let mut k = distinct_u8(u, n_keys, true, 255);
        k.sort();
        k
    };
    let init_keys = {
        let mut k = distinct_u8(u, n_init, true, 255);
        k.sort();
        k
    };
    let existing = if is_existing { Some(gen::array::<32>(u)) } else { None };
    let expiry = gen::boundary_u64(u);

    Config {
        seed,
        pert_seed,
        ar_ids: ids,
        chosen,
        threshold,
        attrs,
        revealed,
        valid_to: (YEARS[(dates & 7) as usize], MONTHS[(dates >> 3 & 3) as usize]),
        created_at: (YEARS[(dates >> 5 & 7) as usize], MONTHS[(dates >> 8 & 3) as usize]),
        max_accounts,
        counter,
        v1,
        existing,
        expiry,
        sig_threshold: 1 + sig_thr_raw % n_keys as u8,
        key_indices,
        init_sig_thr: 1 + init_thr_raw % n_init as u8,
        init_keys,
        ps_slack_ars: match slack & 3 {
            0 => 0,
            x => x,
        },
        ps_slack_attr: slack >> 2 & 3,
        full_context,
        genesis,
        prf_scalar,
    }
}

// ------------------------------------------------------------------------------------------
// Byte-level perturbation helpers (most proof structs have private fields; a perturbed value is
// produced by re-serialising with one well-formed component replaced by a different well-formed one)

fn bump_scalar(bytes: &mut [u8], off: usize) {
    let mut s: BaseField = from_bytes(&mut &bytes[off..off + 32]).expect("harness: scalar layout");
    s.add_assign(&BaseField::one());
    bytes[off..off + 32].copy_from_slice(&to_bytes(&s));
}

fn bump_g1(bytes: &mut [u8], off: usize) {
    let p: ArCurve = from_bytes(&mut &bytes[off..off + 48]).expect("harness: point layout");
    let q = p.plus_point(&ArCurve::one_point());
    bytes[off..off + 48].copy_from_slice(&to_bytes(&q));
}

fn reser<T: Serial + Deserial>(x: &T, f: impl FnOnce(&mut Vec<u8>)) -> T {
    let mut b = to_bytes(x);
    let orig = b.clone();
    f(&mut b);
    assert!(b != orig, "harness: perturbation did not change the encoding");
    let mut cur = std::io::Cursor::new(&b[..]);
    let y: T = from_bytes(&mut cur).expect("harness: perturbed component must deserialise");
    assert_eq!(cur.position() as usize, b.len(), "harness: trailing bytes after perturbed component");
    y
}

fn g1_other(p: &ArCurve) -> ArCurve { p.plus_point(&ArCurve::one_point()) }

// ------------------------------------------------------------------------------------------
// The world of one case

struct World {
    global:     GlobalContext<ArCurve>,
    ip:         IpData<IpPairing>,
    ars:        ArMap,
    ar_secrets: BTreeMap<ArIdentity, elgamal::SecretKey<ArCurve>>,
    chosen_ars: ArMap,
    alist:      AList,
    policy:     Policy<ArCurve, AttributeKind>,
    noe:        Noe,
}

fn ym(x: (u16, u8)) -> YearMonth { YearMonth::new(x.0, x.1).expect("harness: year/month table is in range") }

fn make_keys(idx: &[u8], rng: &mut ChaCha20Rng) -> BTreeMap<KeyIndex, KeyPair> {
    idx.iter().map(|i| (KeyIndex(*i), KeyPair::generate(rng))).collect()
}

fn build_world(cfg: &Config, rng: &mut ChaCha20Rng) -> World {
    let mut global = base_global().clone();
    global.genesis_string = match cfg.genesis {
        0 => String::from("genesis_string"),
        1 => String::new(),
        _ => String::from("Concordium Testnet Ⅳ"),
    };
    let n_chosen = cfg.chosen.len();
    // number of scalars encoding the chosen revokers (7 identities per scalar)
    let m = n_chosen.div_ceil(7).max(1);
    let ip = test_create_ip_info(rng, m as u8 + cfg.ps_slack_ars, cfg.attrs.len() as u8 + 1 + cfg.ps_slack_attr);
    let mut ars = BTreeMap::new();
    let mut ar_secrets = BTreeMap::new();
    for id in cfg.ar_ids.iter() {
        let ar_id = ArIdentity::new(*id);
        let sk = elgamal::SecretKey::generate(&global.on_chain_commitment_key.g, rng);
        let pk = elgamal::PublicKey::from(&sk);
        ars.insert(ar_id, ArInfo::<ArCurve> {
            ar_identity:    ar_id,
            ar_description: Description { name: format!("AR{id}"), url: format!("ar{id}.example"), description: String::new() },
            ar_public_key:  pk,
        });
        ar_secrets.insert(ar_id, sk);
    }
    let chosen_ars: ArMap =
        cfg.chosen.iter().map(|i| ArIdentity::new(cfg.ar_ids[*i])).map(|id| (id, ars[&id].clone())).collect();
    let alist = AList {
        valid_to:     ym(cfg.valid_to),
        created_at:   ym(cfg.created_at),
        max_accounts: cfg.max_accounts,
        alist:        cfg
            .attrs
            .iter()
            .map(|(t, v)| (AttributeTag(*t), AttributeKind::try_new(v.clone()).expect("harness: attribute values are at most 31 bytes")))
            .collect(),
        _phantom:     Default::default(),
    };
    let policy = Policy {
        valid_to:   alist.valid_to,
        created_at: alist.created_at,
        policy_vec: cfg.revealed.iter().map(|t| (AttributeTag(*t), alist.alist[&AttributeTag(*t)].clone())).collect(),
        _phantom:   Default::default(),
    };
    let noe: Noe = match cfg.existing {
        Some(a) => Either::Right(AccountAddress(a)),
        None => Either::Left(TransactionTime { seconds: cfg.expiry }),
    };
    World { global, ip, ars, ar_secrets, chosen_ars, alist, policy, noe }
}

fn subset<T: Clone>(xs: &[T], mask: u32) -> Vec<T> {
    xs.iter().enumerate().filter(|(i, _)| mask >> i & 1 == 1).map(|(_, x)| x.clone()).collect()
}

fn fail(oracle: &str, sig: String, detail: String) -> CheckResult { Err(Violation::new(oracle, detail).with_signature(format!("{oracle}:{sig}"))) }

// ------------------------------------------------------------------------------------------
// Target: pipeline

fn t_pipeline(data: &[u8], ctx: &mut Ctx) -> CheckResult {
    let mut u = Unstructured::new(data);
    let cfg = decode(&mut u, ctx.tier);
    let n = cfg.chosen.len();
    let t = cfg.threshold as usize;

    ctx.class(if cfg.v1 { "id-object=v1" } else { "id-object=v0" });
    ctx.class(if cfg.existing.is_some() { "account=existing" } else { "account=new" });
    ctx.class(&format!("revokers-chosen={n}"));
    ctx.class(if t == n {
        "threshold=all"
    } else if t == 1 {
        "threshold=1<n"
    } else {
        "threshold=1<t<n"
    });
    ctx.class(match cfg.counter {
        CounterChoice::Zero => "counter=0",
        CounterChoice::One => "counter=1",
        CounterChoice::MaxMinusOne => "counter=max-1",
        CounterChoice::Max => "counter=max",
        CounterChoice::MaxPlusOne => "counter=max+1(negative)",
    });
    ctx.class(if cfg.attrs.is_empty() {
        "policy=no-attributes"
    } else if cfg.revealed.is_empty() {
        "policy=nothing-revealed"
    } else if cfg.revealed.len() == cfg.attrs.len() {
        "policy=all-revealed"
    } else {
        "policy=proper-subset-revealed"
    });
    ctx.class(&format!("account-keys={}", cfg.key_indices.len()));
    if cfg.ar_ids.iter().any(|x| *x > 0xffff) {
        ctx.class("revoker-identity>16bit");
    }
    if cfg.chosen.len() < cfg.ar_ids.len() {
        ctx.class("revokers-proper-subset-chosen");
    }
    if cfg.attrs.iter().any(|(_, v)| v.len() == 31) {
        ctx.class("attribute-max-length");
    }
    let boundary_counter = matches!(cfg.counter, CounterChoice::MaxMinusOne | CounterChoice::Max | CounterChoice::MaxPlusOne);
    if (t < n && !cfg.revealed.is_empty()) || boundary_counter {
        ctx.class("nontrivial");
        ctx.nontrivial(&cfg);
    }
    ctx.sample(|| format!("{cfg:?}"));
    ctx.describe(|| format!("{cfg:#?}"));

    let mut rng = {
        use rand::SeedableRng;
        ChaCha20Rng::seed_from_u64(cfg.seed)
    };
    let w = build_world(&cfg, &mut rng);
    let g = w.global.on_chain_commitment_key.g;
    let h = *w.global.encryption_in_exponent_generator();
    let id_use_data = test_create_id_use_data(&mut rng);
    let id_cred_sec: BaseField = *id_use_data.aci.cred_holder_info.id_cred.id_cred_sec;
    let prf_key: BaseField = *id_use_data.aci.prf_key;
    let id_cred_pub = g.mul_by_scalar(&id_cred_sec);
    let thr = Threshold::try_new(cfg.threshold).expect("harness: threshold >= 1");

    let holder_ctx = IpContext::new(&w.ip.public_ip_info, &w.chosen_ars, &w.global);
    let ip_ctx = IpContext::new(&w.ip.public_ip_info, &w.ars, &w.global);

    // --- identity issuance ---------------------------------------------------------------
    enum IdObj {
        V0(IdentityObject<IpPairing, ArCurve, AttributeKind>),
        V1(IdentityObjectV1<IpPairing, ArCurve, AttributeKind>),
    }
    let id_object = if !cfg.v1 {
        let init = InitialAccountData {
            keys:      make_keys(&cfg.init_keys, &mut rng),
            threshold: SignatureThreshold::try_from(cfg.init_sig_thr).expect("harness: sig threshold >= 1"),
        };
        let Some((pio, randomness)) = generate_pio(&holder_ctx, thr, &id_use_data, &init) else {
            return fail("request-generation", "v0".into(), "generate_pio returned None on a valid configuration".into());
        };
        vensure!(*randomness == *id_use_data.randomness, "request-generation", "generate_pio returned a signature retrieval randomness different from the one in IdObjectUseData");
        vensure!(pio.pub_info_for_ip.id_cred_pub == id_cred_pub, "request-generation", "idCredPub in the request is not g^idCredSec");
        if let Err(e) = validate_request(&pio, ip_ctx) {
            return fail("request-accepted", "v0".into(), format!("validate_request rejected an honestly generated request: {e:?}"));
        }
        let sig = match sign_identity_object(&pio, &w.ip.public_ip_info, &w.alist, &w.ip.ip_secret_key) {
            Ok(s) => s,
            Err(e) => return fail("request-accepted", "v0-sign".into(), format!("sign_identity_object failed: {e:?}")),
        };
        // the initial account created by the provider
        let expiry = TransactionTime { seconds: cfg.expiry };
        let icdi = create_initial_cdi(&w.ip.public_ip_info, pio.pub_info_for_ip.clone(), &w.alist, expiry, &w.ip.ip_cdi_secret_key);
        let icdi: InitialCredentialDeploymentInfo<ArCurve, AttributeKind> = reser_same(&icdi);
        vensure!(verify_initial_cdi(&w.ip.public_ip_info, &icdi, expiry).is_ok(), "initial-cdi-accepted", "verify_initial_cdi rejected the provider's initial credential");
        {
            let other = TransactionTime { seconds: cfg.expiry ^ 1 };
            vensure!(verify_initial_cdi(&w.ip.public_ip_info, &icdi, other).is_err(), "initial-cdi-tamper", "initial credential verifies under a different expiry");
            let mut x = icdi.clone();
            x.values.reg_id = g1_other(&x.values.reg_id);
            vensure!(verify_initial_cdi(&w.ip.public_ip_info, &x, expiry).is_err(), "initial-cdi-tamper", "initial credential verifies with a different regId");
            let mut x = icdi.clone();
            x.values.ip_identity = IpIdentity(x.values.ip_identity.0 + 1);
            vensure!(verify_initial_cdi(&w.ip.public_ip_info, &x, expiry).is_err(), "initial-cdi-tamper", "initial credential verifies with a different ipIdentity");
            let mut other_ip = w.ip.public_ip_info.clone();
            other_ip.ip_cdi_verify_key = ed25519_dalek::SigningKey::generate(&mut rng).verifying_key();
            vensure!(verify_initial_cdi(&other_ip, &icdi, expiry).is_err(), "initial-cdi-tamper", "initial credential verifies under a different provider key");
        }
        IdObj::V0(IdentityObject { pre_identity_object: pio, alist: w.alist.clone(), signature: sig })
    } else {
        let Some((pio, randomness)) = generate_pio_v1_with_rng(&holder_ctx, thr, &id_use_data, &mut rng) else {
            return fail("request-generation", "v1".into(), "generate_pio_v1 returned None on a valid configuration".into());
        };
        vensure!(*randomness == *id_use_data.randomness, "request-generation", "generate_pio_v1 returned a signature retrieval randomness different from the one in IdObjectUseData");
        vensure!(pio.id_cred_pub == id_cred_pub, "request-generation", "idCredPub in the request is not g^idCredSec");
        if let Err(e) = validate_request_v1(&pio, ip_ctx) {
            return fail("request-accepted", "v1".into(), format!("validate_request_v1 rejected an honestly generated request: {e:?}"));
        }
        let sig = match sign_identity_object_v1_with_rng(&pio, &w.ip.public_ip_info, &w.alist, &w.ip.ip_secret_key, &mut rng) {
            Ok(s) => s,
            Err(e) => return fail("request-accepted", "v1-sign".into(), format!("sign_identity_object_v1 failed: {e:?}")),
        };
        IdObj::V1(IdentityObjectV1 { pre_identity_object: pio, alist: w.alist.clone(), signature: sig })
    };

    // --- anonymity revocation at the identity provider: PRF key shares ---------------------
    let chosen_ids: Vec<ArIdentity> = w.chosen_ars.keys().copied().collect();
    {
        let (ip_ar_data, choice) = match &id_object {
            IdObj::V0(o) => (&o.pre_identity_object.ip_ar_data, &o.pre_identity_object.choice_ar_parameters),
            IdObj::V1(o) => (&o.pre_identity_object.ip_ar_data, &o.pre_identity_object.choice_ar_parameters),
        };
        vensure!(choice.threshold == thr && choice.ar_identities.iter().copied().collect::<Vec<_>>() == chosen_ids, "request-generation", "choice of revokers in the request differs from the holder's choice");
        vensure!(ip_ar_data.keys().copied().collect::<Vec<_>>() == chosen_ids, "request-generation", "PRF key share encryptions are not for exactly the chosen revokers");
        // shares in the exponent: each revoker decrypts its 8 chunks; sum_j 2^(32 j) h^chunk_j = h^share
        let two32 = ArCurve::scalar_from_u64(1u64 << 32);
        let mut group_shares: Vec<(ArIdentity, ArCurve)> = Vec::new();
        for id in chosen_ids.iter() {
            let sk = &w.ar_secrets[id];
            let mut acc = ArCurve::zero_point();
            for c in ip_ar_data[id].enc_prf_key_share.iter().rev() {
                acc = acc.mul_by_scalar(&two32).plus_point(&sk.decrypt(c).value);
            }
            group_shares.push((*id, acc));
        }
        let expected = h.mul_by_scalar(&prf_key);
        for mask in 0u32..(1 << n) {
            let s = subset(&group_shares, mask);
            let got = reveal_in_group(&s);
            if s.len() >= t {
                if got != expected {
                    return fail("prf-key-revocation", "threshold-subset-wrong".into(), format!("revokers {:?} (>= threshold {t}) reconstruct a PRF key (in the exponent) different from the holder's", s.iter().map(|x| x.0).collect::<Vec<_>>()));
                }
            } else if !s.is_empty() && got == expected {
                return fail("prf-key-revocation", "below-threshold-reveals".into(), format!("revokers {:?} (< threshold {t}) already reconstruct the PRF key", s.iter().map(|x| x.0).collect::<Vec<_>>()));
            }
        }
        ctx.class_n("prf-subsets-checked", 1 << n);
        if cfg.prf_scalar && t <= 3 {
            // the real revocation path: discrete logs of the chunks, then `reveal_prf_key`, for one
            // subset of exactly `t` revokers (picked by the case)
            ctx.class("prf-scalar-reveal");
            let table = bsgs();
            let mut all: Vec<(ArIdentity, Value<ArCurve>)> = Vec::new();
            let mut pr = {
                use rand::SeedableRng;
                ChaCha20Rng::seed_from_u64(cfg.pert_seed ^ 0x5eed)
            };
            let mut pick: Vec<ArIdentity> = chosen_ids.clone();
            while pick.len() > t {
                let i = pr.gen_range(0..pick.len());
                pick.remove(i);
            }
            for id in pick.iter() {
                let sk = &w.ar_secrets[id];
                let v = elgamal::decrypt_from_chunks_given_table(sk, &ip_ar_data[id].enc_prf_key_share, table, CHUNK_SIZE);
                all.push((*id, v));
            }
            let got = reveal_prf_key(&all);
            if got != prf_key {
                return fail("prf-key-revocation", "scalar-reveal-wrong".into(), format!("reveal_prf_key over decrypted shares of revokers {pick:?} differs from the holder's PRF key"));
            }
            if t >= 2 {
                let fewer = &all[..t - 1];
                if reveal_prf_key(fewer) == prf_key {
                    return fail("prf-key-revocation", "scalar-below-threshold-reveals".into(), "t-1 decrypted shares already give the PRF key".into());
                }
            }
        }
    }

    // --- credential creation -----------------------------------------------------------------
    let cred_data = CredentialData {
        keys:      make_keys(&cfg.key_indices, &mut rng),
        threshold: SignatureThreshold::try_from(cfg.sig_threshold).expect("harness: sig threshold >= 1"),
    };
    let cred_ctx = if cfg.full_context { ip_ctx } else { holder_ctx };
    let counter16 = cfg.counter_value();
    if cfg.negative() {
        if counter16 > 255 {
            ctx.class("negative-counter-not-representable");
            return Ok(());
        }
        let counter = counter16 as u8;
        // creation must fail, or produce something the chain rejects
        let r = vcore::catch(|| match &id_object {
            IdObj::V0(o) => create_credential(cred_ctx, o, &id_use_data, counter, w.policy.clone(), &cred_data, &SystemAttributeRandomness {}, &w.noe),
            IdObj::V1(o) => create_credential(cred_ctx, o, &id_use_data, counter, w.policy.clone(), &cred_data, &SystemAttributeRandomness {}, &w.noe),
        });
        match r {
            Err(msg) => {
                // Observation (see NOTES.md): with overflow checks the subtraction `b - a` in
                // `prove_less_than_or_equal` panics; without them it wraps and the proof is invalid.
                if msg.contains("overflow") && msg.contains("range_proof.rs") {
                    ctx.class("negative-counter:creation-panics-on-underflow");
                } else {
                    return Err(Violation::new("panic", format!("create_credential with counter {counter} > max_accounts {} panicked unexpectedly: {msg}", cfg.max_accounts)).with_signature("panic:create_credential-negative-counter"));
                }
            }
            Ok(Err(_)) => ctx.class("negative-counter:creation-fails"),
            Ok(Ok((cdi, _))) => {
                ctx.class("negative-counter:created");
                if verify_cdi(&w.global, &w.ip.public_ip_info, &w.ars, &cdi, &w.noe).is_ok() {
                    return fail("counter-limit", "above-max-accepted".into(), format!("credential with counter {counter} > max_accounts {} is accepted by verify_cdi", cfg.max_accounts));
                }
            }
        }
        return Ok(());
    }
    let counter = counter16 as u8;
    let created = match &id_object {
        IdObj::V0(o) => create_credential(cred_ctx, o, &id_use_data, counter, w.policy.clone(), &cred_data, &SystemAttributeRandomness {}, &w.noe),
        IdObj::V1(o) => create_credential(cred_ctx, o, &id_use_data, counter, w.policy.clone(), &cred_data, &SystemAttributeRandomness {}, &w.noe),
    };
    let (cdi_made, _rands) = match created {
        Ok(x) => x,
        Err(e) => return fail("credential-created", "error".into(), format!("create_credential failed on a valid configuration: {e}")),
    };
    // the chain sees the wire format
    let cdi: Cdi = reser_same(&cdi_made);
    if let Err(e) = verify_cdi(&w.global, &w.ip.public_ip_info, &w.ars, &cdi, &w.noe) {
        return fail("credential-accepted", format!("{e:?}"), format!("verify_cdi rejected an honestly created credential: {e:?}"));
    }
    // the lookup only needs to be a superset of the revokers in the credential (doc of verify_cdi)
    if let Err(e) = verify_cdi(&w.global, &w.ip.public_ip_info, &w.chosen_ars, &cdi, &w.noe) {
        return fail("credential-accepted", format!("exact-lookup-{e:?}"), format!("verify_cdi rejected the credential when the lookup holds exactly its revokers: {e:?}"));
    }
    // what the credential says about itself
    vensure!(cdi.values.threshold == thr, "credential-created", "revocation threshold in the credential differs from the chosen one");
    vensure!(cdi.values.ar_data.keys().copied().collect::<Vec<_>>() == chosen_ids, "credential-created", "revokers in the credential differ from the chosen ones");
    vensure!(cdi.values.policy == w.policy, "credential-created", "policy in the credential differs from the requested one");
    {
        // credId = g^(1/(K + counter)): the revealed PRF key links the account to the identity
        let mut e = ArCurve::scalar_from_u64(counter as u64);
        e.add_assign(&prf_key);
        vensure!(cdi.values.cred_id.mul_by_scalar(&e) == g, "credential-created", "credId^(K+counter) != g: credId is not the PRF value of the counter");
    }

    // --- anonymity revocation on the chain: idCredPub shares -----------------------------------
    {
        let shares: Vec<(ArIdentity, Message<ArCurve>)> =
            chosen_ids.iter().map(|id| (*id, w.ar_secrets[id].decrypt(&cdi.values.ar_data[id].enc_id_cred_pub_share))).collect();
        for mask in 0u32..(1 << n) {
            let idx: Vec<usize> = (0..n).filter(|i| mask >> i & 1 == 1).collect();
            let mk = |order: &[usize]| -> Vec<(ArIdentity, Message<ArCurve>)> { order.iter().map(|i| (shares[*i].0, Message { value: shares[*i].1.value })).collect() };
            let got = reveal_id_cred_pub(&mk(&idx));
            if idx.len() >= t {
                if got != id_cred_pub {
                    return fail("id-cred-pub-revocation", "threshold-subset-wrong".into(), format!("revokers {:?} (>= threshold {t}) reconstruct an idCredPub different from the holder's", idx.iter().map(|i| chosen_ids[*i]).collect::<Vec<_>>()));
                }
                let rev: Vec<usize> = idx.iter().rev().copied().collect();
                if reveal_id_cred_pub(&mk(&rev)) != id_cred_pub {
                    return fail("id-cred-pub-revocation", "order-dependent".into(), "reconstruction depends on the order of the shares".into());
                }
            } else if !idx.is_empty() && got == id_cred_pub {
                return fail("id-cred-pub-revocation", "below-threshold-reveals".into(), format!("revokers {:?} (< threshold {t}) already reconstruct idCredPub", idx.iter().map(|i| chosen_ids[*i]).collect::<Vec<_>>()));
            }
        }
        ctx.class_n("idcredpub-subsets-checked", 1 << n);
    }

    // --- tampering ---------------------------------------------------------------------------
    let mut prng = {
        use rand::SeedableRng;
        ChaCha20Rng::seed_from_u64(cfg.pert_seed)
    };
    let mut attempts = perturbations(&cfg, &w, &cdi, &cred_data, &mut prng);
    // The holder owns the credential keys, so a tampering holder can always re-sign (the account
    // signatures cover values and proofs). Every perturbation of the credential is therefore tried
    // a second time with fresh, valid account signatures: the proofs alone must reject it.
    {
        let mut twins = Vec::new();
        for a in attempts.iter() {
            // everything in the credential except the account signatures themselves and the
            // credential keys (a replaced key has no known secret key); plus the context switch
            let statement_level = (a.cdi.is_some() && !a.kind.starts_with("values.keys.") && !a.kind.starts_with("proofs.acc_sig."))
                || a.kind == "context.other-kind"
                // proofs made for one account must not be deployable to another one, even re-signed
                // (a different expiry for a new account, re-signed, is a legitimate new message)
                || (a.kind == "context.same-kind" && w.noe.is_right());
            if !statement_level {
                continue;
            }
            let mut c = a.cdi.clone().unwrap_or_else(|| cdi.clone());
            let noe = a.noe.clone().unwrap_or_else(|| w.noe.clone());
            let unsigned = UnsignedCredentialDeploymentInfo { values: c.values.clone(), proofs: c.proofs.id_proofs.clone() };
            c.proofs.proof_acc_sk.sigs = cred_data.sign(&noe, &unsigned);
            twins.push(Attempt {
                kind: a.kind,
                name: format!("{} (account signatures renewed by the holder)", a.name),
                cdi: Some(c),
                ip: None,
                ars: None,
                noe: a.noe.clone(),
                global: None,
                wire: true,
                resigned: true,
            });
        }
        attempts.extend(twins);
    }
    for a in attempts {
        let global = a.global.as_ref().unwrap_or(&w.global);
        let ip = a.ip.as_ref().unwrap_or(&w.ip.public_ip_info);
        let ars = a.ars.as_ref().unwrap_or(&w.ars);
        let noe = a.noe.as_ref().unwrap_or(&w.noe);
        let cdi_p = a.cdi.as_ref().unwrap_or(&cdi);
        if a.wire {
            // a tampered credential must be expressible on the wire, otherwise the chain never sees it
            let b = to_bytes(cdi_p);
            if from_bytes::<Cdi, _>(&mut std::io::Cursor::new(&b[..])).is_err() {
                ctx.class("perturbation-not-expressible");
                continue;
            }
        }
        ctx.class_n("perturbations", 1);
        if a.resigned {
            ctx.class_n("perturbations-resigned", 1);
        } else {
            ctx.class(&format!("pert:{}", a.kind));
        }
        let accepted = verify_cdi(global, ip, ars, cdi_p, noe).is_ok();
        if accepted {
            return fail("tamper-rejected", format!("{}{}", a.kind, if a.resigned { "+resign" } else { "" }), format!("verify_cdi accepts the credential after perturbation `{}`", a.name));
        }
    }
    Ok(())
}

fn reser_same<T: Serial + Deserial>(x: &T) -> T {
    let b = to_bytes(x);
    let mut cur = std::io::Cursor::new(&b[..]);
    let y: T = from_bytes(&mut cur).expect("wire round trip of an honestly produced object");
    assert_eq!(cur.position() as usize, b.len(), "wire round trip leaves trailing bytes");
    assert!(to_bytes(&y) == b, "wire round trip is not the identity");
    y
}

struct Attempt {
    /// stable name of the perturbed field (violation signature, class)
    kind:   &'static str,
    /// field with indices
    name:   String,
    cdi:    Option<Cdi>,
    ip:     Option<IpInfo<IpPairing>>,
    ars:    Option<ArMap>,
    noe:    Option<Noe>,
    global: Option<GlobalContext<ArCurve>>,
    wire:   bool,
    resigned: bool,
}

impl Attempt {
    fn cdi(kind: &'static str, name: String, cdi: Cdi) -> Attempt { Attempt { kind, name, cdi: Some(cdi), ip: None, ars: None, noe: None, global: None, wire: true, resigned: false } }

    fn lookup(kind: &'static str, name: String) -> Attempt { Attempt { kind, name, cdi: None, ip: None, ars: None, noe: None, global: None, wire: false, resigned: false } }
}

fn other_year_month(x: YearMonth) -> YearMonth {
    if x.month < 12 {
        YearMonth { year: x.year, month: x.month + 1 }
    } else {
        YearMonth { year: x.year, month: 1 }
    }
}

fn other_value(v: &AttributeKind, prng: &mut ChaCha20Rng) -> AttributeKind {
    let s: &str = v.as_ref();
    let mut t = s.to_string();
    match prng.gen_range(0..3) {
        0 if !t.is_empty() => {
            t.pop();
        }
        1 if t.len() < 31 => t.push('x'),
        _ => {
            if t.is_empty() {
                t.push('0');
            } else {
                // change the last character
                let c = t.pop().unwrap();
                t.push(if c == 'y' { 'z' } else { 'y' });
                if t.len() > 31 {
                    t = "y".to_string();
                }
            }
        }
    }
    AttributeKind::try_new(t).expect("harness: perturbed attribute value fits")
}

/// Every single-field perturbation of the credential, the signed context and the key lookup.
fn perturbations(cfg: &Config, w: &World, cdi: &Cdi, cred_data: &CredentialData, prng: &mut ChaCha20Rng) -> Vec<Attempt> {
    let mut out: Vec<Attempt> = Vec::new();
    let chosen: Vec<ArIdentity> = cdi.values.ar_data.keys().copied().collect();
    let n = chosen.len();
    let t = cfg.threshold;
    let unchosen: Vec<ArIdentity> = w.ars.keys().filter(|k| !chosen.contains(k)).copied().collect();
    let fresh_ar_id = {
        let mut x = 77u32;
        while w.ars.contains_key(&ArIdentity::new(x)) {
            x += 1;
        }
        ArIdentity::new(x)
    };

    // ---- values ----
    {
        let mut c = cdi.clone();
        c.values.cred_id = g1_other(&c.values.cred_id);
        out.push(Attempt::cdi("values.cred_id", "credId + G".into(), c));
    }
    {
        let mut c = cdi.clone();
        c.values.ip_identity = IpIdentity(c.values.ip_identity.0.wrapping_add(1 + prng.gen_range(0..3)));
        out.push(Attempt::cdi("values.ip_identity", format!("ipIdentity -> {}", c.values.ip_identity), c));
    }
    for (kind, nt) in [("values.threshold+1", t.checked_add(1)), ("values.threshold-1", t.checked_sub(1).filter(|x| *x >= 1))] {
        if let Some(nt) = nt {
            let mut c = cdi.clone();
            c.values.threshold = Threshold::try_new(nt).unwrap();
            out.push(Attempt::cdi(kind, format!("threshold {t} -> {nt}"), c));
        }
    }
    if t >= 2 {
        // lower the threshold consistently with the number of sharing coefficients
        let mut c = cdi.clone();
        c.values.threshold = Threshold::try_new(t - 1).unwrap();
        c.proofs.id_proofs.commitments.cmm_id_cred_sec_sharing_coeff.pop();
        out.push(Attempt::cdi("values.threshold-1+coeff", format!("threshold {t} -> {} and last sharing coefficient dropped", t - 1), c));
    }
    if t < 255 {
        let mut c = cdi.clone();
        c.values.threshold = Threshold::try_new(t + 1).unwrap();
        let last = *c.proofs.id_proofs.commitments.cmm_id_cred_sec_sharing_coeff.last().unwrap();
        c.proofs.id_proofs.commitments.cmm_id_cred_sec_sharing_coeff.push(last);
        out.push(Attempt::cdi("values.threshold+1+coeff", format!("threshold {t} -> {} and a sharing coefficient appended", t + 1), c));
    }
    {
        // the number of sharing coefficients changed alone (the threshold in the values is what the
        // identity provider signed): a neutral-element commitment appended leaves every sigma-protocol
        // statement and the share commitments unchanged, so only the count check can reject it
        let mut c = cdi.clone();
        let neutral = {
            let mut x = c.proofs.id_proofs.commitments.cmm_id_cred_sec_sharing_coeff[0];
            x.0 = x.0.minus_point(&x.0);
            x
        };
        c.proofs.id_proofs.commitments.cmm_id_cred_sec_sharing_coeff.push(neutral);
        out.push(Attempt::cdi("proofs.sharing_coeff.count", "a neutral-element sharing coefficient appended, threshold unchanged".to_string(), c));
        let mut c = cdi.clone();
        let last = *c.proofs.id_proofs.commitments.cmm_id_cred_sec_sharing_coeff.last().unwrap();
        c.proofs.id_proofs.commitments.cmm_id_cred_sec_sharing_coeff.push(last);
        out.push(Attempt::cdi("proofs.sharing_coeff.count", "last sharing coefficient repeated, threshold unchanged".to_string(), c));
        if t >= 2 {
            let mut c = cdi.clone();
            c.proofs.id_proofs.commitments.cmm_id_cred_sec_sharing_coeff.pop();
            out.push(Attempt::cdi("proofs.sharing_coeff.count", "last sharing coefficient dropped, threshold unchanged".to_string(), c));
        }
    }
    for id in chosen.iter() {
        let mut c = cdi.clone();
        let e = c.values.ar_data.get_mut(id).unwrap();
        let which = prng.gen_range(0..2);
        if which == 0 {
            e.enc_id_cred_pub_share.0 = g1_other(&e.enc_id_cred_pub_share.0);
        } else {
            e.enc_id_cred_pub_share.1 = g1_other(&e.enc_id_cred_pub_share.1);
        }
        out.push(Attempt::cdi(if which == 0 { "values.ar_data.cipher.0" } else { "values.ar_data.cipher.1" }, format!("arData[{id}] cipher component {which} + G"), c));
    }
    {
        let id = chosen[prng.gen_range(0..n)];
        let mut c = cdi.clone();
        c.values.ar_data.remove(&id);
        out.push(Attempt::cdi("values.ar_data.remove", format!("arData[{id}] removed"), c.clone()));
        c.proofs.id_proofs.proof_id_cred_pub.remove(&id);
        if n >= 2 {
            out.push(Attempt::cdi("values.ar_data.remove+proof", format!("arData[{id}] and its proof removed"), c));
        }
        // no revokers at all
        let mut c = cdi.clone();
        c.values.ar_data.clear();
        c.proofs.id_proofs.proof_id_cred_pub.clear();
        // (this input made verify_cdi panic before /repo commit 9a0878df5, see NOTES.md F-C08-1)
        out.push(Attempt::cdi("values.ar_data.clear+proofs", "all arData entries and their proofs removed".into(), c));
    }
    {
        let src = chosen[prng.gen_range(0..n)];
        let new_id = unchosen.first().copied().unwrap_or(fresh_ar_id);
        let mut c = cdi.clone();
        let e = c.values.ar_data[&src].clone();
        let p = c.proofs.id_proofs.proof_id_cred_pub[&src].clone();
        c.values.ar_data.insert(new_id, e);
        c.proofs.id_proofs.proof_id_cred_pub.insert(new_id, p);
        out.push(Attempt::cdi("values.ar_data.add", format!("arData[{new_id}] added (copy of {src})"), c));
        // move an entry under another identity
        let mut c = cdi.clone();
        let e = c.values.ar_data.remove(&src).unwrap();
        let p = c.proofs.id_proofs.proof_id_cred_pub.remove(&src).unwrap();
        c.values.ar_data.insert(new_id, e);
        c.proofs.id_proofs.proof_id_cred_pub.insert(new_id, p);
        out.push(Attempt::cdi("values.ar_data.rekey", format!("arData[{src}] moved to identity {new_id}"), c));
    }
    if n >= 2 {
        let i = prng.gen_range(0..n);
        let j = (i + 1 + prng.gen_range(0..n - 1)) % n;
        let (a, b) = (chosen[i], chosen[j]);
        let mut c = cdi.clone();
        let (xa, xb) = (c.values.ar_data[&a].clone(), c.values.ar_data[&b].clone());
        c.values.ar_data.insert(a, xb);
        c.values.ar_data.insert(b, xa);
        out.push(Attempt::cdi("values.ar_data.swap", format!("arData[{a}] <-> arData[{b}]"), c.clone()));
        let (pa, pb) = (c.proofs.id_proofs.proof_id_cred_pub[&a].clone(), c.proofs.id_proofs.proof_id_cred_pub[&b].clone());
        c.proofs.id_proofs.proof_id_cred_pub.insert(a, pb);
        c.proofs.id_proofs.proof_id_cred_pub.insert(b, pa);
        out.push(Attempt::cdi("values.ar_data.swap+proof", format!("arData and proofs of {a} <-> {b}"), c));
    }
    // policy
    {
        let mut c = cdi.clone();
        c.values.policy.valid_to = other_year_month(c.values.policy.valid_to);
        out.push(Attempt::cdi("values.policy.valid_to", format!("policy.validTo -> {}", c.values.policy.valid_to), c));
        let mut c = cdi.clone();
        c.values.policy.created_at = other_year_month(c.values.policy.created_at);
        out.push(Attempt::cdi("values.policy.created_at", format!("policy.createdAt -> {}", c.values.policy.created_at), c));
    }
    let revealed: Vec<AttributeTag> = cdi.values.policy.policy_vec.keys().copied().collect();
    let hidden: Vec<AttributeTag> = cdi.proofs.id_proofs.commitments.cmm_attributes.keys().copied().collect();
    if !revealed.is_empty() {
        let tag = revealed[prng.gen_range(0..revealed.len())];
        let mut c = cdi.clone();
        let v = c.values.policy.policy_vec.get_mut(&tag).unwrap();
        *v = other_value(v, prng);
        out.push(Attempt::cdi("values.policy.value", format!("revealed attribute {} -> {:?}", tag.0, c.values.policy.policy_vec[&tag]), c));
        let mut c = cdi.clone();
        c.values.policy.policy_vec.remove(&tag);
        out.push(Attempt::cdi("values.policy.remove", format!("revealed attribute {} removed", tag.0), c));
        // hide a revealed attribute behind its zero-randomness commitment
        let mut c = cdi.clone();
        let v = c.values.policy.policy_vec.remove(&tag).unwrap();
        let cmm = w.global.on_chain_commitment_key.hide(&Value::<ArCurve>::new(v.to_field_element()), &PedersenRandomness::zero());
        c.proofs.id_proofs.commitments.cmm_attributes.insert(tag, cmm);
        out.push(Attempt::cdi("values.policy.to-commitment", format!("revealed attribute {} replaced by its zero-randomness commitment", tag.0), c));
    }
    if !hidden.is_empty() {
        let tag = hidden[prng.gen_range(0..hidden.len())];
        let true_value = w.alist.alist[&tag].clone();
        let mut c = cdi.clone();
        c.values.policy.policy_vec.insert(tag, true_value.clone());
        out.push(Attempt::cdi("values.policy.reveal-hidden", format!("hidden attribute {} additionally revealed (true value)", tag.0), c.clone()));
        c.proofs.id_proofs.commitments.cmm_attributes.remove(&tag);
        out.push(Attempt::cdi("values.policy.reveal-hidden-move", format!("hidden attribute {} moved to the policy (true value)", tag.0), c));
    }
    {
        let mut tag = 200u8;
        while w.alist.alist.contains_key(&AttributeTag(tag)) {
            tag += 1;
        }
        let mut c = cdi.clone();
        c.values.policy.policy_vec.insert(AttributeTag(tag), AttributeKind::try_new("DK".into()).unwrap());
        out.push(Attempt::cdi("values.policy.add-unsigned", format!("attribute {tag} that the provider never signed added to the policy"), c));
    }
    // credential keys
    {
        let idxs: Vec<KeyIndex> = cdi.values.cred_key_info.keys.keys().copied().collect();
        let k = idxs[prng.gen_range(0..idxs.len())];
        let newkey: VerifyKey = (&KeyPair::generate(prng)).into();
        let mut c = cdi.clone();
        c.values.cred_key_info.keys.insert(k, newkey.clone());
        out.push(Attempt::cdi("values.keys.replace", format!("credential key {} replaced", k.0), c));
        let mut c = cdi.clone();
        let mut nk = 0u8;
        while c.values.cred_key_info.keys.contains_key(&KeyIndex(nk)) {
            nk += 1;
        }
        c.values.cred_key_info.keys.insert(KeyIndex(nk), newkey);
        out.push(Attempt::cdi("values.keys.add", format!("credential key {nk} added"), c));
        if idxs.len() >= 2 {
            let mut c = cdi.clone();
            c.values.cred_key_info.keys.remove(&k);
            out.push(Attempt::cdi("values.keys.remove", format!("credential key {} removed", k.0), c.clone()));
            c.proofs.proof_acc_sk.sigs.remove(&k);
            out.push(Attempt::cdi("values.keys.remove+sig", format!("credential key {} and its signature removed", k.0), c));
        }
        let cur: u8 = cdi.values.cred_key_info.threshold.into();
        let nt = if cur > 1 { cur - 1 } else { cur + 1 };
        let mut c = cdi.clone();
        c.values.cred_key_info.threshold = SignatureThreshold::try_from(nt).unwrap();
        out.push(Attempt::cdi("values.keys.threshold", format!("signature threshold {cur} -> {nt}"), c));
    }

    // ---- proofs ----
    {
        let mut c = cdi.clone();
        c.proofs.id_proofs.sig.sig.0 = g1_other(&c.proofs.id_proofs.sig.sig.0);
        out.push(Attempt::cdi("proofs.sig.0", "blinded signature component 0 + G".into(), c));
        let mut c = cdi.clone();
        c.proofs.id_proofs.sig.sig.1 = g1_other(&c.proofs.id_proofs.sig.sig.1);
        out.push(Attempt::cdi("proofs.sig.1", "blinded signature component 1 + G".into(), c));
    }
    {
        let mut c = cdi.clone();
        c.proofs.id_proofs.commitments.cmm_prf = Commitment(g1_other(&c.proofs.id_proofs.commitments.cmm_prf.0));
        out.push(Attempt::cdi("proofs.cmm_prf", "cmmPrf + G".into(), c));
        let mut c = cdi.clone();
        c.proofs.id_proofs.commitments.cmm_cred_counter = Commitment(g1_other(&c.proofs.id_proofs.commitments.cmm_cred_counter.0));
        out.push(Attempt::cdi("proofs.cmm_cred_counter", "cmmCredCounter + G".into(), c));
        let mut c = cdi.clone();
        c.proofs.id_proofs.commitments.cmm_max_accounts = Commitment(g1_other(&c.proofs.id_proofs.commitments.cmm_max_accounts.0));
        out.push(Attempt::cdi("proofs.cmm_max_accounts", "cmmMaxAccounts + G".into(), c));
        // shift counter and max_accounts together: the range statement max - counter stays the same
        let mut c = cdi.clone();
        let kg = w.global.on_chain_commitment_key.g;
        c.proofs.id_proofs.commitments.cmm_cred_counter = Commitment(c.proofs.id_proofs.commitments.cmm_cred_counter.0.plus_point(&kg));
        c.proofs.id_proofs.commitments.cmm_max_accounts = Commitment(c.proofs.id_proofs.commitments.cmm_max_accounts.0.plus_point(&kg));
        out.push(Attempt::cdi("proofs.cmm_counter+max_shift", "cmmCredCounter and cmmMaxAccounts both shifted by g (counter+1, max+1)".into(), c));
    }
    for tag in hidden.iter() {
        let mut c = cdi.clone();
        let e = c.proofs.id_proofs.commitments.cmm_attributes.get_mut(tag).unwrap();
        *e = Commitment(g1_other(&e.0));
        out.push(Attempt::cdi("proofs.cmm_attribute", format!("cmmAttributes[{}] + G", tag.0), c));
    }
    if !hidden.is_empty() {
        let tag = hidden[prng.gen_range(0..hidden.len())];
        let mut c = cdi.clone();
        c.proofs.id_proofs.commitments.cmm_attributes.remove(&tag);
        out.push(Attempt::cdi("proofs.cmm_attribute.remove", format!("cmmAttributes[{}] removed", tag.0), c));
    }
    for k in 0..cdi.proofs.id_proofs.commitments.cmm_id_cred_sec_sharing_coeff.len() {
        let mut c = cdi.clone();
        let e = &mut c.proofs.id_proofs.commitments.cmm_id_cred_sec_sharing_coeff[k];
        *e = Commitment(g1_other(&e.0));
        out.push(Attempt::cdi(if k == 0 { "proofs.sharing_coeff.0" } else { "proofs.sharing_coeff.k" }, format!("cmmIdCredSecSharingCoeff[{k}] + G"), c));
    }
    {
        let mut c = cdi.clone();
        let bit = prng.gen_range(0..256usize);
        c.proofs.id_proofs.challenge = reser(&c.proofs.id_proofs.challenge, |b| b[bit / 8] ^= 1 << (bit % 8));
        out.push(Attempt::cdi("proofs.challenge", format!("challenge bit {bit} flipped"), c));
    }
    for id in chosen.iter() {
        let k = prng.gen_range(0..3usize);
        let mut c = cdi.clone();
        let e = c.proofs.id_proofs.proof_id_cred_pub.get_mut(id).unwrap();
        *e = reser(e, |b| {
            assert_eq!(b.len(), 96, "harness: com_enc_eq response layout");
            bump_scalar(b, 32 * k)
        });
        out.push(Attempt::cdi("proofs.proof_id_cred_pub", format!("proofIdCredPub[{id}] response scalar {k} + 1"), c));
    }
    {
        // a proof filed under a different revoker identity (order of the entries preserved)
        let last: u32 = (*chosen.last().unwrap()).into();
        let first: u32 = chosen[0].into();
        let moved = if last < u32::MAX {
            Some((*chosen.last().unwrap(), ArIdentity::new(last + 1)))
        } else if first > 1 {
            Some((chosen[0], ArIdentity::new(first - 1)))
        } else {
            None
        };
        if let Some((from, to)) = moved {
            let mut c = cdi.clone();
            let p = c.proofs.id_proofs.proof_id_cred_pub.remove(&from).unwrap();
            c.proofs.id_proofs.proof_id_cred_pub.insert(to, p);
            out.push(Attempt::cdi("proofs.proof_id_cred_pub.rekey", format!("proofIdCredPub[{from}] filed under identity {to}"), c));
        }
    }
    {
        // com_eq_sig response: rho, u32 count, count x (m, r)
        let resp_len = to_bytes(&cdi.proofs.id_proofs.proof_ip_sig).len();
        let count = (resp_len - 36) / 64;
        assert_eq!(36 + 64 * count, resp_len, "harness: com_eq_sig response layout");
        let mut c = cdi.clone();
        c.proofs.id_proofs.proof_ip_sig = reser(&c.proofs.id_proofs.proof_ip_sig, |b| bump_scalar(b, 0));
        out.push(Attempt::cdi("proofs.proof_ip_sig.rho", "proofIpSig rho response + 1".into(), c));
        // one (m) and one (r) response each at a position chosen by the case, plus first and last
        let mut positions = vec![0usize, count - 1, prng.gen_range(0..count), prng.gen_range(0..count)];
        positions.dedup();
        for (j, i) in positions.into_iter().enumerate() {
            let second = j % 2 == 1;
            let mut c = cdi.clone();
            c.proofs.id_proofs.proof_ip_sig = reser(&c.proofs.id_proofs.proof_ip_sig, |b| bump_scalar(b, 36 + 64 * i + if second { 32 } else { 0 }));
            out.push(Attempt::cdi(if second { "proofs.proof_ip_sig.r" } else { "proofs.proof_ip_sig.m" }, format!("proofIpSig response pair {i} component {} + 1", second as u8), c));
        }
    }
    for k in 0..5usize {
        let mut c = cdi.clone();
        c.proofs.id_proofs.proof_reg_id = reser(&c.proofs.id_proofs.proof_reg_id, |b| {
            assert_eq!(b.len(), 160, "harness: com_mult response layout");
            bump_scalar(b, 32 * k)
        });
        out.push(Attempt::cdi("proofs.proof_reg_id", format!("proofRegId response scalar {k} + 1"), c));
    }
    {
        // range proof: A S T1 T2 (points) tx tx_tilde e_tilde (scalars) u32 L, L x (point, point), a, b
        let rp = to_bytes(&cdi.proofs.id_proofs.cred_counter_less_than_max_accounts);
        let l = u32::from_be_bytes(rp[288..292].try_into().unwrap()) as usize;
        assert_eq!(rp.len(), 292 + 96 * l + 64, "harness: range proof layout");
        let lr = prng.gen_range(0..l);
        let items: Vec<(&'static str, String, usize, bool)> = vec![
            ("proofs.range.A", "A".into(), 0, true),
            ("proofs.range.S", "S".into(), 48, true),
            ("proofs.range.T1", "T_1".into(), 96, true),
            ("proofs.range.T2", "T_2".into(), 144, true),
            ("proofs.range.tx", "tx".into(), 192, false),
            ("proofs.range.tx_tilde", "tx_tilde".into(), 224, false),
            ("proofs.range.e_tilde", "e_tilde".into(), 256, false),
            ("proofs.range.ip.L", format!("ip_proof.lr[{lr}].0"), 292 + 96 * lr, true),
            ("proofs.range.ip.R", format!("ip_proof.lr[{lr}].1"), 292 + 96 * lr + 48, true),
            ("proofs.range.ip.a", "ip_proof.a".into(), 292 + 96 * l, false),
            ("proofs.range.ip.b", "ip_proof.b".into(), 292 + 96 * l + 32, false),
        ];
        for (kind, what, off, point) in items {
            let mut c = cdi.clone();
            c.proofs.id_proofs.cred_counter_less_than_max_accounts = reser(&c.proofs.id_proofs.cred_counter_less_than_max_accounts, |b| if point { bump_g1(b, off) } else { bump_scalar(b, off) });
            out.push(Attempt::cdi(kind, format!("range proof {what} perturbed"), c));
        }
    }
    {
        let idxs: Vec<KeyIndex> = cdi.proofs.proof_acc_sk.sigs.keys().copied().collect();
        let k = idxs[prng.gen_range(0..idxs.len())];
        let mut c = cdi.clone();
        let other: AccountOwnershipSignature = cred_data.keys[&k].sign(b"some other message").into();
        c.proofs.proof_acc_sk.sigs.insert(k, other);
        out.push(Attempt::cdi("proofs.acc_sig.other-message", format!("account signature {} replaced by the same key's signature on another message", k.0), c));
        let mut c = cdi.clone();
        let s = c.proofs.proof_acc_sk.sigs.get_mut(&k).unwrap();
        let bit = prng.gen_range(0..256usize); // in R; the encoding stays a syntactically valid signature
        let mut sb = s.to_bytes();
        sb[bit / 8] ^= 1 << (bit % 8);
        *s = ed25519_dalek::Signature::from_bytes(&sb).into();
        out.push(Attempt::cdi("proofs.acc_sig.bitflip", format!("account signature {} bit {bit} flipped", k.0), c));
        {
            // the signature keeps its bytes but is relabelled to a key index that is not registered
            // (order of the map preserved when the highest index moves up)
            let kmax = *idxs.iter().max().unwrap();
            if kmax.0 < 255 {
                let mut c = cdi.clone();
                let sig = c.proofs.proof_acc_sk.sigs.remove(&kmax).unwrap();
                let to = KeyIndex(if prng.gen_range(0..2) == 0 { kmax.0 + 1 } else { 255 });
                c.proofs.proof_acc_sk.sigs.insert(to, sig);
                out.push(Attempt::cdi("proofs.acc_sig.relabel", format!("account signature {} relabelled to key index {}", kmax.0, to.0), c));
            }
            let kmin = *idxs.iter().min().unwrap();
            let free = (0..=255u8).map(KeyIndex).find(|x| !cdi.values.cred_key_info.keys.contains_key(x) && !idxs.contains(x));
            if let Some(to) = free {
                let mut c = cdi.clone();
                let sig = c.proofs.proof_acc_sk.sigs.remove(&kmin).unwrap();
                c.proofs.proof_acc_sk.sigs.insert(to, sig);
                out.push(Attempt::cdi("proofs.acc_sig.relabel", format!("account signature {} relabelled to the unregistered key index {}", kmin.0, to.0), c));
            }
        }
        if idxs.len() >= 2 {
            let mut c = cdi.clone();
            c.proofs.proof_acc_sk.sigs.remove(&k);
            out.push(Attempt::cdi("proofs.acc_sig.remove", format!("account signature {} removed", k.0), c));
            let k2 = *idxs.iter().find(|x| **x != k).unwrap();
            let mut c = cdi.clone();
            let (a, b) = (c.proofs.proof_acc_sk.sigs[&k].clone(), c.proofs.proof_acc_sk.sigs[&k2].clone());
            c.proofs.proof_acc_sk.sigs.insert(k, b);
            c.proofs.proof_acc_sk.sigs.insert(k2, a);
            out.push(Attempt::cdi("proofs.acc_sig.swap", format!("account signatures {} <-> {}", k.0, k2.0), c));
        }
    }

    // ---- the signed context: new account expiry / existing account address ----
    {
        let mut a = Attempt::lookup("context.same-kind", String::new());
        a.noe = Some(match &w.noe {
            Either::Left(t) => Either::Left(TransactionTime { seconds: t.seconds ^ (1 << prng.gen_range(0..64)) }),
            Either::Right(addr) => {
                let mut x = addr.0;
                x[prng.gen_range(0..32usize)] ^= 1 << prng.gen_range(0..8);
                Either::Right(AccountAddress(x))
            }
        });
        a.name = format!("message context -> {:?}", a.noe);
        out.push(a);
        let mut a = Attempt::lookup("context.other-kind", String::new());
        a.noe = Some(match &w.noe {
            Either::Left(_) => Either::Right(AccountAddress([0u8; 32])),
            Either::Right(_) => Either::Left(TransactionTime { seconds: cfg.expiry }),
        });
        a.name = format!("message context -> {:?}", a.noe);
        out.push(a);
    }

    // ---- lookup: identity provider key ----
    {
        let used = 5 + n.div_ceil(7).max(1) + cfg.attrs.len();
        let key_len = w.ip.public_ip_info.ip_verify_key.ys.len();
        let other = test_create_ip_info(prng, 0, (key_len - 5) as u8);
        let mut a = Attempt::lookup("lookup.ip.other-key", "a different provider key pair of the same length".into());
        let mut ip = w.ip.public_ip_info.clone();
        ip.ip_verify_key = other.public_ip_info.ip_verify_key.clone();
        a.ip = Some(ip);
        out.push(a);
        let g2 = other.public_ip_info.ip_verify_key.g_tilda;
        let j_used = prng.gen_range(0..used.min(key_len));
        let j_any = prng.gen_range(0..key_len);
        type F = Box<dyn Fn(&mut concordium_base::ps_sig::PublicKey<IpPairing>)>;
        let items: Vec<(&'static str, String, F)> = vec![
            ("lookup.ip.x_tilda", "X~ of the provider key".into(), Box::new(move |k| k.x_tilda = k.x_tilda.plus_point(&g2))),
            ("lookup.ip.g_tilda", "g~ of the provider key".into(), Box::new(move |k| k.g_tilda = k.g_tilda.plus_point(&g2))),
            ("lookup.ip.y_tilda", format!("Y~[{j_used}] of the provider key"), Box::new(move |k| k.y_tildas[j_used] = k.y_tildas[j_used].plus_point(&g2))),
            ("lookup.ip.ys", format!("Y[{j_any}] of the provider key"), Box::new(move |k| k.ys[j_any] = g1_other(&k.ys[j_any]))),
            ("lookup.ip.g", "g of the provider key".into(), Box::new(move |k| k.g = g1_other(&k.g))),
        ];
        for (kind, name, f) in items {
            let mut a = Attempt::lookup(kind, format!("{name} changed"));
            let mut ip = w.ip.public_ip_info.clone();
            f(&mut ip.ip_verify_key);
            a.ip = Some(ip);
            out.push(a);
        }
    }
    // ---- lookup: anonymity revoker keys ----
    for id in chosen.iter() {
        let mut a = Attempt::lookup("lookup.ar.other-key", format!("revoker {id} has a different public key in the lookup"));
        let mut ars = w.ars.clone();
        let sk = elgamal::SecretKey::generate(&w.global.on_chain_commitment_key.g, prng);
        ars.get_mut(id).unwrap().ar_public_key = elgamal::PublicKey::from(&sk);
        a.ars = Some(ars);
        out.push(a);
    }
    {
        let id = chosen[prng.gen_range(0..n)];
        let mut a = Attempt::lookup("lookup.ar.generator", format!("revoker {id} has a different generator in the lookup"));
        let mut ars = w.ars.clone();
        let e = ars.get_mut(&id).unwrap();
        e.ar_public_key.generator = g1_other(&e.ar_public_key.generator);
        a.ars = Some(ars);
        out.push(a);
        let mut a = Attempt::lookup("lookup.ar.missing", format!("revoker {id} is missing from the lookup"));
        let mut ars = w.ars.clone();
        ars.remove(&id);
        a.ars = Some(ars);
        out.push(a);
        if n >= 2 {
            let id2 = *chosen.iter().find(|x| **x != id).unwrap();
            let mut a = Attempt::lookup("lookup.ar.swapped", format!("revokers {id} and {id2} have each other's keys in the lookup"));
            let mut ars = w.ars.clone();
            let (k1, k2) = (ars[&id].ar_public_key, ars[&id2].ar_public_key);
            ars.get_mut(&id).unwrap().ar_public_key = k2;
            ars.get_mut(&id2).unwrap().ar_public_key = k1;
            a.ars = Some(ars);
            out.push(a);
        }
    }
    // ---- global context ----
    {
        let mut a = Attempt::lookup("lookup.global.g", "on-chain commitment key g changed".into());
        let mut gc = w.global.clone();
        gc.on_chain_commitment_key.g = g1_other(&gc.on_chain_commitment_key.g);
        a.global = Some(gc);
        out.push(a);
        let mut a = Attempt::lookup("lookup.global.h", "on-chain commitment key h changed".into());
        let mut gc = w.global.clone();
        gc.on_chain_commitment_key.h = g1_other(&gc.on_chain_commitment_key.h);
        a.global = Some(gc);
        out.push(a);
        let mut a = Attempt::lookup("lookup.global.genesis_string", "genesis string changed".into());
        let mut gc = w.global.clone();
        gc.genesis_string.push('!');
        a.global = Some(gc);
        out.push(a);
    }
    let _ = prng.next_u32();
    out
}

// ------------------------------------------------------------------------------------------
// Target: sharing

#[derive(Debug, Clone, Hash)]
struct ShareCase {
    seed:      u64,
    ids:       Vec<u32>,
    threshold: u8,
    secret:    u8,
}

fn decode_share(u: &mut Unstructured, tier: Tier) -> ShareCase {
    let seed = gen::u64v(u);
    let nb = gen::byte(u);
    let n = match tier {
        // 2^n subsets are interpolated twice per case: 9 and 10 revokers are rare in the quick tier
        Tier::Quick => {
            if nb >= 0xf8 {
                9 + (nb as usize & 1)
            } else {
                1 + nb as usize % 8
            }
        }
        Tier::Thorough => 1 + nb as usize % 10,
    };
    let thr_raw = gen::byte(u);
    let secret = gen::byte(u) % 4;
    let id_mode = gen::byte(u) % 4;
    let mut ids: Vec<u32> = Vec::new();
    for i in 0..n {
        let mut v = match id_mode {
            0 => (i + 1) as u32,
            1 => match gen::byte(u) % 5 {
                0 => u32::MAX - i as u32,
                1 => 1u32 << (gen::byte(u) % 32),
                2 => (1u32 << 31) + i as u32,
                _ => gen::u32v(u),
            },
            2 => gen::u32v(u),
            _ => 1 + (gen::byte(u) as u32 % 16),
        };
        if v == 0 {
            v = 1;
        }
        while ids.contains(&v) {
            v = if v == u32::MAX { 1 } else { v + 1 };
        }
        ids.push(v);
    }
    let threshold = match thr_raw % 8 {
        0 => 1,
        1 => n as u8,
        2 => (n as u8).saturating_sub(1).max(1),
        _ => 1 + (thr_raw / 8) % n as u8,
    };
    ShareCase { seed, ids, threshold, secret }
}

fn t_sharing(data: &[u8], ctx: &mut Ctx) -> CheckResult {
    let mut u = Unstructured::new(data);
    let case = decode_share(&mut u, ctx.tier);
    let n = case.ids.len();
    let t = case.threshold as usize;
    ctx.class(&format!("revokers={n}"));
    ctx.class(if t == n {
        "threshold=all"
    } else if t == 1 {
        "threshold=1<n"
    } else {
        "threshold=1<t<n"
    });
    if case.ids.iter().any(|x| *x > 0xffff) {
        ctx.class("revoker-identity>16bit");
    }
    if t < n {
        ctx.class("nontrivial");
        ctx.nontrivial(&case);
    }
    ctx.sample(|| format!("{case:?}"));
    ctx.describe(|| format!("{case:#?}"));

    let mut rng = {
        use rand::SeedableRng;
        ChaCha20Rng::seed_from_u64(case.seed)
    };
    let global = base_global();
    let ck = global.on_chain_commitment_key;
    let secret: BaseField = match case.secret {
        0 => ArCurve::generate_scalar(&mut rng),
        1 => BaseField::zero(),
        2 => BaseField::one(),
        _ => {
            let mut x = BaseField::zero();
            x.sub_assign(&BaseField::one());
            x
        }
    };
    let thr = Threshold::try_new(case.threshold).expect("harness: threshold >= 1");
    let mut ars: ArMap = BTreeMap::new();
    let mut secrets = BTreeMap::new();
    for id in case.ids.iter() {
        let ar_id = ArIdentity::new(*id);
        let sk = elgamal::SecretKey::generate(&ck.g, &mut rng);
        ars.insert(ar_id, ArInfo::<ArCurve> { ar_identity: ar_id, ar_description: Description { name: String::new(), url: String::new(), description: String::new() }, ar_public_key: elgamal::PublicKey::from(&sk) });
        secrets.insert(ar_id, sk);
    }
    let ids: Vec<ArIdentity> = ars.keys().copied().collect();

    // (1) plain Shamir sharing: share / reveal
    {
        let sd = share::<ArCurve, _, _, _>(&secret, ids.iter().copied(), thr, &mut rng);
        vensure!(sd.shares.len() == n && sd.coefficients.len() == t - 1, "share-shape", "share() returned {} shares / {} coefficients for n={n}, t={t}", sd.shares.len(), sd.coefficients.len());
        // each share is the polynomial evaluated at the revoker identity
        let mut coeffs: Vec<Value<ArCurve>> = vec![Value::new(secret)];
        coeffs.extend(sd.coefficients.iter().cloned());
        for (id, s) in ids.iter().zip(sd.shares.iter()) {
            let want = evaluate_poly(&coeffs, &id.to_scalar::<ArCurve>());
            vensure!(**s == want, "share-evaluation", "share of revoker {id} is not the sharing polynomial evaluated at its identity");
        }
        let pts: Vec<(ArIdentity, Value<ArCurve>)> = ids.iter().copied().zip(sd.shares.iter().cloned()).collect();
        for mask in 0u32..(1 << n) {
            let s = subset(&pts, mask);
            let got = reveal::<ArIdentity, ArCurve>(&s);
            if s.len() >= t {
                if got != secret {
                    return fail("reveal", "threshold-subset-wrong".into(), format!("shares of {:?} (>= threshold {t}) interpolate to a different secret", s.iter().map(|x| x.0).collect::<Vec<_>>()));
                }
            } else if !s.is_empty() && s.len() == t - 1 && got == secret {
                return fail("reveal", "below-threshold-reveals".into(), format!("t-1 shares {:?} interpolate to the secret", s.iter().map(|x| x.0).collect::<Vec<_>>()));
            }
        }
    }
    // (2) sharing with commitments and encryption, as used for idCredSec
    {
        let (data, cmm_coeff, rand_coeff) = compute_sharing_data(&Value::<ArCurve>::new(secret), &ars, thr, &ck, &mut rng);
        vensure!(data.len() == n && cmm_coeff.len() == t && rand_coeff.len() == t, "sharing-data-shape", "compute_sharing_data returned {} items, {} commitments, {} randomness values for n={n}, t={t}", data.len(), cmm_coeff.len(), rand_coeff.len());
        vensure!(ck.hide(&Value::<ArCurve>::new(secret), &rand_coeff[0]) == cmm_coeff[0], "sharing-data-commitment", "first coefficient commitment does not open to the shared secret");
        let mut shares: Vec<(ArIdentity, Message<ArCurve>)> = Vec::new();
        for item in data.iter() {
            let id = item.ar.ar_identity;
            // the commitment to the share derived from the coefficient commitments opens to the share
            let (cmm, rnd) = commitment_to_share_and_rand(id, &cmm_coeff, &rand_coeff);
            vensure!(cmm == item.cmm_to_share && *rnd == *item.randomness_cmm_to_share, "sharing-data-commitment", "commitment_to_share_and_rand disagrees with compute_sharing_data for revoker {id}");
            vensure!(ck.hide(&item.share, &rnd) == cmm, "sharing-data-commitment", "derived share commitment of revoker {id} does not open to the share");
            vensure!(commitment_to_share(&id.to_scalar::<ArCurve>(), &cmm_coeff) == cmm, "sharing-data-commitment", "utils::commitment_to_share disagrees for revoker {id}");
            // decryption gives g^share
            let m = secrets[&id].decrypt(&item.encrypted_share);
            vensure!(m.value == ck.g.mul_by_scalar(&item.share), "sharing-data-encryption", "revoker {id} does not decrypt to g^share");
            shares.push((id, m));
        }
        let expected = ck.g.mul_by_scalar(&secret);
        for mask in 0u32..(1 << n) {
            let s: Vec<(ArIdentity, Message<ArCurve>)> = shares.iter().enumerate().filter(|(i, _)| mask >> i & 1 == 1).map(|(_, (id, m))| (*id, Message { value: m.value })).collect();
            let got = reveal_id_cred_pub(&s);
            if s.len() >= t {
                if got != expected {
                    return fail("reveal-in-group", "threshold-subset-wrong".into(), format!("decrypted shares of {:?} (>= threshold {t}) interpolate to a different group element", s.iter().map(|x| x.0).collect::<Vec<_>>()));
                }
            } else if !s.is_empty() && s.len() == t - 1 && got == expected {
                return fail("reveal-in-group", "below-threshold-reveals".into(), format!("t-1 decrypted shares {:?} interpolate to g^secret", s.iter().map(|x| x.0).collect::<Vec<_>>()));
            }
        }
        ctx.class_n("subsets-checked", 2 << n);
    }
    Ok(())
}

// ------------------------------------------------------------------------------------------

pub fn property() -> Property {
    Property {
        id:          "C08",
        rule:        "pipeline: the choice sequence is decoded into a configuration (1..6 revokers known to provider and chain, rarely 8, thorough up to 10; arbitrary distinct non-zero 32-bit revoker identities; a non-empty chosen subset; threshold 1..|chosen| biased to 1, n-1, n; 0..8 attributes with tags 0..253 and values of 0..31 bytes incl. multi-byte UTF-8; any revealed subset; created_at/valid_to from an edge table; max_accounts from {0,1,2,237,254,255,random}; counter from {0,1,max-1,max,max+1}; v0/v1 identity object; new/existing account; 1..3 keys with arbitrary indices; tight or slack provider key length) and all secrets and keys are drawn from a ChaCha20 generator seeded by the case. A case is non-trivial when threshold < number of chosen revokers and the policy reveals something, or the counter is one of max-1, max, max+1; distinct cases are counted by the hash of the decoded configuration. sharing: 1..10 revokers with arbitrary identities, threshold as above, secret from {random,0,1,-1}; non-trivial when threshold < n.",
        assumptions: &[
            "generate_pio (v0), sign_identity_object (v0), create_credential and SystemAttributeRandomness draw their blinding randomness from rand::thread_rng inside /repo; this cannot be seeded from the case. All keys, secrets, configuration and the choice of perturbations are seeded; the oracles do not depend on the unseeded randomness except with negligible probability",
            "perturbed values are well-formed: group elements are replaced by other group elements, scalars by other scalars, so that the tampered credential is expressible on the wire; malformed encodings are C05's subject",
            "a set of fewer than `threshold` shares is required not to interpolate to the secret: exact for size threshold-1 (the top coefficient is non-zero and identities are non-zero), probability 2^-255 of a chance hit for smaller sets",
            "BLS12-381 instantiation (ArCurve = G1, IpPairing) and AttributeKind only; global context = GlobalContext::generate with three genesis strings",
        ],
        targets:     vec![
            Target::new("pipeline", t_pipeline).len(48, 420).cases(160, 8_000).timeout(900).shrink_iters(24).floors(&[
                ("nontrivial", 0.2),
                ("id-object=v0", 0.15),
                ("id-object=v1", 0.15),
                ("account=existing", 0.15),
                ("counter=max+1(negative)", 0.05),
            ]),
            Target::new("sharing", t_sharing).len(16, 96).cases(800, 40_000).timeout(600).shrink_iters(200).floors(&[("nontrivial", 0.2)]),
        ],
    }
}
