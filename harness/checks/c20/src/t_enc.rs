//! Targets `point_enc`, `scalar_enc`, `hash_to_group`.
//!
//! `point_enc`: a byte string is produced (valid encodings, constructed invalid encodings of
//! every kind, mutations of valid ones, random strings); the *model decoder* (big.rs: zcash
//! compressed format for BLS12-381, RFC 9496 for ristretto255, subgroup membership through a
//! plain multiplication by the group order) decides whether it is a valid canonical encoding
//! and of which point; the checked decoder of concordium_base must agree in both directions.
use crate::{
    big::{self, Coord, ModelPoint, ModelRistretto, F2},
    curves::*,
};
use ark_ec::{AffineRepr, CurveGroup};
use ark_ff::PrimeField as ArkPrimeField;
use concordium_base::{
    common::{from_bytes, to_bytes},
    curve_arithmetic::{Curve, Field, PrimeField, Value},
};
use num_bigint::BigUint;
use num_traits::{One, Zero};
use sha2::{Digest, Sha512};
use std::io::Cursor;
use vcore::{gen, vensure, vfail, CheckResult, Ctx, Unstructured, Violation};

// ------------------------------------------------------------------------------------------
// arkworks <-> BigUint coordinates (arkworks' field/bigint conversion is trusted)

fn fq_to_big(x: &ark_bls12_381::Fq) -> BigUint { x.into_bigint().into() }
fn big_to_fq(x: &BigUint) -> ark_bls12_381::Fq { ark_bls12_381::Fq::from(x.clone()) }

/// Is the affine point (given as model coordinates) killed by the group order? Uses generic
/// double-and-add (`mul_bigint`), not the endomorphism based test used by the decoder.
fn in_subgroup(x: &Coord, y: &Coord) -> bool {
    let r: Vec<u64> = big::limbs4(big::r381());
    match (x, y) {
        (Coord::Fp(x), Coord::Fp(y)) => {
            let p = ark_bls12_381::G1Affine::new_unchecked(big_to_fq(x), big_to_fq(y));
            p.mul_bigint(&r).is_zero()
        }
        (Coord::Fp2(x), Coord::Fp2(y)) => {
            let p = ark_bls12_381::G2Affine::new_unchecked(
                ark_bls12_381::Fq2::new(big_to_fq(&x.c0), big_to_fq(&x.c1)),
                ark_bls12_381::Fq2::new(big_to_fq(&y.c0), big_to_fq(&y.c1)),
            );
            p.mul_bigint(&r).is_zero()
        }
        _ => unreachable!(),
    }
}

/// Trait describing what differs between G1 and G2 for this target.
trait Bls: TC {
    const LEN: usize;
    fn model_decode(b: &[u8]) -> ModelPoint;
    /// Affine coordinates of a (non-identity) group element as model coordinates.
    fn coords(&self) -> Option<(Coord, Coord)>;
    /// A random field element for the x coordinate.
    fn gen_x(u: &mut Unstructured) -> Coord;
    /// x + 1 (used to walk to the next x of the wanted kind).
    fn next_x(x: &Coord) -> Coord;
    /// Is x^3 + b a square?
    fn x_on_curve(x: &Coord) -> bool;
    /// y for x (either root), x known to be on the curve.
    fn y_for(x: &Coord) -> Coord;
    fn neg_y(y: &Coord) -> Coord;
    /// Build a group element from affine coordinates without any check (harness only).
    fn from_coords_unchecked(x: &Coord, y: &Coord) -> Self;
    /// Multiply (unchecked curve point) by the group order: lands in the cofactor subgroup.
    fn times_order(&self) -> Self;
}

fn gen_fp(u: &mut Unstructured) -> BigUint {
    let p = big::p381();
    match gen::byte(u) % 8 {
        0 => BigUint::from(gen::byte(u) % 8),
        1 => p - BigUint::from(1u32 + (gen::byte(u) % 8) as u32),
        _ => BigUint::from_bytes_be(&gen::bytes(u, 48)) % p,
    }
}

impl Bls for G1 {
    const LEN: usize = 48;

    fn model_decode(b: &[u8]) -> ModelPoint { big::model_decode_g1(b) }

    fn coords(&self) -> Option<(Coord, Coord)> {
        let a = self.into_ark().into_affine();
        if a.is_zero() {
            return None;
        }
        Some((Coord::Fp(fq_to_big(&a.x)), Coord::Fp(fq_to_big(&a.y))))
    }

    fn gen_x(u: &mut Unstructured) -> Coord { Coord::Fp(gen_fp(u)) }

    fn next_x(x: &Coord) -> Coord {
        match x {
            Coord::Fp(x) => Coord::Fp((x + BigUint::one()) % big::p381()),
            _ => unreachable!(),
        }
    }

    fn x_on_curve(x: &Coord) -> bool {
        let p = big::p381();
        match x {
            Coord::Fp(x) => {
                let rhs = big::addm(&big::mulm(&big::mulm(x, x, p), x, p), &BigUint::from(4u32), p);
                big::is_qr(&rhs, p)
            }
            _ => unreachable!(),
        }
    }

    fn y_for(x: &Coord) -> Coord {
        let p = big::p381();
        match x {
            Coord::Fp(x) => {
                let rhs = big::addm(&big::mulm(&big::mulm(x, x, p), x, p), &BigUint::from(4u32), p);
                Coord::Fp(big::sqrt34(&rhs, p))
            }
            _ => unreachable!(),
        }
    }

    fn neg_y(y: &Coord) -> Coord {
        match y {
            Coord::Fp(y) => Coord::Fp(big::negm(y, big::p381())),
            _ => unreachable!(),
        }
    }

    fn from_coords_unchecked(x: &Coord, y: &Coord) -> Self {
        match (x, y) {
            (Coord::Fp(x), Coord::Fp(y)) => {
                let a = ark_bls12_381::G1Affine::new_unchecked(big_to_fq(x), big_to_fq(y));
                ark_bls12_381::G1Projective::from(a).into()
            }
            _ => unreachable!(),
        }
    }

    fn times_order(&self) -> Self {
        let r: Vec<u64> = big::limbs4(big::r381());
        self.into_ark().into_affine().mul_bigint(&r).into()
    }
}

fn b_g2() -> F2 { F2 { c0: BigUint::from(4u32), c1: BigUint::from(4u32) } }

impl Bls for G2 {
    const LEN: usize = 96;

    fn model_decode(b: &[u8]) -> ModelPoint { big::model_decode_g2(b) }

    fn coords(&self) -> Option<(Coord, Coord)> {
        let a = self.into_ark().into_affine();
        if a.is_zero() {
            return None;
        }
        Some((
            Coord::Fp2(F2 { c0: fq_to_big(&a.x.c0), c1: fq_to_big(&a.x.c1) }),
            Coord::Fp2(F2 { c0: fq_to_big(&a.y.c0), c1: fq_to_big(&a.y.c1) }),
        ))
    }

    fn gen_x(u: &mut Unstructured) -> Coord {
        let c0 = gen_fp(u);
        let c1 = if gen::ratio(u, 1, 8) { BigUint::zero() } else { gen_fp(u) };
        Coord::Fp2(F2 { c0, c1 })
    }

    fn next_x(x: &Coord) -> Coord {
        match x {
            Coord::Fp2(x) => Coord::Fp2(F2 { c0: (&x.c0 + BigUint::one()) % big::p381(), c1: x.c1.clone() }),
            _ => unreachable!(),
        }
    }

    fn x_on_curve(x: &Coord) -> bool {
        match x {
            Coord::Fp2(x) => x.sq().mul(x).add(&b_g2()).sqrt().is_some(),
            _ => unreachable!(),
        }
    }

    fn y_for(x: &Coord) -> Coord {
        match x {
            Coord::Fp2(x) => Coord::Fp2(x.sq().mul(x).add(&b_g2()).sqrt().expect("on curve")),
            _ => unreachable!(),
        }
    }

    fn neg_y(y: &Coord) -> Coord {
        match y {
            Coord::Fp2(y) => Coord::Fp2(y.neg()),
            _ => unreachable!(),
        }
    }

    fn from_coords_unchecked(x: &Coord, y: &Coord) -> Self {
        match (x, y) {
            (Coord::Fp2(x), Coord::Fp2(y)) => {
                let a = ark_bls12_381::G2Affine::new_unchecked(
                    ark_bls12_381::Fq2::new(big_to_fq(&x.c0), big_to_fq(&x.c1)),
                    ark_bls12_381::Fq2::new(big_to_fq(&y.c0), big_to_fq(&y.c1)),
                );
                ark_bls12_381::G2Projective::from(a).into()
            }
            _ => unreachable!(),
        }
    }

    fn times_order(&self) -> Self {
        let r: Vec<u64> = big::limbs4(big::r381());
        self.into_ark().into_affine().mul_bigint(&r).into()
    }
}

/// A valid group element with its provenance.
fn gen_valid<C: TC>(u: &mut Unstructured) -> (C, &'static str) {
    match gen::byte(u) % 8 {
        0 => (C::zero_point(), "identity"),
        1 => (C::one_point(), "generator"),
        2 => {
            let (e, _) = gen_scalar(u, C::order());
            (C::one_point().mul_by_scalar(&scalar_from_big::<C>(&e)), "generator-multiple")
        }
        3 => {
            let k = gen::range_u64(u, 1, 16);
            (double_and_add(&C::pool()[gen::idx(u, POOL)], &BigUint::from(k)), "pool-small-multiple")
        }
        _ => {
            let e = BigUint::from_bytes_le(&gen::bytes(u, 32)) % C::order();
            (C::pool()[gen::idx(u, POOL)].mul_by_scalar(&scalar_from_big::<C>(&e)), "pool-multiple")
        }
    }
}

/// Walk from x to the first x' >= x whose curve-membership equals `want`.
fn walk_x<C: Bls>(mut x: Coord, want: bool) -> Coord {
    for _ in 0..200 {
        if C::x_on_curve(&x) == want {
            return x;
        }
        x = C::next_x(&x);
    }
    x
}

fn set_x_bytes(len: usize, v: &BigUint) -> Vec<u8> {
    // big-endian, `len` bytes (value < 2^(8 len))
    let raw = v.to_bytes_be();
    let mut out = vec![0u8; len];
    out[len - raw.len()..].copy_from_slice(&raw);
    out
}

/// Produce the byte string of a case together with the name of the construction.
fn gen_bls_bytes<C: Bls>(u: &mut Unstructured) -> (Vec<u8>, &'static str) {
    let p = big::p381();
    match gen::byte(u) % 20 {
        // -- valid encodings ------------------------------------------------------------
        0..=2 => {
            let (pt, _) = gen_valid::<C>(u);
            (to_bytes(&pt), "valid")
        }
        // -- mutations of valid encodings ---------------------------------------------------
        3 => {
            let (pt, _) = gen_valid::<C>(u);
            let mut b = to_bytes(&pt);
            let bit = gen::idx(u, C::LEN * 8);
            b[bit / 8] ^= 0x80 >> (bit % 8);
            (b, "valid-bitflip")
        }
        4 => {
            let (pt, _) = gen_valid::<C>(u);
            let mut b = to_bytes(&pt);
            b[0] ^= [0x80u8, 0x40, 0x20, 0xc0, 0x60, 0xa0, 0xe0][gen::idx(u, 7)];
            (b, "valid-flagflip")
        }
        5 => {
            let (pt, _) = gen_valid::<C>(u);
            let mut b = to_bytes(&pt);
            match gen::byte(u) % 4 {
                0 => b.truncate(C::LEN - 1),
                1 => b.truncate(gen::idx(u, C::LEN)),
                2 => b.truncate(C::LEN / 2),
                _ => b.clear(),
            }
            (b, "truncated")
        }
        // -- x not canonical ------------------------------------------------------------------
        6 | 7 => {
            // value in [p, 2^381) in the (first) 48-byte coordinate, or for G2 in either half
            let top = (BigUint::one() << 381u32) - BigUint::one();
            let v = match gen::byte(u) % 5 {
                0 => p.clone(),
                1 => p + BigUint::from(1u32 + gen::byte(u) as u32),
                2 => top.clone(),
                3 => {
                    // p + (x of a valid point): "x + p" aliases a valid point
                    let (pt, _) = gen_valid::<C>(u);
                    let b = to_bytes(&pt);
                    let mut body = b[C::LEN - 48..].to_vec();
                    if C::LEN == 48 {
                        body[0] &= 0x1f;
                    }
                    let v = BigUint::from_bytes_be(&body) + p;
                    if v > top {
                        p.clone()
                    } else {
                        v
                    }
                }
                _ => p + BigUint::from_bytes_be(&gen::bytes(u, 48)) % (&top - p + BigUint::one()),
            };
            let (pt, _) = gen_valid::<C>(u);
            let mut b = if pt.is_zero_point() { to_bytes(&C::one_point()) } else { to_bytes(&pt) };
            let flags = b[0] & 0xe0;
            if C::LEN == 48 || gen::boolean(u) {
                b[0..48].copy_from_slice(&set_x_bytes(48, &v));
                b[0] |= flags;
            } else {
                b[48..96].copy_from_slice(&set_x_bytes(48, &v));
            }
            (b, "x>=p")
        }
        // -- off curve ----------------------------------------------------------------------
        8 | 9 => {
            let x = walk_x::<C>(C::gen_x(u), false);
            // any y: the encoder only looks at its "sign"
            let mut b = big::model_encode(&x, &x);
            if gen::boolean(u) {
                b[0] ^= 0x20;
            }
            (b, "off-curve")
        }
        // -- on curve, (almost surely) outside the prime order subgroup ------------------------
        10 | 11 => {
            let x = walk_x::<C>(C::gen_x(u), true);
            let y = C::y_for(&x);
            let y = if gen::boolean(u) { C::neg_y(&y) } else { y };
            (big::model_encode(&x, &y), "on-curve-random-x")
        }
        12 => {
            // a point of the cofactor subgroup: r * Q for a random curve point Q
            let x = walk_x::<C>(C::gen_x(u), true);
            let y = C::y_for(&x);
            let q = C::from_coords_unchecked(&x, &y);
            let t = q.times_order();
            match t.coords() {
                Some((tx, ty)) => (big::model_encode(&tx, &ty), "cofactor-torsion"),
                None => (big::model_encode_infinity(C::LEN), "valid"),
            }
        }
        13 => {
            // P + T with P in the group and T a non-trivial cofactor-torsion point
            let x = walk_x::<C>(C::gen_x(u), true);
            let y = C::y_for(&x);
            let t = C::from_coords_unchecked(&x, &y).times_order();
            let (pt, _) = gen_valid::<C>(u);
            let s = pt.plus_point(&t);
            match s.coords() {
                Some((sx, sy)) => (big::model_encode(&sx, &sy), "group-plus-torsion"),
                None => (big::model_encode_infinity(C::LEN), "valid"),
            }
        }
        // -- infinity flag --------------------------------------------------------------------
        14 | 15 => {
            let mut b = vec![0u8; C::LEN];
            match gen::byte(u) % 5 {
                0 => {
                    b[gen::idx(u, C::LEN)] |= 1 << gen::idx(u, 8);
                }
                1 => {
                    let r = gen::bytes(u, C::LEN);
                    b.copy_from_slice(&r);
                }
                2 => {
                    let (pt, _) = gen_valid::<C>(u);
                    b = to_bytes(&pt);
                }
                3 => b[C::LEN - 1] = 1,
                _ => {}
            }
            b[0] |= 0xc0;
            if gen::ratio(u, 1, 4) {
                b[0] |= 0x20;
            }
            (b, "infinity-flag")
        }
        // -- random strings ---------------------------------------------------------------------
        16 => (gen::bytes(u, C::LEN), "random"),
        17 => {
            let mut b = gen::bytes(u, C::LEN);
            b[0] |= 0x80;
            b[0] &= !0x40;
            // keep x below p most of the time: clear two more bits
            b[0] &= 0xaf;
            (b, "random-compressed")
        }
        18 => {
            // small x values (x = 0 gives the points of order 3 on G1)
            let v = BigUint::from(gen::byte(u) % 16);
            let mut b = vec![0u8; C::LEN];
            b[C::LEN - 48..].copy_from_slice(&set_x_bytes(48, &v));
            b[0] |= 0x80;
            if gen::boolean(u) {
                b[0] |= 0x20;
            }
            (b, "small-x")
        }
        _ => {
            let (pt, _) = gen_valid::<C>(u);
            let mut b = to_bytes(&pt);
            // uncompressed flag pattern / all flag combinations on a valid body
            b[0] = (b[0] & 0x1f) | ((gen::byte(u) % 8) << 5);
            (b, "valid-body-any-flags")
        }
    }
}

fn run_bls<C: Bls>(u: &mut Unstructured, ctx: &mut Ctx) -> CheckResult {
    let (bytes, how) = gen_bls_bytes::<C>(u);
    ctx.class(C::NAME);
    ctx.class(&format!("{}:gen:{}", C::NAME, how));
    // the model's verdict
    let verdict: Result<Option<(Coord, Coord)>, &'static str> = match C::model_decode(&bytes) {
        ModelPoint::Reject(why) => Err(why),
        ModelPoint::Infinity => Ok(None),
        ModelPoint::OnCurve { x, y } => {
            if in_subgroup(&x, &y) {
                Ok(Some((x, y)))
            } else {
                Err("wrong-subgroup")
            }
        }
    };
    let desc = format!("curve={} construction={} bytes={} model={}", C::NAME, how, gen::hex(&bytes), match &verdict {
        Ok(None) => "valid(identity)".to_string(),
        Ok(Some(_)) => "valid(point)".to_string(),
        Err(w) => format!("invalid({w})"),
    });
    ctx.describe(|| desc.clone());
    let real = from_bytes::<C, _>(&mut Cursor::new(&bytes));
    match verdict {
        Err(why) => {
            ctx.class(&format!("{}:invalid:{}", C::NAME, why));
            ctx.class("invalid");
            ctx.nontrivial(&(C::NAME, &bytes));
            ctx.sample(|| desc.clone());
            if real.is_ok() {
                // (F-C20-1, fixed in /repo by 512f728a1: infinity flag with stray bits used to be
                // accepted as the identity; it is an ordinary violation like every other kind.)
                let sig = format!("accepts-invalid:{}:{}", C::NAME, why);
                return Err(Violation::new(
                    "accepts-invalid-encoding",
                    format!("{}: checked decoder accepted an invalid encoding ({why}): {}", C::NAME, gen::hex(&bytes)),
                )
                .with_signature(sig));
            }
        }
        Ok(expect) => {
            ctx.class("valid");
            ctx.class(&format!("{}:valid", C::NAME));
            let pt = match real {
                Ok(pt) => pt,
                Err(e) => {
                    return Err(Violation::new(
                        "rejects-valid-encoding",
                        format!("{}: checked decoder rejected a valid canonical encoding {}: {e}", C::NAME, gen::hex(&bytes)),
                    )
                    .with_signature(format!("rejects-valid:{}", C::NAME)))
                }
            };
            // same point as the model
            let got = pt.coords();
            vensure!(got == expect, "decoded-point-differs", "{}: decoder returned {:?}, model {:?} for {}", C::NAME, got, expect, gen::hex(&bytes));
            vensure!(pt.is_zero_point() == expect.is_none(), "decoded-point-differs", "{}: identity mismatch", C::NAME);
            // canonical: the encoder gives back the input
            let re = to_bytes(&pt);
            vensure!(re == bytes, "reencode-differs", "{}: decode then encode changed {} into {}", C::NAME, gen::hex(&bytes), gen::hex(&re));
            // model encoder agrees with the encoder under test
            let me = match &expect {
                None => big::model_encode_infinity(C::LEN),
                Some((x, y)) => big::model_encode(x, y),
            };
            vensure!(me == re, "encoder-vs-model", "{}: encoder output {} differs from the format model {}", C::NAME, gen::hex(&re), gen::hex(&me));
            // round trip through the value
            let back = from_bytes::<C, _>(&mut Cursor::new(&re));
            vensure!(matches!(back, Ok(q) if q == pt), "roundtrip", "{}: from_bytes(to_bytes(p)) != p", C::NAME);
            // trailing data is left alone: a valid encoding followed by junk decodes to the same point
            let mut longer = bytes.clone();
            longer.extend_from_slice(&[0xff, 0x00, 0x80]);
            let mut cur = Cursor::new(&longer);
            let again = from_bytes::<C, _>(&mut cur);
            vensure!(matches!(again, Ok(q) if q == pt) && cur.position() as usize == C::LEN, "reads-exact-length", "{}: decoder did not consume exactly {} bytes", C::NAME, C::LEN);
        }
    }
    Ok(())
}

// ------------------------------------------------------------------------------------------
// ristretto255

fn gen_rist_bytes(u: &mut Unstructured) -> (Vec<u8>, &'static str) {
    let p = big::p25519();
    let le32 = |v: &BigUint| {
        let mut b = v.to_bytes_le();
        b.resize(32, 0);
        b
    };
    match gen::byte(u) % 12 {
        0..=2 => (to_bytes(&gen_valid::<Rist>(u).0), "valid"),
        3 => {
            let mut b = to_bytes(&gen_valid::<Rist>(u).0);
            let bit = gen::idx(u, 256);
            b[bit / 8] ^= 1 << (bit % 8);
            (b, "valid-bitflip")
        }
        4 => {
            // s + p: aliases a valid s when s < 19 .. only tiny s fit; otherwise just >= p
            let v = match gen::byte(u) % 4 {
                0 => p.clone(),
                1 => p + BigUint::from(gen::byte(u) % 19),
                2 => (BigUint::one() << 255u32) + BigUint::from_bytes_le(&gen::bytes(u, 31)),
                _ => (BigUint::one() << 256u32) - BigUint::one(),
            };
            (le32(&v), "s>=p")
        }
        5 => {
            // negative s: a valid encoding negated (p - s) is odd
            let b = to_bytes(&gen_valid::<Rist>(u).0);
            let s = BigUint::from_bytes_le(&b);
            let v = if s.is_zero() { BigUint::one() } else { p - s };
            (le32(&v), "s-negative")
        }
        6 => {
            let mut b = to_bytes(&gen_valid::<Rist>(u).0);
            b[31] |= 0x80;
            (b, "high-bit-set")
        }
        7 => {
            let mut b = to_bytes(&gen_valid::<Rist>(u).0);
            match gen::byte(u) % 3 {
                0 => b.truncate(31),
                1 => b.truncate(gen::idx(u, 32)),
                _ => b.clear(),
            }
            (b, "truncated")
        }
        8 => {
            // small even s
            let v = BigUint::from(2 * (gen::byte(u) as u32));
            (le32(&v), "small-s")
        }
        9 => {
            // random canonical non-negative s: valid with probability about 1/4
            let mut b = gen::bytes(u, 32);
            b[0] &= 0xfe;
            b[31] &= 0x7f;
            (b, "random-even-s")
        }
        10 => {
            // encodings of low order points of the underlying curve / special values from the
            // RFC 9496 "bad encodings" list shape: s = 1, p-1, sqrt(-1), ...
            let c = [
                BigUint::one(),
                p - BigUint::one(),
                BigUint::parse_bytes(b"19681161376707505956807079304988542015446066515923890162744021073123829784752", 10).unwrap(),
                p - BigUint::parse_bytes(b"19681161376707505956807079304988542015446066515923890162744021073123829784752", 10).unwrap(),
                BigUint::zero(),
            ];
            (le32(&c[gen::idx(u, c.len())]), "special-s")
        }
        _ => (gen::bytes(u, 32), "random"),
    }
}

fn run_rist(u: &mut Unstructured, ctx: &mut Ctx) -> CheckResult {
    let (bytes, how) = gen_rist_bytes(u);
    ctx.class("ristretto");
    ctx.class(&format!("ristretto:gen:{how}"));
    let verdict = big::model_decode_ristretto(&bytes);
    let desc = format!("curve=ristretto construction={how} bytes={} model={:?}", gen::hex(&bytes), match &verdict {
        ModelRistretto::Reject(w) => format!("invalid({w})"),
        ModelRistretto::Accept { .. } => "valid".to_string(),
    });
    ctx.describe(|| desc.clone());
    let real = from_bytes::<Rist, _>(&mut Cursor::new(&bytes));
    match verdict {
        ModelRistretto::Reject(why) => {
            ctx.class("invalid");
            ctx.class(&format!("ristretto:invalid:{why}"));
            ctx.nontrivial(&("ristretto", &bytes));
            ctx.sample(|| desc.clone());
            if real.is_ok() {
                return Err(Violation::new(
                    "accepts-invalid-encoding",
                    format!("ristretto: checked decoder accepted an invalid encoding ({why}): {}", gen::hex(&bytes)),
                )
                .with_signature(format!("accepts-invalid:ristretto:{why}")));
            }
        }
        ModelRistretto::Accept { x, y } => {
            ctx.class("valid");
            ctx.class("ristretto:valid");
            vensure!(big::on_edwards25519(&x, &y), "harness-model", "model produced a point off the Edwards curve");
            let pt = match real {
                Ok(pt) => pt,
                Err(e) => {
                    return Err(Violation::new(
                        "rejects-valid-encoding",
                        format!("ristretto: checked decoder rejected a valid canonical encoding {}: {e}", gen::hex(&bytes)),
                    )
                    .with_signature("rejects-valid:ristretto"))
                }
            };
            let re = to_bytes(&pt);
            vensure!(re == bytes, "reencode-differs", "ristretto: decode then encode changed {} into {}", gen::hex(&bytes), gen::hex(&re));
            let back = from_bytes::<Rist, _>(&mut Cursor::new(&re));
            vensure!(matches!(back, Ok(q) if q == pt), "roundtrip", "ristretto: from_bytes(to_bytes(p)) != p");
            // in the prime order group: l * P = identity
            let lp = double_and_add(&pt, big::l25519());
            vensure!(lp.is_zero_point(), "not-in-group", "ristretto: decoded element is not killed by the group order");
            vensure!(pt.is_zero_point() == bytes.iter().all(|b| *b == 0), "identity-encoding", "ristretto: identity <-> all-zero encoding broken");
        }
    }
    Ok(())
}

pub fn t_point_enc(data: &[u8], ctx: &mut Ctx) -> CheckResult {
    let mut u = Unstructured::new(data);
    match gen::byte(&mut u) % 8 {
        0..=2 => run_bls::<G1>(&mut u, ctx),
        3..=5 => run_bls::<G2>(&mut u, ctx),
        _ => run_rist(&mut u, ctx),
    }
}

// ------------------------------------------------------------------------------------------
// scalars

/// Scalar encodings: `big_endian` for BLS12-381 Fr, little-endian for the ristretto scalar field.
fn run_scalar<C: TC>(u: &mut Unstructured, ctx: &mut Ctx, big_endian: bool) -> CheckResult {
    let r = C::order();
    ctx.class(C::NAME);
    let two256 = BigUint::one() << 256u32;
    let (v, how): (BigUint, &'static str) = match gen::byte(u) % 12 {
        0..=2 => {
            let (v, _) = gen_scalar(u, r);
            (v, "table-below-r")
        }
        3 => (r.clone(), "r"),
        4 => (r + BigUint::from(gen::byte(u)), "r+small"),
        5 => {
            // value + k*r still below 2^256: aliases of a valid scalar
            let (v, _) = gen_scalar(u, r);
            let kmax = ((&two256 - BigUint::one() - &v) / r).to_u64_digits().first().copied().unwrap_or(0);
            let k = gen::range_u64(u, 1, kmax.max(1));
            (v + r * BigUint::from(k), "alias+kr")
        }
        6 => (&two256 - BigUint::one(), "2^256-1"),
        7 => ((BigUint::one() << 255u32) - BigUint::from(gen::byte(u) % 2), "2^255"),
        8 => (r - BigUint::one(), "r-1"),
        _ => (BigUint::from_bytes_le(&gen::bytes(u, 32)), "random-256"),
    };
    let v = v % &two256;
    let mut bytes = v.to_bytes_le();
    bytes.resize(32, 0);
    if big_endian {
        bytes.reverse();
    }
    let truncated = gen::ratio(u, 1, 16);
    if truncated {
        bytes.truncate(gen::idx(u, 32));
    }
    let valid = &v < r && !truncated;
    ctx.class(&format!("{}:gen:{}", C::NAME, how));
    let desc = format!("scalar field of {} construction={how} bytes={} valid={valid}", C::NAME, gen::hex(&bytes));
    ctx.describe(|| desc.clone());
    let real = from_bytes::<C::Scalar, _>(&mut Cursor::new(&bytes));
    if valid {
        ctx.class("valid");
        let s = match real {
            Ok(s) => s,
            Err(e) => {
                return Err(Violation::new("rejects-valid-scalar", format!("{}: rejected canonical scalar {}: {e}", C::NAME, gen::hex(&bytes)))
                    .with_signature(format!("rejects-valid-scalar:{}", C::NAME)))
            }
        };
        vensure!(scalar_to_big::<C>(&s) == v, "scalar-value", "{}: decoded scalar has a different value than its encoding {}", C::NAME, gen::hex(&bytes));
        vensure!(to_bytes(&s) == bytes, "scalar-reencode", "{}: scalar re-encodes differently", C::NAME);
        vensure!(s == scalar_from_big::<C>(&v), "scalar-from-repr", "{}: from_repr disagrees with deserialisation", C::NAME);
        vensure!(s.is_zero() == v.is_zero(), "scalar-zero", "{}: is_zero wrong", C::NAME);
        // the secret-value wrapper uses the same encoding
        let val = from_bytes::<Value<C>, _>(&mut Cursor::new(&bytes));
        vensure!(matches!(&val, Ok(x) if **x == s), "value-wrapper", "{}: Value<C> decodes differently from the scalar", C::NAME);
        vensure!(to_bytes(&val.unwrap()) == bytes, "value-wrapper", "{}: Value<C> encodes differently", C::NAME);
        // field identities against big-integer arithmetic on a second table scalar
        let (w, _) = gen_scalar(u, r);
        let ws = scalar_from_big::<C>(&w);
        let mut t = s;
        t.add_assign(&ws);
        vensure!(scalar_to_big::<C>(&t) == (&v + &w) % r, "field-add", "{}: add differs from big-integer arithmetic", C::NAME);
        let mut t = s;
        t.mul_assign(&ws);
        vensure!(scalar_to_big::<C>(&t) == (&v * &w) % r, "field-mul", "{}: mul differs from big-integer arithmetic", C::NAME);
        let mut t = s;
        t.sub_assign(&ws);
        vensure!(scalar_to_big::<C>(&t) == ((&v + r) - &w) % r, "field-sub", "{}: sub differs from big-integer arithmetic", C::NAME);
        let mut t = s;
        t.negate();
        vensure!(scalar_to_big::<C>(&t) == (r - &v) % r, "field-neg", "{}: negate differs from big-integer arithmetic", C::NAME);
        match s.inverse() {
            None => vensure!(v.is_zero(), "field-inverse", "{}: inverse of a non-zero scalar is None", C::NAME),
            Some(i) => {
                vensure!(!v.is_zero() && (scalar_to_big::<C>(&i) * &v) % r == BigUint::one(), "field-inverse", "{}: inverse wrong", C::NAME)
            }
        }
    } else {
        ctx.class("invalid");
        ctx.class(&format!("{}:invalid:{}", C::NAME, if truncated { "truncated" } else { ">=r" }));
        ctx.nontrivial(&(C::NAME, &bytes));
        ctx.sample(|| desc.clone());
        if real.is_ok() {
            return Err(Violation::new("accepts-invalid-scalar", format!("{}: accepted non-canonical scalar encoding {}", C::NAME, gen::hex(&bytes)))
                .with_signature(format!("accepts-invalid-scalar:{}", C::NAME)));
        }
        // from_repr must reject the same integer
        if !truncated {
            vensure!(C::Scalar::from_repr(&big::limbs4(&v)).is_err(), "from-repr-accepts", "{}: from_repr accepted a value >= r", C::NAME);
        }
    }

    // scalar_from_bytes: documented as "take the first CAPACITY bits, little endian, zero padded / truncated"
    let raw = gen::short_bytes(u, 40);
    let cap = <C::Scalar as PrimeField>::CAPACITY;
    let mut first = raw.clone();
    first.truncate(32);
    let want = BigUint::from_bytes_le(&first) & ((BigUint::one() << cap) - BigUint::one());
    let got = C::scalar_from_bytes(&raw);
    vensure!(scalar_to_big::<C>(&got) == want, "scalar-from-bytes", "{}: scalar_from_bytes({}) = {} but the documented truncation gives {}", C::NAME, gen::hex(&raw), big::hex_of(&scalar_to_big::<C>(&got)), big::hex_of(&want));
    let n = gen::boundary_u64(u);
    vensure!(scalar_to_big::<C>(&C::scalar_from_u64(n)) == BigUint::from(n), "scalar-from-u64", "{}: scalar_from_u64({n}) wrong", C::NAME);
    Ok(())
}

pub fn t_scalar_enc(data: &[u8], ctx: &mut Ctx) -> CheckResult {
    let mut u = Unstructured::new(data);
    match gen::byte(&mut u) % 3 {
        0 => run_scalar::<G1>(&mut u, ctx, true),
        1 => run_scalar::<Rist>(&mut u, ctx, false),
        _ => run_scalar::<G2>(&mut u, ctx, true),
    }
}

// ------------------------------------------------------------------------------------------
// hash to group

fn gen_msg(u: &mut Unstructured) -> Vec<u8> {
    match gen::byte(u) % 6 {
        0 => Vec::new(),
        1 => vec![gen::byte(u)],
        2 => {
            let n = gen::range_usize(u, 0, 64);
            gen::bytes(u, n)
        }
        3 => {
            let b = gen::byte(u);
            let n = gen::range_usize(u, 0, 300);
            vec![b; n]
        }
        4 => {
            let n = *gen::choose(u, &[55usize, 56, 63, 64, 65, 119, 120, 127, 128, 129, 255, 256]);
            gen::bytes(u, n)
        }
        _ => gen::short_bytes(u, 200),
    }
}

const DST_G1: &[u8] = b"CONCORDIUM-hashtoG1-with-BLS12381G1_XMD:SHA-256_SSWU_RO";
const DST_G2: &[u8] = b"CONCORDIUM-hashtoG2-with-BLS12381G2_XMD:SHA-256_SSWU_RO";

fn run_hash<C: TC>(u: &mut Unstructured, ctx: &mut Ctx, check: impl Fn(&[u8], &C) -> CheckResult) -> CheckResult {
    let m = gen_msg(u);
    ctx.class(C::NAME);
    ctx.class(match m.len() {
        0 => "len=0",
        1..=64 => "len=1..64",
        _ => "len>64",
    });
    ctx.nontrivial(&(C::NAME, &m));
    let desc = format!("curve={} msg={}", C::NAME, gen::hex(&m));
    ctx.sample(|| desc.clone());
    ctx.describe(|| desc.clone());
    let a = match C::hash_to_group(&m) {
        Ok(a) => a,
        Err(e) => vfail!("hash-to-group-fails", "{}: hash_to_group failed: {e}", C::NAME),
    };
    let b = C::hash_to_group(&m).ok();
    vensure!(b == Some(a), "hash-deterministic", "{}: hash_to_group is not deterministic", C::NAME);
    vensure!(!a.is_zero_point(), "hash-identity", "{}: hash_to_group returned the identity", C::NAME);
    vensure!(double_and_add(&a, C::order()).is_zero_point(), "hash-not-in-group", "{}: hash_to_group output is not killed by the group order", C::NAME);
    // the output has a valid canonical encoding
    let enc = to_bytes(&a);
    let back = from_bytes::<C, _>(&mut Cursor::new(&enc));
    vensure!(matches!(back, Ok(q) if q == a), "hash-roundtrip", "{}: hash_to_group output does not survive encoding", C::NAME);
    // a different message gives a different element
    let mut m2 = m.clone();
    match gen::byte(u) % 3 {
        0 => m2.push(0),
        1 if !m2.is_empty() => {
            let i = gen::idx(u, m2.len());
            m2[i] ^= 1 << gen::idx(u, 8);
        }
        _ => m2.insert(0, 0),
    }
    let c = C::hash_to_group(&m2).ok();
    vensure!(c.is_some() && c != Some(a), "hash-collision", "{}: two different messages hash to the same element", C::NAME);
    check(&m, &a)
}

pub fn t_hash_to_group(data: &[u8], ctx: &mut Ctx) -> CheckResult {
    use ark_ec::hashing::{curve_maps::wb::WBMap, map_to_curve_hasher::MapToCurveBasedHasher, HashToCurve};
    use ark_ff::field_hashers::DefaultFieldHasher;
    let mut u = Unstructured::new(data);
    match gen::byte(&mut u) % 4 {
        0 | 1 => run_hash::<G1>(&mut u, ctx, |m, a| {
            // on the curve by the big-integer equation, and equal to the IETF suite with Concordium's tag
            if let Some((Coord::Fp(x), Coord::Fp(y))) = a.coords() {
                let p = big::p381();
                let rhs = big::addm(&big::mulm(&big::mulm(&x, &x, p), &x, p), &BigUint::from(4u32), p);
                vensure!(big::mulm(&y, &y, p) == rhs, "hash-off-curve", "g1: hash_to_group output violates y^2 = x^3 + 4");
            }
            type H = MapToCurveBasedHasher<ark_bls12_381::G1Projective, DefaultFieldHasher<sha2::Sha256, 128>, WBMap<ark_bls12_381::g1::Config>>;
            let h = <H as HashToCurve<ark_bls12_381::G1Projective>>::new(DST_G1).map_err(|_| Violation::new("harness", "hasher"))?;
            let want: G1 = ark_bls12_381::G1Projective::from(h.hash(m).map_err(|_| Violation::new("harness", "hash"))?).into();
            vensure!(&want == a, "hash-suite", "g1: hash_to_group differs from BLS12381G1_XMD:SHA-256_SSWU_RO with the documented domain tag");
            Ok(())
        }),
        2 => run_hash::<G2>(&mut u, ctx, |m, a| {
            if let Some((Coord::Fp2(x), Coord::Fp2(y))) = a.coords() {
                let rhs = x.sq().mul(&x).add(&F2 { c0: BigUint::from(4u32), c1: BigUint::from(4u32) });
                vensure!(y.sq() == rhs, "hash-off-curve", "g2: hash_to_group output violates y^2 = x^3 + 4(1+u)");
            }
            type H = MapToCurveBasedHasher<ark_bls12_381::G2Projective, DefaultFieldHasher<sha2::Sha256, 128>, WBMap<ark_bls12_381::g2::Config>>;
            let h = <H as HashToCurve<ark_bls12_381::G2Projective>>::new(DST_G2).map_err(|_| Violation::new("harness", "hasher"))?;
            let want: G2 = ark_bls12_381::G2Projective::from(h.hash(m).map_err(|_| Violation::new("harness", "hash"))?).into();
            vensure!(&want == a, "hash-suite", "g2: hash_to_group differs from BLS12381G2_XMD:SHA-256_SSWU_RO with the documented domain tag");
            Ok(())
        }),
        _ => run_hash::<Rist>(&mut u, ctx, |m, a| {
            // documented construction: one-way map applied to SHA-512(m)
            let d = Sha512::digest(m);
            let mut w = [0u8; 64];
            w.copy_from_slice(&d);
            let want = Rist::from_uniform_bytes(&w);
            vensure!(&want == a, "hash-suite", "ristretto: hash_to_group differs from from_uniform_bytes(SHA-512(m))");
            Ok(())
        }),
    }
}
