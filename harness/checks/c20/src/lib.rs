//! C20: group arithmetic, encodings, secret sharing and key derivation are exact.
//! See NOTES.md for generator / oracle / assumptions / sensitivity log.
pub mod big;
pub mod curves;
pub mod t_enc;
pub mod t_keys;
pub mod t_multiexp;
pub mod t_sharing;

use vcore::{Property, Target};

pub fn property() -> Property {
    Property {
        id: "C20",
        rule: "Cases are decoded from a choice sequence. multiexp: curve (G1/G2 of BLS12-381, ristretto255), window size 1..8, \
               0..40 (point, scalar) pairs with points from {pool element, identity, generator, copy/negative/small multiple of an \
               earlier point} and scalars from a boundary table (0, 1, 2, r-1, r-2, (r+-1)/2, 2^k, 2^k+-1, 2^(64j), 2^(64j)+-1, windows of \
               ones, runs of ones straddling a 64-bit limb boundary, per-limb boundary values, r-2^k, byte patterns, random); non-trivial = at \
               least one boundary scalar and one identity/repeated/negated point, distinct by (curve, window, point kinds, scalars). \
               point_enc/scalar_enc: a byte string built as valid encoding, mutation of one, x>=p, off-curve x, on-curve x outside the \
               subgroup, cofactor-torsion point, group element plus torsion point, infinity flag with non-zero body, any flag pattern, \
               truncated, random; an independent model decoder decides validity; non-trivial = the model says invalid, distinct by bytes. \
               hash_to_group: messages of length 0..300; sharing: threshold 1..8, up to 6 extra shares, distinct non-zero evaluation \
               points incl. 2^32-1 and 2^64-1, boundary secrets; non-trivial = threshold < number of shares. keyderiv/slip10: seeds, \
               nets, indices incl. 0 and 2^31-1, one input varied per case; every case non-trivial, distinct by inputs. vectors: the \
               published test vectors.",
        assumptions: &[
            "field constants (BLS12-381 p, r; 2^255-19; ristretto group order; Edwards d; sqrt(-1)) are copied from the specifications into the harness",
            "arkworks field <-> integer conversion and its generic double-and-add (mul_bigint) are trusted for the subgroup oracle; num-bigint is trusted",
            "sha2 (SHA-256/512 compression) is shared between the code under test and the reference HMAC/HKDF/SLIP-10; HMAC, HKDF and SLIP-10 themselves are re-implemented",
            "multiexp inputs have equal numbers of points and scalars and window sizes 1..8 (documented assumption of GenericMultiExp)",
            "secret-sharing evaluation points are distinct and non-zero (documented precondition; anonymity revoker identities are non-zero)",
            "an encoding with the infinity flag and any other non-zero bit (incl. the sort flag) is invalid (zcash format: remaining bits must be zero); acceptance was finding F-C20-1, fixed in /repo by 512f728a1",
            "collisions of SHA-512/HMAC outputs between distinct paths are treated as impossible",
        ],
        targets: vec![
            Target::new("multiexp", t_multiexp::t_multiexp)
                .len(8, 2600)
                .cases(24_000, 1_500_000)
                .shrink_iters(400)
                .floors(&[("nontrivial", 0.25), ("has-limb-boundary-scalar", 0.20), ("has-identity", 0.15), ("len=40", 0.03)]),
            Target::new("pedersen", t_multiexp::t_pedersen).len(8, 700).cases(12_000, 600_000).shrink_iters(400),
            Target::new("point_enc", t_enc::t_point_enc)
                .len(4, 260)
                .cases(200_000, 10_000_000)
                .floors(&[("invalid", 0.30), ("valid", 0.20), ("g1:invalid:wrong-subgroup", 0.03), ("g2:invalid:wrong-subgroup", 0.03)]),
            Target::new("scalar_enc", t_enc::t_scalar_enc).len(4, 200).cases(150_000, 8_000_000).floors(&[("invalid", 0.15), ("valid", 0.30)]),
            Target::new("hash_to_group", t_enc::t_hash_to_group).len(2, 400).cases(16_000, 800_000).shrink_iters(400),
            Target::new("sharing", t_sharing::t_sharing).len(8, 700).cases(12_000, 600_000).shrink_iters(400).floors(&[("t<n", 0.40)]),
            Target::new("keyderiv", t_keys::t_keyderiv).len(8, 300).cases(20_000, 1_000_000).shrink_iters(600),
            Target::new("slip10", t_keys::t_slip10).len(8, 400).cases(60_000, 3_000_000),
            Target::new("vectors", t_keys::t_vectors).len(1, 2).cases(512, 2048),
        ],
    }
}
