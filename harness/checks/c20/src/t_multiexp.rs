//! Target `multiexp`: every multi-exponentiation entry point equals the naive sum.
//! Target `pedersen`: commitment keys (built on multiexp) are consistent with the naive formula.
use crate::curves::*;
use concordium_base::{
    curve_arithmetic::{multiexp, GenericMultiExp, MultiExp, Value},
    pedersen_commitment::{CommitmentKey, Randomness, VecCommitmentKey},
};
use curve25519_dalek::ristretto::VartimeRistrettoPrecomputation;
use num_bigint::BigUint;
use vcore::{gen, vensure, CheckResult, Ctx, Unstructured};

struct MCase<C: TC> {
    gs:     Vec<C>,
    ptags:  Vec<&'static str>,
    es:     Vec<BigUint>,
    etags:  Vec<&'static str>,
    window: usize,
}

fn gen_len(u: &mut Unstructured) -> usize {
    match gen::byte(u) % 8 {
        0 => gen::idx(u, 3),           // 0,1,2
        1..=4 => gen::range_usize(u, 1, 12),
        5 | 6 => gen::range_usize(u, 8, 40),
        _ => 40,
    }
}

fn decode<C: TC>(u: &mut Unstructured) -> MCase<C> {
    let window = gen::range_usize(u, 1, 8);
    let n = gen_len(u);
    let mut gs: Vec<C> = Vec::with_capacity(n);
    let mut ptags = Vec::with_capacity(n);
    let mut es = Vec::with_capacity(n);
    let mut etags = Vec::with_capacity(n);
    for _ in 0..n {
        let (g, pt) = gen_point::<C>(u, &gs);
        gs.push(g);
        ptags.push(pt);
        let (e, et) = gen_scalar(u, C::order());
        es.push(e);
        etags.push(et);
    }
    MCase { gs, ptags, es, etags, window }
}

fn pretty<C: TC>(c: &MCase<C>) -> String {
    let mut s = format!("curve={} n={} window={}\n", C::NAME, c.gs.len(), c.window);
    for i in 0..c.gs.len() {
        s.push_str(&format!(
            "  [{i}] point={} ({}) scalar={} ({})\n",
            gen::hex(&concordium_base::common::to_bytes(&c.gs[i])),
            c.ptags[i],
            crate::big::hex_of(&c.es[i]),
            c.etags[i]
        ));
    }
    s
}

fn run_multiexp<C: TC>(u: &mut Unstructured, ctx: &mut Ctx, extra: impl Fn(&[C], &[C::Scalar]) -> Option<(&'static str, C)>) -> CheckResult {
    let c = decode::<C>(u);
    let n = c.gs.len();
    ctx.class(C::NAME);
    ctx.class(match n {
        0 => "len=0",
        1 => "len=1",
        2..=8 => "len=2..8",
        9..=39 => "len=9..39",
        _ => "len=40",
    });
    ctx.class(&format!("window={}", c.window));
    let n_boundary = c.etags.iter().filter(|t| is_boundary_tag(t)).count();
    let n_special = c.ptags.iter().filter(|t| is_special_point_tag(t)).count();
    if n_boundary > 0 {
        ctx.class("has-boundary-scalar");
    }
    if n_special > 0 {
        ctx.class("has-special-point");
    }
    if c.etags.iter().any(|t| matches!(*t, "limb-straddle" | "2^(64j)-1" | "2^(64j)" | "2^(64j)+-" | "limb-table")) {
        ctx.class("has-limb-boundary-scalar");
    }
    if c.ptags.iter().any(|t| *t == "identity") {
        ctx.class("has-identity");
    }
    if c.ptags.iter().any(|t| *t == "repeated" || *t == "negated") {
        ctx.class("has-repeated-or-negated");
    }
    if n_boundary > 0 && n_special > 0 {
        ctx.class("nontrivial");
        ctx.nontrivial(&(C::NAME, c.window, &c.ptags, c.es.iter().map(|e| e.to_bytes_le()).collect::<Vec<_>>()));
    }
    ctx.sample(|| pretty(&c));
    ctx.describe(|| pretty(&c));

    let es: Vec<C::Scalar> = c.es.iter().map(scalar_from_big::<C>).collect();
    // conversion through the limb constructor is exact
    for (e, s) in c.es.iter().zip(es.iter()) {
        vensure!(&scalar_to_big::<C>(s) == e, "scalar-limbs-roundtrip", "{}: from_repr/into_repr changed {}", C::NAME, crate::big::hex_of(e));
    }

    // naive sum of scalar multiples
    let mut goal = C::zero_point();
    for (g, e) in c.gs.iter().zip(es.iter()) {
        goal = goal.plus_point(&g.mul_by_scalar(e));
    }
    // cross-check mul_by_scalar itself on one index with an independent double-and-add
    if n > 0 {
        let i = gen::idx(u, n);
        let a = c.gs[i].mul_by_scalar(&es[i]);
        let b = double_and_add(&c.gs[i], &c.es[i]);
        vensure!(a == b, "mul-by-scalar-vs-double-and-add", "{}: mul_by_scalar differs from double-and-add at index {i}", C::NAME);
    }

    // 1. the entry point used throughout the code base
    let got = multiexp::<C, C>(&c.gs, &es);
    vensure!(
        got == goal,
        "multiexp-default",
        "{}: multiexp(gs, es) differs from the naive sum (n={n})",
        C::NAME
    );
    // 2. the generic wNAF implementation with an explicit window size
    let got = GenericMultiExp::<C>::new(&c.gs, c.window).multiexp(&es);
    if got != goal {
        return Err(vcore::Violation::new(
            "multiexp-generic-window",
            format!("{}: GenericMultiExp(window={}) differs from the naive sum (n={n})", C::NAME, c.window),
        )
        .with_signature(format!("multiexp-generic-window:{}", C::NAME)));
    }
    // 3. the trait-level constructor
    let got = C::new_multiexp(&c.gs).multiexp(&es);
    vensure!(got == goal, "multiexp-trait", "{}: Curve::new_multiexp(..).multiexp differs from the naive sum", C::NAME);
    // 4. curve specific extra implementation
    if let Some((name, got)) = extra(&c.gs, &es) {
        vensure!(got == goal, "multiexp-extra", "{}: {name} differs from the naive sum", C::NAME);
    }
    Ok(())
}

pub fn t_multiexp(data: &[u8], ctx: &mut Ctx) -> CheckResult {
    let mut u = Unstructured::new(data);
    // G2 is about three times as expensive as G1: weight 3 : 2 : 3
    match gen::byte(&mut u) % 8 {
        0..=2 => run_multiexp::<G1>(&mut u, ctx, |_, _| None),
        3 | 4 => run_multiexp::<G2>(&mut u, ctx, |_, _| None),
        _ => run_multiexp::<Rist>(&mut u, ctx, |gs, es| {
            let pre = <VartimeRistrettoPrecomputation as MultiExp>::new(gs);
            Some(("VartimeRistrettoPrecomputation", pre.multiexp(es)))
        }),
    }
}

// ------------------------------------------------------------------------------------------

fn run_pedersen<C: TC>(u: &mut Unstructured, ctx: &mut Ctx) -> CheckResult {
    ctx.class(C::NAME);
    let (g, gt) = gen_point::<C>(u, &[]);
    let (h, ht) = gen_point::<C>(u, &[g]);
    let (v, vt) = gen_scalar(u, C::order());
    let (r, rt) = gen_scalar(u, C::order());
    let vs = scalar_from_big::<C>(&v);
    let rs = scalar_from_big::<C>(&r);
    let key = CommitmentKey::<C>::new(g, h);
    let desc = format!(
        "curve={} g:{gt} h:{ht} value={} ({vt}) randomness={} ({rt})",
        C::NAME,
        crate::big::hex_of(&v),
        crate::big::hex_of(&r)
    );
    ctx.sample(|| desc.clone());
    ctx.describe(|| desc.clone());
    if is_boundary_tag(vt) || is_boundary_tag(rt) {
        ctx.class("boundary-scalar");
        ctx.nontrivial(&(C::NAME, gt, ht, v.to_bytes_le(), r.to_bytes_le()));
    }
    let naive = g.mul_by_scalar(&vs).plus_point(&h.mul_by_scalar(&rs));
    let value = Value::<C>::new(vs);
    let rand = Randomness::<C>::new(rs);
    let c1 = key.hide(&value, &rand);
    vensure!(c1.0 == naive, "pedersen-hide", "{}: hide(v, r) != g^v h^r", C::NAME);
    let c2 = key.hide_worker(&vs, &rs);
    vensure!(c2 == c1, "pedersen-hide-worker", "{}: hide_worker != hide", C::NAME);
    vensure!(key.open(&value, &rand, &c1), "pedersen-open", "{}: open rejects the commitment just made", C::NAME);
    // commit = hide with the returned randomness
    let mut rng = gen::rng(u);
    let (c3, r3) = key.commit(&value, &mut rng);
    let naive3 = g.mul_by_scalar(&vs).plus_point(&h.mul_by_scalar(r3.as_ref()));
    vensure!(c3.0 == naive3, "pedersen-commit", "{}: commit(v) is not g^v h^r for the returned r", C::NAME);
    vensure!(key.open(&value, &r3, &c3), "pedersen-commit-open", "{}: open rejects commit's own output", C::NAME);
    // a different value must not open, provided g is not the identity (g^v is injective in v)
    if !g.is_zero_point() {
        let other = (&v + BigUint::from(1u32)) % C::order();
        let ov = Value::<C>::new(scalar_from_big::<C>(&other));
        vensure!(!key.open(&ov, &rand, &c1), "pedersen-binding", "{}: commitment opens to v+1 with the same randomness", C::NAME);
    }

    // vector commitment key
    let k = gen::range_usize(u, 0, 6);
    let m = gen::range_usize(u, 0, 7);
    let mut gs: Vec<C> = Vec::new();
    for _ in 0..k {
        let (p, _) = gen_point::<C>(u, &gs);
        gs.push(p);
    }
    let vals: Vec<BigUint> = (0..m).map(|_| gen_scalar(u, C::order()).0).collect();
    let svals: Vec<C::Scalar> = vals.iter().map(scalar_from_big::<C>).collect();
    let vkey = VecCommitmentKey::<C>::new(gs.clone(), h);
    let got = vkey.hide(&svals, &rand);
    if m > k {
        ctx.class("vec-too-many-values");
        vensure!(got.is_none(), "pedersen-vec-length", "{}: VecCommitmentKey with {k} bases accepted {m} values", C::NAME);
        vensure!(!vkey.open(&svals, &rand, &c1), "pedersen-vec-length", "{}: open succeeded with too many values", C::NAME);
    } else {
        ctx.class("vec-ok");
        let mut naive = h.mul_by_scalar(&rs);
        for (g, s) in gs.iter().zip(svals.iter()) {
            naive = naive.plus_point(&g.mul_by_scalar(s));
        }
        match got {
            None => vcore::vfail!("pedersen-vec-hide", "{}: hide returned None for {m} values and {k} bases", C::NAME),
            Some(cm) => {
                vensure!(cm.0 == naive, "pedersen-vec-hide", "{}: vector hide differs from the naive product (m={m}, k={k})", C::NAME);
                vensure!(vkey.open(&svals, &rand, &cm), "pedersen-vec-open", "{}: vector open rejects own commitment", C::NAME);
            }
        }
    }
    Ok(())
}

pub fn t_pedersen(data: &[u8], ctx: &mut Ctx) -> CheckResult {
    let mut u = Unstructured::new(data);
    match gen::byte(&mut u) % 4 {
        0 | 1 => run_pedersen::<G1>(&mut u, ctx),
        2 => run_pedersen::<G2>(&mut u, ctx),
        _ => run_pedersen::<Rist>(&mut u, ctx),
    }
}
