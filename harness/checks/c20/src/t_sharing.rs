//! Target `sharing`: Shamir secret sharing (id/secret_sharing.rs) against big-integer arithmetic.
use crate::{big, curves::*};
use concordium_base::{
    curve_arithmetic::{Field, Value},
    id::secret_sharing::{reveal, reveal_in_group, share, Threshold},
};
use num_bigint::BigUint;
use num_traits::{One, Zero};
use vcore::{gen, vensure, CheckResult, Ctx, Unstructured};

fn gen_points(u: &mut Unstructured, n: usize) -> Vec<u64> {
    // distinct, non-zero evaluation points (anonymity revoker identities are non-zero u32; the
    // API accepts anything convertible to u64)
    let mut out: Vec<u64> = Vec::with_capacity(n);
    let style = gen::byte(u) % 4;
    while out.len() < n {
        let cand = match style {
            0 => out.len() as u64 + 1,
            1 => gen::range_u64(u, 1, 255),
            2 => match gen::byte(u) % 6 {
                0 => 1,
                1 => u32::MAX as u64,
                2 => u64::MAX,
                3 => u64::MAX - gen::byte(u) as u64,
                4 => (1u64 << 32) + gen::byte(u) as u64,
                _ => gen::u64v(u),
            },
            _ => gen::u32v(u) as u64,
        };
        let mut c = cand.max(1);
        while out.contains(&c) {
            c = c.wrapping_add(1).max(1);
        }
        out.push(c);
    }
    out
}

/// Lagrange basis polynomial for x_i over the points `xs`, evaluated at 0, mod r:
/// prod_{j != i} x_j / (x_j - x_i).
fn lagrange_big(xs: &[u64], i: usize, r: &BigUint) -> BigUint {
    let mut num = BigUint::one();
    let mut den = BigUint::one();
    let xi = BigUint::from(xs[i]);
    for (j, xj) in xs.iter().enumerate() {
        if j == i {
            continue;
        }
        let xj = BigUint::from(*xj);
        num = (num * &xj) % r;
        den = (den * big::subm(&xj, &xi, r)) % r;
    }
    (num * big::invm(&den, r)) % r
}

/// Pick `k` distinct indices out of `0..n`.
fn gen_subset(u: &mut Unstructured, n: usize, k: usize) -> Vec<usize> {
    let mut all: Vec<usize> = (0..n).collect();
    let mut out = Vec::with_capacity(k);
    for _ in 0..k {
        let i = gen::idx(u, all.len());
        out.push(all.remove(i));
    }
    out
}

fn run<C: TC>(u: &mut Unstructured, ctx: &mut Ctx) -> CheckResult {
    let r = C::order();
    let t = gen::range_usize(u, 1, 8);
    let n = t + match gen::byte(u) % 4 {
        0 => 0,
        1 => 1,
        _ => gen::range_usize(u, 0, 6),
    };
    let xs = gen_points(u, n);
    let (secret, stag) = gen_scalar(u, r);
    let (gen_pt, gtag) = {
        let (p, tag) = gen_point::<C>(u, &[]);
        if p.is_zero_point() {
            (C::one_point(), "generator")
        } else {
            (p, tag)
        }
    };
    let mut rng = gen::rng(u);
    ctx.class(C::NAME);
    ctx.class(&format!("t={t}"));
    if t < n {
        ctx.class("t<n");
        ctx.nontrivial(&(C::NAME, t, &xs, secret.to_bytes_le()));
    } else {
        ctx.class("t=n");
    }
    if is_boundary_tag(stag) {
        ctx.class("boundary-secret");
    }
    let desc = format!("curve={} t={t} n={n} points={:?} secret={} ({stag}) base:{gtag}", C::NAME, xs, big::hex_of(&secret));
    ctx.sample(|| desc.clone());
    ctx.describe(|| desc.clone());

    let s = scalar_from_big::<C>(&secret);
    let threshold = Threshold::try_from(t as u8).expect("t >= 1");
    let data = share::<C, u64, _, _>(&s, xs.iter().copied(), threshold, &mut rng);
    vensure!(data.shares.len() == n, "share-count", "{}: {} shares for {n} points", C::NAME, data.shares.len());
    vensure!(data.coefficients.len() == t - 1, "coefficient-count", "{}: {} coefficients for threshold {t}", C::NAME, data.coefficients.len());
    if t > 1 {
        vensure!(!data.coefficients[t - 2].is_zero(), "top-coefficient-zero", "{}: highest coefficient of the sharing polynomial is zero", C::NAME);
    }
    // every share is the polynomial (secret, coefficients) evaluated at its point, mod r
    let coeffs: Vec<BigUint> = data.coefficients.iter().map(|c| scalar_to_big::<C>(c)).collect();
    let shares: Vec<BigUint> = data.shares.iter().map(|c| scalar_to_big::<C>(c)).collect();
    for (x, y) in xs.iter().zip(shares.iter()) {
        let xb = BigUint::from(*x);
        let mut acc = BigUint::zero();
        for c in coeffs.iter().rev() {
            acc = (acc * &xb + c) % r;
        }
        acc = (acc * &xb + &secret) % r;
        vensure!(&acc == y, "share-evaluation", "{}: share at point {x} is not the polynomial value", C::NAME);
    }

    let g_secret = gen_pt.mul_by_scalar(&s);
    let pick = |idx: &[usize]| -> (Vec<(u64, Value<C>)>, Vec<(u64, C)>) {
        let f: Vec<(u64, Value<C>)> = idx.iter().map(|&i| (xs[i], data.shares[i].clone())).collect();
        let g: Vec<(u64, C)> = idx.iter().map(|&i| (xs[i], gen_pt.mul_by_scalar(&data.shares[i]))).collect();
        (f, g)
    };

    // any t shares reconstruct
    let idx = gen_subset(u, n, t);
    let (f, g) = pick(&idx);
    let got = reveal::<u64, C>(&f);
    vensure!(scalar_to_big::<C>(&got) == secret, "reveal-threshold", "{}: {t} shares {:?} do not reveal the secret", C::NAME, idx);
    let gotg = reveal_in_group::<u64, C>(&g);
    vensure!(gotg == g_secret, "reveal-in-group-threshold", "{}: {t} shares {:?} do not reveal g^secret", C::NAME, idx);
    // Lagrange coefficients agree with big-integer arithmetic: reveal is sum_i l_i y_i
    {
        let pts: Vec<u64> = idx.iter().map(|&i| xs[i]).collect();
        let mut acc = BigUint::zero();
        for (k, &i) in idx.iter().enumerate() {
            acc = (acc + lagrange_big(&pts, k, r) * &shares[i]) % r;
        }
        vensure!(acc == secret, "harness-lagrange", "big-integer interpolation does not give the secret (harness error)");
        // observe a single coefficient through unit shares
        let k = gen::idx(u, t);
        let unit: Vec<(u64, Value<C>)> =
            pts.iter().enumerate().map(|(j, x)| (*x, Value::<C>::new(if j == k { C::Scalar::one() } else { C::Scalar::zero() }))).collect();
        let l = reveal::<u64, C>(&unit);
        vensure!(scalar_to_big::<C>(&l) == lagrange_big(&pts, k, r), "lagrange-coefficient", "{}: Lagrange coefficient {k} over {:?} differs from big-integer arithmetic", C::NAME, pts);
        // and arbitrary share values: interpolation of arbitrary data at zero
        let ys: Vec<BigUint> = (0..t).map(|_| gen_scalar(u, r).0).collect();
        let arb: Vec<(u64, Value<C>)> = pts.iter().zip(ys.iter()).map(|(x, y)| (*x, Value::<C>::new(scalar_from_big::<C>(y)))).collect();
        let mut want = BigUint::zero();
        for k in 0..t {
            want = (want + lagrange_big(&pts, k, r) * &ys[k]) % r;
        }
        vensure!(scalar_to_big::<C>(&reveal::<u64, C>(&arb)) == want, "interpolation", "{}: reveal of arbitrary values differs from big-integer interpolation", C::NAME);
    }
    // more than t shares also reconstruct
    if n > t {
        let m = gen::range_usize(u, t + 1, n);
        let idx = gen_subset(u, n, m);
        let (f, g) = pick(&idx);
        vensure!(scalar_to_big::<C>(&reveal::<u64, C>(&f)) == secret, "reveal-more", "{}: {m} > t shares do not reveal the secret", C::NAME);
        vensure!(reveal_in_group::<u64, C>(&g) == g_secret, "reveal-in-group-more", "{}: {m} > t shares do not reveal g^secret", C::NAME);
    }
    // t-1 shares give a different value. For exactly t-1 shares this is certain (the difference
    // is c * prod(-x_i) with c the non-zero top coefficient and all x_i non-zero).
    if t >= 2 {
        let idx = gen_subset(u, n, t - 1);
        let (f, g) = pick(&idx);
        vensure!(scalar_to_big::<C>(&reveal::<u64, C>(&f)) != secret, "reveal-below-threshold", "{}: t-1 = {} shares {:?} reveal the secret", C::NAME, t - 1, idx);
        vensure!(reveal_in_group::<u64, C>(&g) != g_secret, "reveal-in-group-below-threshold", "{}: t-1 shares reveal g^secret", C::NAME);
    }
    // one corrupted share among t gives a different value
    {
        let idx = gen_subset(u, n, t);
        let (mut f, _) = pick(&idx);
        let k = gen::idx(u, t);
        let bad = (&shares[idx[k]] + BigUint::one() + BigUint::from(gen::byte(u))) % r;
        f[k].1 = Value::<C>::new(scalar_from_big::<C>(&bad));
        vensure!(scalar_to_big::<C>(&reveal::<u64, C>(&f)) != secret, "reveal-corrupted", "{}: a corrupted share still reveals the secret", C::NAME);
    }
    Ok(())
}

pub fn t_sharing(data: &[u8], ctx: &mut Ctx) -> CheckResult {
    let mut u = Unstructured::new(data);
    match gen::byte(&mut u) % 8 {
        0..=4 => run::<G1>(&mut u, ctx),
        5 => run::<G2>(&mut u, ctx),
        _ => run::<Rist>(&mut u, ctx),
    }
}
