//! Glue between the code under test (`Curve` instances of concordium_base) and the harness:
//! scalar <-> BigUint conversion, deterministic point pools, boundary scalar / special point
//! generators, and independent double-and-add.
use crate::big::{self, from_limbs, limbs4};
use concordium_base::curve_arithmetic::{arkworks_instances::ArkGroup, Curve, Field, PrimeField};
use curve25519_dalek::ristretto::RistrettoPoint;
use num_bigint::BigUint;
use num_traits::{One, Zero};
use rand::SeedableRng;
use std::sync::OnceLock;
use vcore::{gen, Unstructured};

// Written without the `Bls12Config` projection (same types as `ArkGroup<G1Projective>` /
// `ArkGroup<G2Projective>`): the coherence check does not normalise the projection.
pub type G1 = ArkGroup<ark_ec::short_weierstrass::Projective<ark_bls12_381::g1::Config>>;
pub type G2 = ArkGroup<ark_ec::short_weierstrass::Projective<ark_bls12_381::g2::Config>>;
pub type Rist = RistrettoPoint;

pub const POOL: usize = 24;

pub trait TC: Curve {
    const NAME: &'static str;
    /// Group order (from the specification, see big.rs).
    fn order() -> &'static BigUint;
    /// Fixed pool of pseudo-random group elements (fixed seed; independent of the run seed).
    fn pool() -> &'static Vec<Self>;
}

fn make_pool<C: Curve>(tag: u64) -> Vec<C> {
    let mut rng = rand_chacha::ChaCha20Rng::seed_from_u64(0xC20_0000 + tag);
    (0..POOL).map(|_| C::generate(&mut rng)).collect()
}

impl TC for G1 {
    const NAME: &'static str = "g1";

    fn order() -> &'static BigUint { big::r381() }

    fn pool() -> &'static Vec<Self> {
        static P: OnceLock<Vec<G1>> = OnceLock::new();
        P.get_or_init(|| make_pool(1))
    }
}

impl TC for G2 {
    const NAME: &'static str = "g2";

    fn order() -> &'static BigUint { big::r381() }

    fn pool() -> &'static Vec<Self> {
        static P: OnceLock<Vec<G2>> = OnceLock::new();
        P.get_or_init(|| make_pool(2))
    }
}

impl TC for Rist {
    const NAME: &'static str = "ristretto";

    fn order() -> &'static BigUint { big::l25519() }

    fn pool() -> &'static Vec<Self> {
        static P: OnceLock<Vec<Rist>> = OnceLock::new();
        P.get_or_init(|| make_pool(3))
    }
}

/// Scalar from an integer `< order` via the limb constructor of the code under test.
pub fn scalar_from_big<C: Curve>(v: &BigUint) -> C::Scalar {
    C::Scalar::from_repr(&limbs4(v)).expect("harness: value below the group order must convert")
}

pub fn scalar_to_big<C: Curve>(s: &C::Scalar) -> BigUint { from_limbs(&s.into_repr()) }

/// Plain MSB-first double-and-add using only `double_point` / `plus_point`.
pub fn double_and_add<C: Curve>(g: &C, e: &BigUint) -> C {
    let mut acc = C::zero_point();
    for i in (0..e.bits()).rev() {
        acc = acc.double_point();
        if e.bit(i) {
            acc = acc.plus_point(g);
        }
    }
    acc
}

fn pow2(k: u64) -> BigUint { BigUint::one() << k }

/// A scalar value in `[0, order)` from the boundary table. The tag names the table row; rows
/// other than "random"/"small" count as boundary scalars.
pub fn gen_scalar(u: &mut Unstructured, order: &BigUint) -> (BigUint, &'static str) {
    let bits = order.bits(); // 255 for BLS12-381, 253 for ristretto
    let one = BigUint::one();
    let (v, tag): (BigUint, &'static str) = match gen::byte(u) % 24 {
        0 => (BigUint::zero(), "zero"),
        1 => (one.clone(), "one"),
        2 => (order - &one, "r-1"),
        3 => (order - BigUint::from(2u32), "r-2"),
        4 => (BigUint::from(2u32), "two"),
        5 => ((order - &one) >> 1, "(r-1)/2"),
        6 => ((order + &one) >> 1, "(r+1)/2"),
        7 => {
            let k = gen::range_u64(u, 1, bits);
            (pow2(k) - &one, "2^k-1")
        }
        8 => {
            let k = gen::range_u64(u, 1, bits - 1);
            (pow2(k), "2^k")
        }
        9 => {
            let k = gen::range_u64(u, 1, bits - 1);
            (pow2(k) + &one, "2^k+1")
        }
        10 => {
            let j = gen::range_u64(u, 1, 4);
            (pow2(64 * j) - &one, "2^(64j)-1")
        }
        11 => {
            let j = gen::range_u64(u, 1, 3);
            (pow2(64 * j), "2^(64j)")
        }
        12 => {
            let j = gen::range_u64(u, 1, 3);
            if gen::boolean(u) {
                (pow2(64 * j) + &one, "2^(64j)+-")
            } else {
                (pow2(64 * j) - BigUint::from(2u32), "2^(64j)+-")
            }
        }
        13 => {
            // short window of ones anywhere
            let w = gen::range_u64(u, 1, 64);
            let a = gen::range_u64(u, 0, bits - 1);
            ((pow2(w) - &one) << a, "ones-window")
        }
        14 => {
            // long window of ones
            let w = gen::range_u64(u, 65, bits);
            let a = gen::range_u64(u, 0, bits - 1);
            ((pow2(w) - &one) << a, "ones-long")
        }
        15 => {
            // a run of ones straddling a limb boundary, with random low part: forces windows that
            // combine two limbs and carry into the next limb
            let j = gen::range_u64(u, 1, 3);
            let below = gen::range_u64(u, 0, 12);
            let above = gen::range_u64(u, 0, 12);
            let lo = BigUint::from(gen::u64v(u)) & (pow2(64 * j - below) - &one);
            let run = (pow2(below + above) - &one) << (64 * j - below);
            (run | lo, "limb-straddle")
        }
        16 => {
            let l: Vec<u64> = (0..4).map(|_| gen::boundary_u64(u)).collect();
            (from_limbs(&l), "limb-table")
        }
        17 => {
            let k = gen::range_u64(u, 0, bits - 2);
            (order - pow2(k), "r-2^k")
        }
        18 => {
            let b = *gen::choose(u, &[0xaau8, 0x55, 0xff, 0x80, 0x01, 0x7f, 0xfe]);
            (BigUint::from_bytes_le(&[b; 32]), "byte-pattern")
        }
        19 => (BigUint::from(gen::byte(u)), "small"),
        _ => (BigUint::from_bytes_le(&gen::bytes(u, 32)), "random"),
    };
    (v % order, tag)
}

pub fn is_boundary_tag(t: &str) -> bool { t != "random" && t != "small" }

/// A group element: pool element, identity, generator, copy / negative / small multiple of an
/// earlier element of `prev`. Tags other than "pool" count as special points.
pub fn gen_point<C: TC>(u: &mut Unstructured, prev: &[C]) -> (C, &'static str) {
    let sel = gen::byte(u) % 16;
    match sel {
        0 | 1 => (C::zero_point(), "identity"),
        2 => (C::one_point(), "generator"),
        3 | 4 if !prev.is_empty() => (prev[gen::idx(u, prev.len())], "repeated"),
        5 | 6 if !prev.is_empty() => (prev[gen::idx(u, prev.len())].inverse_point(), "negated"),
        7 if !prev.is_empty() => {
            let k = gen::range_u64(u, 2, 9);
            (double_and_add(&prev[gen::idx(u, prev.len())], &BigUint::from(k)), "small-multiple")
        }
        8 => (C::one_point().inverse_point(), "neg-generator"),
        _ => (C::pool()[gen::idx(u, POOL)], "pool"),
    }
}

pub fn is_special_point_tag(t: &str) -> bool { matches!(t, "identity" | "repeated" | "negated") }

pub fn scalar_is_zero<C: Curve>(s: &C::Scalar) -> bool { s.is_zero() }
