//! Targets `keyderiv` (ConcordiumHdWallet, SLIP-10 derivation, BLS key generation) and `vectors`
//! (published test vectors).
use crate::{big, curves::*};
use concordium_base::{
    common::to_bytes,
    contracts_common::ContractAddress,
    id::types::AttributeTag,
};
use ed25519_dalek::{Signer, SigningKey, Verifier};
use ed25519_hd_key_derivation::{checked_harden, derive, derive_from_parsed_path, harden, parse_path, DeriveError};
use key_derivation::{ConcordiumHdWallet, Net};
use keygen_bls::keygen_bls;
use num_bigint::BigUint;
use sha2::{Digest, Sha256, Sha512};
use vcore::{gen, vensure, vfail, CheckResult, Ctx, Unstructured};

// ------------------------------------------------------------------------------------------
// Independent reference: HMAC (RFC 2104) written out over the bare hash functions, SLIP-10 for
// ed25519, HKDF (RFC 5869), KeyGen of draft-irtf-cfrg-bls-signature-04 section 2.3.

fn hmac_generic<D: Digest>(block: usize, key: &[u8], msg: &[u8]) -> Vec<u8> {
    let mut k = if key.len() > block { D::digest(key).to_vec() } else { key.to_vec() };
    k.resize(block, 0);
    let ipad: Vec<u8> = k.iter().map(|b| b ^ 0x36).collect();
    let opad: Vec<u8> = k.iter().map(|b| b ^ 0x5c).collect();
    let mut h = D::new();
    h.update(&ipad);
    h.update(msg);
    let inner = h.finalize();
    let mut h = D::new();
    h.update(&opad);
    h.update(&inner);
    h.finalize().to_vec()
}

fn hmac_sha512(key: &[u8], msg: &[u8]) -> Vec<u8> { hmac_generic::<Sha512>(128, key, msg) }
fn hmac_sha256(key: &[u8], msg: &[u8]) -> Vec<u8> { hmac_generic::<Sha256>(64, key, msg) }

/// SLIP-10, curve ed25519: master key from seed, then hardened children only.
/// Returns (private key, chain code).
pub fn slip10(seed: &[u8], path: &[u32]) -> ([u8; 32], [u8; 32]) {
    let i = hmac_sha512(b"ed25519 seed", seed);
    let mut k: [u8; 32] = i[..32].try_into().unwrap();
    let mut c: [u8; 32] = i[32..].try_into().unwrap();
    for idx in path {
        let mut data = vec![0u8];
        data.extend_from_slice(&k);
        data.extend_from_slice(&idx.to_be_bytes());
        let i = hmac_sha512(&c, &data);
        k = i[..32].try_into().unwrap();
        c = i[32..].try_into().unwrap();
    }
    (k, c)
}

fn hkdf_sha256(salt: &[u8], ikm: &[u8], info: &[u8], len: usize) -> Vec<u8> {
    let prk = hmac_sha256(salt, ikm);
    let mut okm = Vec::new();
    let mut t: Vec<u8> = Vec::new();
    let mut ctr = 1u8;
    while okm.len() < len {
        let mut m = t.clone();
        m.extend_from_slice(info);
        m.push(ctr);
        t = hmac_sha256(&prk, &m);
        okm.extend_from_slice(&t);
        ctr += 1;
    }
    okm.truncate(len);
    okm
}

/// KeyGen of the BLS signature draft v4: salt = H("BLS-SIG-KEYGEN-SALT-"), repeat until non-zero.
pub fn keygen_model(ikm: &[u8], key_info: &[u8]) -> BigUint {
    let r = big::r381();
    let mut salt = Sha256::digest(b"BLS-SIG-KEYGEN-SALT-").to_vec();
    let mut ikm0 = ikm.to_vec();
    ikm0.push(0);
    let mut info = key_info.to_vec();
    info.extend_from_slice(&[0, 48]);
    loop {
        let okm = hkdf_sha256(&salt, &ikm0, &info, 48);
        let sk = BigUint::from_bytes_be(&okm) % r;
        if sk != BigUint::from(0u32) {
            return sk;
        }
        salt = Sha256::digest(&salt).to_vec();
    }
}

/// ed25519 public key of a 32 byte secret (RFC 8032) computed directly on the curve.
fn ed25519_public(sk: &[u8; 32]) -> [u8; 32] {
    let h = Sha512::digest(sk);
    let mut s: [u8; 32] = h[..32].try_into().unwrap();
    s[0] &= 248;
    s[31] &= 127;
    s[31] |= 64;
    curve25519_dalek::edwards::EdwardsPoint::mul_base_clamped(s).compress().to_bytes()
}

// ------------------------------------------------------------------------------------------

fn gen_index(u: &mut Unstructured) -> u32 {
    match gen::byte(u) % 8 {
        0 => 0,
        1 => 1,
        2 => (1u32 << 31) - 1,
        3 => (1u32 << 31) - 2,
        4 => gen::byte(u) as u32,
        5 => gen::u16v(u) as u32,
        _ => gen::u32v(u) & 0x7fff_ffff,
    }
}

const TEST_SEED_1: &str = "efa5e27326f8fa0902e647b52449bf335b7b605adc387015ec903f41d95080eb71361cbc7fb78721dcd4f3926a337340aa1406df83332c44c1cdcfe100603860";

fn gen_seed(u: &mut Unstructured) -> [u8; 64] {
    match gen::byte(u) % 6 {
        0 => [0u8; 64],
        1 => [0xffu8; 64],
        2 => hex::decode(TEST_SEED_1).unwrap().try_into().unwrap(),
        _ => gen::array::<64>(u),
    }
}

fn purpose(net: Net) -> [u32; 2] { [harden(44), harden(if matches!(net, Net::Mainnet) { 919 } else { 1 })] }
fn vc_purpose(net: Net) -> [u32; 2] { [harden(1958950021), harden(if matches!(net, Net::Mainnet) { 919 } else { 1 })] }

fn path_of(root: [u32; 2], rest: &[u32]) -> Vec<u32> {
    let mut p = root.to_vec();
    p.extend(rest.iter().map(|i| i | 0x8000_0000));
    p
}

fn split16(x: u64) -> [u32; 4] { [(x >> 48) as u32 & 0xffff, (x >> 32) as u32 & 0xffff, (x >> 16) as u32 & 0xffff, x as u32 & 0xffff] }

fn scalar_hex(b: &BigUint) -> String { format!("{:0>64}", b.to_str_radix(16)) }

/// All outputs of a wallet for one index tuple, as (name, bytes).
fn outputs(w: &ConcordiumHdWallet, ip: u32, id: u32, cred: u32, attr: u8, issuer: ContractAddress, vc: u32) -> Result<Vec<(&'static str, Vec<u8>)>, DeriveError> {
    Ok(vec![
        ("account_signing_key", w.get_account_signing_key(ip, id, cred)?.to_vec()),
        ("account_public_key", w.get_account_public_key(ip, id, cred)?.to_bytes().to_vec()),
        ("id_cred_sec", to_bytes(&w.get_id_cred_sec(ip, id)?)),
        ("prf_key", to_bytes(&w.get_prf_key(ip, id)?)),
        ("blinding_randomness", to_bytes(&w.get_blinding_randomness(ip, id)?)),
        ("attribute_commitment_randomness", to_bytes(&w.get_attribute_commitment_randomness(ip, id, cred, AttributeTag(attr))?)),
        ("vc_signing_key", w.get_verifiable_credential_signing_key(issuer, vc)?.to_vec()),
        ("vc_public_key", w.get_verifiable_credential_public_key(issuer, vc)?.to_bytes().to_vec()),
        ("vc_backup_encryption_key", w.get_verifiable_credential_backup_encryption_key()?.to_vec()),
    ])
}

fn be32(v: &BigUint) -> Vec<u8> {
    let raw = v.to_bytes_be();
    let mut out = vec![0u8; 32 - raw.len()];
    out.extend_from_slice(&raw);
    out
}

/// The same outputs from the reference implementation (documented paths).
fn model_outputs(seed: &[u8; 64], net: Net, ip: u32, id: u32, cred: u32, attr: u8, issuer: ContractAddress, vc: u32) -> Vec<(&'static str, Vec<u8>)> {
    let root = purpose(net);
    let acc = slip10(seed, &path_of(root, &[ip, id, 0, cred])).0;
    let bls = |rest: &[u32]| be32(&keygen_model(&slip10(seed, &path_of(root, rest)).0, b""));
    let [i1, i2, i3, i4] = split16(issuer.index);
    let [s1, s2, s3, s4] = split16(issuer.subindex);
    let vck = slip10(seed, &path_of(vc_purpose(net), &[0, i1, i2, i3, i4, s1, s2, s3, s4, vc, 0])).0;
    let backup = slip10(seed, &path_of(vc_purpose(net), &[1])).0;
    vec![
        ("account_signing_key", acc.to_vec()),
        ("account_public_key", ed25519_public(&acc).to_vec()),
        ("id_cred_sec", bls(&[ip, id, 2])),
        ("prf_key", bls(&[ip, id, 3])),
        ("blinding_randomness", bls(&[ip, id, 4])),
        ("attribute_commitment_randomness", bls(&[ip, id, 5, cred, attr as u32])),
        ("vc_signing_key", vck.to_vec()),
        ("vc_public_key", ed25519_public(&vck).to_vec()),
        ("vc_backup_encryption_key", backup.to_vec()),
    ]
}

pub fn t_keyderiv(data: &[u8], ctx: &mut Ctx) -> CheckResult {
    let mut u = Unstructured::new(data);
    let seed = gen_seed(&mut u);
    let net = if gen::boolean(&mut u) { Net::Testnet } else { Net::Mainnet };
    let ip = gen_index(&mut u);
    let id = gen_index(&mut u);
    let cred = gen_index(&mut u);
    let attr = gen::byte(&mut u);
    let issuer = ContractAddress::new(gen::boundary_u64(&mut u), gen::boundary_u64(&mut u));
    let vc = gen_index(&mut u);
    let mode = gen::byte(&mut u) % 8;
    let w = ConcordiumHdWallet { seed, net };
    let desc = format!(
        "seed={} net={net:?} ip={ip} identity={id} credential={cred} attribute={attr} issuer=<{},{}> vc={vc} mode={mode}",
        gen::hex(&seed),
        issuer.index,
        issuer.subindex
    );
    ctx.sample(|| desc.clone());
    ctx.describe(|| desc.clone());
    ctx.class(if matches!(net, Net::Mainnet) { "mainnet" } else { "testnet" });
    if [ip, id, cred, vc].iter().any(|i| *i == 0 || *i >= (1u32 << 31) - 2) {
        ctx.class("boundary-index");
    }
    ctx.nontrivial(&(&seed[..], matches!(net, Net::Mainnet), ip, id, cred, attr, issuer.index, issuer.subindex, vc));

    let got = match outputs(&w, ip, id, cred, attr, issuer, vc) {
        Ok(g) => g,
        Err(e) => vfail!("derive-fails", "derivation failed on valid (non-hardened) indices: {e}"),
    };
    // deterministic
    let again = outputs(&w.clone(), ip, id, cred, attr, issuer, vc).ok();
    vensure!(again.as_ref() == Some(&got), "deterministic", "two derivations with the same inputs differ");
    // equal to the documented SLIP-10 paths + BLS KeyGen, computed independently
    let want = model_outputs(&seed, net, ip, id, cred, attr, issuer, vc);
    for ((n1, g), (n2, m)) in got.iter().zip(want.iter()) {
        assert_eq!(n1, n2);
        if g != m {
            return Err(vcore::Violation::new("reference-path", format!("{n1}: wallet gives {}, SLIP-10/KeyGen reference on the documented path gives {}", gen::hex(g), gen::hex(m)))
                .with_signature(format!("reference-path:{n1}")));
        }
    }
    // public key matches secret key: a signature made with the secret verifies under the public key
    for (skn, pkn) in [("account_signing_key", "account_public_key"), ("vc_signing_key", "vc_public_key")] {
        let sk: [u8; 32] = got.iter().find(|x| x.0 == skn).unwrap().1.clone().try_into().unwrap();
        let pk: [u8; 32] = got.iter().find(|x| x.0 == pkn).unwrap().1.clone().try_into().unwrap();
        let signing = SigningKey::from_bytes(&sk);
        let msg = gen::short_bytes(&mut u, 40);
        let sig = signing.sign(&msg);
        let vk = ed25519_dalek::VerifyingKey::from_bytes(&pk).map_err(|e| vcore::Violation::new("public-key-invalid", format!("{pkn}: {e}")))?;
        vensure!(vk.verify(&msg, &sig).is_ok(), "public-matches-secret", "{pkn} does not verify a signature made with {skn}");
    }
    // all outputs of one wallet are pairwise distinct (different paths / different key types),
    // except that a public key is of course determined by its secret key
    for i in 0..got.len() {
        for j in i + 1..got.len() {
            vensure!(got[i].1 != got[j].1, "distinct-kinds", "{} and {} coincide", got[i].0, got[j].0);
        }
    }
    // change exactly one input: every output that depends on it changes, others stay
    let bump = |x: u32| if x == (1u32 << 31) - 1 { x - 1 } else { x + 1 };
    let (w2, ip2, id2, cred2, attr2, issuer2, vc2, changed): (ConcordiumHdWallet, u32, u32, u32, u8, ContractAddress, u32, &[&str]) = match mode {
        0 => (w.clone(), bump(ip), id, cred, attr, issuer, vc, &["account_signing_key", "account_public_key", "id_cred_sec", "prf_key", "blinding_randomness", "attribute_commitment_randomness"]),
        1 => (w.clone(), ip, bump(id), cred, attr, issuer, vc, &["account_signing_key", "account_public_key", "id_cred_sec", "prf_key", "blinding_randomness", "attribute_commitment_randomness"]),
        2 => (w.clone(), ip, id, bump(cred), attr, issuer, vc, &["account_signing_key", "account_public_key", "attribute_commitment_randomness"]),
        3 => (w.clone(), ip, id, cred, attr.wrapping_add(1), issuer, vc, &["attribute_commitment_randomness"]),
        4 => {
            let iss = if gen::boolean(&mut u) {
                ContractAddress::new(issuer.index ^ (1u64 << gen::idx(&mut u, 64)), issuer.subindex)
            } else {
                ContractAddress::new(issuer.index, issuer.subindex ^ (1u64 << gen::idx(&mut u, 64)))
            };
            (w.clone(), ip, id, cred, attr, iss, vc, &["vc_signing_key", "vc_public_key"])
        }
        5 => (w.clone(), ip, id, cred, attr, issuer, bump(vc), &["vc_signing_key", "vc_public_key"]),
        6 => {
            let other = if matches!(net, Net::Mainnet) { Net::Testnet } else { Net::Mainnet };
            (ConcordiumHdWallet { seed, net: other }, ip, id, cred, attr, issuer, vc, &[
                "account_signing_key", "account_public_key", "id_cred_sec", "prf_key", "blinding_randomness", "attribute_commitment_randomness", "vc_signing_key", "vc_public_key", "vc_backup_encryption_key",
            ])
        }
        _ => {
            let mut s2 = seed;
            s2[gen::idx(&mut u, 64)] ^= 1 << gen::idx(&mut u, 8);
            (ConcordiumHdWallet { seed: s2, net }, ip, id, cred, attr, issuer, vc, &[
                "account_signing_key", "account_public_key", "id_cred_sec", "prf_key", "blinding_randomness", "attribute_commitment_randomness", "vc_signing_key", "vc_public_key", "vc_backup_encryption_key",
            ])
        }
    };
    ctx.class(&format!("vary={}", ["ip", "identity", "credential", "attribute", "issuer", "vc-index", "net", "seed"][mode as usize]));
    let got2 = match outputs(&w2, ip2, id2, cred2, attr2, issuer2, vc2) {
        Ok(g) => g,
        Err(e) => vfail!("derive-fails", "derivation failed on valid indices: {e}"),
    };
    for ((n, a), (_, b)) in got.iter().zip(got2.iter()) {
        if changed.contains(n) {
            vensure!(a != b, "distinct-paths", "{n} is unchanged although an input on its path changed ({})", ["ip", "identity", "credential", "attribute", "issuer", "vc-index", "net", "seed"][mode as usize]);
        } else {
            vensure!(a == b, "independent-inputs", "{n} changed although no input on its path changed");
        }
    }
    // an index that is already hardened (>= 2^31) is refused rather than aliased
    if gen::ratio(&mut u, 1, 4) {
        ctx.class("hardened-index-refused");
        let bad = gen::u32v(&mut u) | 0x8000_0000;
        let res = match gen::byte(&mut u) % 4 {
            0 => w.get_account_signing_key(bad, id, cred).map(|_| ()),
            1 => w.get_id_cred_sec(ip, bad).map(|_| ()),
            2 => w.get_account_public_key(ip, id, bad).map(|_| ()),
            _ => w.get_verifiable_credential_signing_key(issuer, bad).map(|_| ()),
        };
        vensure!(res == Err(DeriveError::InvalidPath), "hardened-index-accepted", "index {bad} >= 2^31 was not refused with InvalidPath");
        vensure!(checked_harden(bad).is_err() && checked_harden(bad & 0x7fff_ffff) == Ok(bad), "checked-harden", "checked_harden wrong on {bad}");
    }
    Ok(())
}

// ------------------------------------------------------------------------------------------
// target slip10: ed25519_hd_key_derivation on arbitrary paths / seeds / path strings, keygen_bls on
// arbitrary input

fn model_parse_path(s: &str) -> Option<Vec<u32>> {
    // m(/0'|/[1-9][0-9]*')+ with every number < 2^31
    let rest = s.strip_prefix('m')?;
    if rest.is_empty() {
        return None;
    }
    let mut out = Vec::new();
    for seg in rest.split('/').skip(1) {
        let num = seg.strip_suffix('\'')?;
        if num.is_empty() || !num.bytes().all(|b| b.is_ascii_digit()) {
            return None;
        }
        if num.len() > 1 && num.starts_with('0') {
            return None;
        }
        let v = BigUint::parse_bytes(num.as_bytes(), 10)?;
        if v >= BigUint::from(1u64 << 31) {
            return None;
        }
        out.push(v.to_u32_digits().first().copied().unwrap_or(0) | 0x8000_0000);
    }
    if !rest.starts_with('/') || out.is_empty() {
        return None;
    }
    Some(out)
}

pub fn t_slip10(data: &[u8], ctx: &mut Ctx) -> CheckResult {
    let mut u = Unstructured::new(data);
    // seed of any length 0..80, valid range is 16..=64
    let slen = match gen::byte(&mut u) % 8 {
        0 => 15,
        1 => 16,
        2 => 64,
        3 => 65,
        4 => gen::range_usize(&mut u, 0, 80),
        _ => gen::range_usize(&mut u, 16, 64),
    };
    let seed = gen::bytes(&mut u, slen);
    let depth = gen::range_usize(&mut u, 0, 12);
    let mut idxs: Vec<u32> = (0..depth).map(|_| gen_index(&mut u)).collect();
    let unhardened_at = if depth > 0 && gen::ratio(&mut u, 1, 6) { Some(gen::idx(&mut u, depth)) } else { None };
    let path: Vec<u32> = idxs.iter().enumerate().map(|(i, x)| if Some(i) == unhardened_at { *x } else { x | 0x8000_0000 }).collect();
    let desc = format!("seed({slen})={} path={:?} unhardened_at={unhardened_at:?}", gen::hex(&seed), idxs);
    ctx.sample(|| desc.clone());
    ctx.describe(|| desc.clone());
    ctx.nontrivial(&(&seed, &path));
    let seed_ok = (16..=64).contains(&slen);
    let res = derive_from_parsed_path(&path, &seed);
    match (&res, seed_ok, unhardened_at) {
        (Err(DeriveError::InvalidSeed), false, _) => ctx.class("invalid-seed-length"),
        (Err(DeriveError::InvalidPath), true, Some(_)) => ctx.class("unhardened-index"),
        (Ok(k), true, None) => {
            ctx.class("derived");
            let (sk, _) = slip10(&seed, &path);
            vensure!(k.private_key == sk, "slip10-reference", "derive_from_parsed_path differs from the SLIP-10 reference: {} vs {}", gen::hex(&k.private_key), gen::hex(&sk));
            // one index changed => different key; prefix/extension => different key
            if depth > 0 {
                let i = gen::idx(&mut u, depth);
                let mut p2 = path.clone();
                p2[i] ^= 1 << gen::idx(&mut u, 31);
                let k2 = derive_from_parsed_path(&p2, &seed).map_err(|e| vcore::Violation::new("derive-fails", format!("{e}")))?;
                vensure!(k2.private_key != k.private_key, "distinct-paths", "paths differing in index {i} give the same key");
                let k3 = derive_from_parsed_path(&path[..depth - 1], &seed).map_err(|e| vcore::Violation::new("derive-fails", format!("{e}")))?;
                vensure!(k3.private_key != k.private_key, "distinct-paths", "a path and its parent give the same key");
            }
            // the string form
            let s: String = std::iter::once("m".to_string()).chain(idxs.iter().map(|i| format!("/{i}'"))).collect();
            if depth > 0 {
                vensure!(parse_path(&s) == Ok(path.clone()), "parse-path", "parse_path({s}) != {:?}", path);
                let k4 = derive(&s, &seed).map_err(|e| vcore::Violation::new("derive-fails", format!("{s}: {e}")))?;
                vensure!(k4.private_key == sk, "derive-string", "derive({s}) differs from the reference");
            }
        }
        (r, _, _) => vfail!("derive-outcome", "unexpected outcome {:?} for seed length {slen}, unhardened {unhardened_at:?}", r.as_ref().map(|k| gen::hex(&k.private_key))),
    }

    // path strings, valid and malformed, against the documented grammar
    let s: String = match gen::byte(&mut u) % 10 {
        0 => "m".into(),
        1 => "".into(),
        2 => format!("m/{}", gen_index(&mut u)),
        3 => format!("m/0{}'", gen_index(&mut u)),
        4 => format!("m/{}'", (gen::u32v(&mut u) as u64) | (1u64 << 31)),
        5 => format!("m/{}'", gen::u64v(&mut u)),
        6 => format!("m/{}'/", gen_index(&mut u)),
        7 => format!("M/{}'", gen_index(&mut u)),
        8 => {
            idxs.truncate(4);
            let mut s: String = std::iter::once("m".to_string()).chain(idxs.iter().map(|i| format!("/{i}'"))).collect();
            if !s.is_empty() {
                let i = gen::idx(&mut u, s.len());
                let c = *gen::choose(&mut u, &['/', '\'', '0', '9', ' ', 'm', '-', '+', 'h']);
                if gen::boolean(&mut u) {
                    s.insert(i, c);
                } else {
                    s.replace_range(i..i + 1, &c.to_string());
                }
            }
            s
        }
        _ => format!("m/{}'/{}'", gen_index(&mut u), gen_index(&mut u)),
    };
    let want = model_parse_path(&s);
    let got = parse_path(&s).ok();
    ctx.class(if want.is_some() { "path-string-valid" } else { "path-string-invalid" });
    vensure!(got == want, "parse-path-grammar", "parse_path({s:?}) = {:?}, documented grammar gives {:?}", got, want);

    // keygen_bls on arbitrary input
    let ikm = match gen::byte(&mut u) % 4 {
        0 => gen::bytes(&mut u, 32),
        1 => Vec::new(),
        _ => gen::short_bytes(&mut u, 80),
    };
    let info = match gen::byte(&mut u) % 3 {
        0 => Vec::new(),
        _ => gen::short_bytes(&mut u, 40),
    };
    let sk = keygen_bls(&ikm, &info).map_err(|e| vcore::Violation::new("keygen-fails", format!("{e}")))?;
    let skb = scalar_to_big::<G1>(&sk);
    vensure!(skb == keygen_model(&ikm, &info), "keygen-reference", "keygen_bls(ikm={}, info={}) = {} differs from the KeyGen reference {}", gen::hex(&ikm), gen::hex(&info), scalar_hex(&skb), scalar_hex(&keygen_model(&ikm, &info)));
    vensure!(skb != BigUint::from(0u32), "keygen-zero", "keygen_bls returned zero");
    Ok(())
}

// ------------------------------------------------------------------------------------------
// published vectors

struct V {
    name: &'static str,
    run:  fn() -> Result<(), String>,
}

fn eq(name: &str, got: String, want: &str) -> Result<(), String> {
    if got == want {
        Ok(())
    } else {
        Err(format!("{name}: got {got}, published {want}"))
    }
}

fn wallet(net: Net) -> ConcordiumHdWallet { ConcordiumHdWallet { seed: hex::decode(TEST_SEED_1).unwrap().try_into().unwrap(), net } }

const S1: &str = "000102030405060708090a0b0c0d0e0f";
const S2: &str = "fffcf9f6f3f0edeae7e4e1dedbd8d5d2cfccc9c6c3c0bdbab7b4b1aeaba8a5a29f9c999693908d8a8784817e7b7875726f6c696663605d5a5754514e4b484542";

fn slip(seed: &str, path: &str, sk: &str, pk: &str) -> Result<(), String> {
    let seed = hex::decode(seed).unwrap();
    let k = derive(path, &seed).map_err(|e| e.to_string())?;
    eq(path, hex::encode(k.private_key), sk)?;
    eq(path, hex::encode(SigningKey::from_bytes(&k.private_key).verifying_key().to_bytes()), pk)?;
    // and the harness reference agrees with the published vector too
    let parsed = parse_path(path).map_err(|e| e.to_string())?;
    eq("reference", hex::encode(slip10(&seed, &parsed).0), sk)?;
    eq("reference-public", hex::encode(ed25519_public(&k.private_key)), pk)
}

fn keygen_vec(ikm: &str, want: &str) -> Result<(), String> {
    let ikm = hex::decode(ikm).unwrap();
    let sk = keygen_bls(&ikm, b"").map_err(|e| e.to_string())?;
    eq("keygen_bls", scalar_hex(&scalar_to_big::<G1>(&sk)), want)?;
    eq("keygen reference", scalar_hex(&keygen_model(&ikm, b"")), want)
}

fn seed_vec(words: &str, want: &str) -> Result<(), String> {
    let s = key_derivation::words_to_seed_with_passphrase(words, "TREZOR").map_err(|e| e.to_string())?;
    eq("words_to_seed", hex::encode(s), want)
}

fn vectors() -> Vec<V> {
    use concordium_base::common::base16_encode_string as b16;
    vec![
        V { name: "mainnet account_signing_key(0,55,7)", run: || eq("sk", hex::encode(wallet(Net::Mainnet).get_account_signing_key(0, 55, 7).map_err(|e| e.to_string())?), "e4d1693c86eb9438feb9cbc3d561fbd9299e3a8b3a676eb2483b135f8dbf6eb1") },
        V { name: "mainnet account_public_key(1,341,9)", run: || eq("pk", hex::encode(wallet(Net::Mainnet).get_account_public_key(1, 341, 9).map_err(|e| e.to_string())?.to_bytes()), "d54aab7218fc683cbd4d822f7c2b4e7406c41ae08913012fab0fa992fa008e98") },
        V { name: "mainnet id_cred_sec(2,115)", run: || eq("idcredsec", b16(&wallet(Net::Mainnet).get_id_cred_sec(2, 115).map_err(|e| e.to_string())?), "33b9d19b2496f59ed853eb93b9d374482d2e03dd0a12e7807929d6ee54781bb1") },
        V { name: "mainnet prf_key(3,35)", run: || eq("prf", b16(&wallet(Net::Mainnet).get_prf_key(3, 35).map_err(|e| e.to_string())?), "4409e2e4acffeae641456b5f7406ecf3e1e8bd3472e2df67a9f1e8574f211bc5") },
        V { name: "mainnet blinding_randomness(4,5713)", run: || eq("blinding", b16(&wallet(Net::Mainnet).get_blinding_randomness(4, 5713).map_err(|e| e.to_string())?), "1e3633af2b1dbe5600becfea0324bae1f4fa29f90bdf419f6fba1ff520cb3167") },
        V { name: "mainnet attribute_commitment_randomness(5,0,4,0)", run: || eq("acr", b16(&wallet(Net::Mainnet).get_attribute_commitment_randomness(5, 0, 4, AttributeTag(0)).map_err(|e| e.to_string())?), "6ef6ba6490fa37cd517d2b89a12b77edf756f89df5e6f5597440630cd4580b8f") },
        V { name: "testnet account_signing_key(0,55,7)", run: || eq("sk", hex::encode(wallet(Net::Testnet).get_account_signing_key(0, 55, 7).map_err(|e| e.to_string())?), "aff97882c6df085e91ae2695a32d39dccb8f4b8d68d2f0db9637c3a95f845e3c") },
        V { name: "testnet account_public_key(1,341,9)", run: || eq("pk", hex::encode(wallet(Net::Testnet).get_account_public_key(1, 341, 9).map_err(|e| e.to_string())?.to_bytes()), "ef6fd561ca0291a57cdfee896245db9803a86da74c9a6c1bf0252b18f8033003") },
        V { name: "testnet id_cred_sec(2,115)", run: || eq("idcredsec", b16(&wallet(Net::Testnet).get_id_cred_sec(2, 115).map_err(|e| e.to_string())?), "33c9c538e362c5ac836afc08210f4b5d881ba65a0a45b7e353586dad0a0f56df") },
        V { name: "testnet prf_key(3,35)", run: || eq("prf", b16(&wallet(Net::Testnet).get_prf_key(3, 35).map_err(|e| e.to_string())?), "41d794d0b06a7a31fb79bb76c44e6b87c63e78f9afe8a772fc64d20f3d9e8e82") },
        V { name: "testnet blinding_randomness(4,5713)", run: || eq("blinding", b16(&wallet(Net::Testnet).get_blinding_randomness(4, 5713).map_err(|e| e.to_string())?), "079eb7fe4a2e89007f411ede031543bd7f687d50341a5596e015c9f2f4c1f39b") },
        V { name: "testnet attribute_commitment_randomness(5,0,4,0)", run: || eq("acr", b16(&wallet(Net::Testnet).get_attribute_commitment_randomness(5, 0, 4, AttributeTag(0)).map_err(|e| e.to_string())?), "409fa90314ec8fb4a2ae812fd77fe58bfac81765cad3990478ff7a73ba6d88ae") },
        V { name: "mainnet vc signing key <1,2> 1", run: || eq("vc", hex::encode(wallet(Net::Mainnet).get_verifiable_credential_signing_key(ContractAddress::new(1, 2), 1).map_err(|e| e.to_string())?), "670d904509ce09372deb784e702d4951d4e24437ad3879188d71ae6db51f3301") },
        V { name: "mainnet vc public key <3,1232> 341", run: || eq("vc", hex::encode(wallet(Net::Mainnet).get_verifiable_credential_public_key(ContractAddress::new(3, 1232), 341).map_err(|e| e.to_string())?.to_bytes()), "16afdb3cb3568b5ad8f9a0fa3c741b065642de8c53e58f7920bf449e63ff2bf9") },
        V { name: "mainnet vc backup key", run: || eq("vc", hex::encode(wallet(Net::Mainnet).get_verifiable_credential_backup_encryption_key().map_err(|e| e.to_string())?), "5032086037b639f116642752460bf2e2b89d7278fe55511c028b194ba77192a1") },
        V { name: "testnet vc signing key <13,0> 1", run: || eq("vc", hex::encode(wallet(Net::Testnet).get_verifiable_credential_signing_key(ContractAddress::new(13, 0), 1).map_err(|e| e.to_string())?), "c75a161b97a1e204d9f31202308958e541e14f0b14903bd220df883bd06702bb") },
        V { name: "testnet vc public key <17,0> 341", run: || eq("vc", hex::encode(wallet(Net::Testnet).get_verifiable_credential_public_key(ContractAddress::new(17, 0), 341).map_err(|e| e.to_string())?.to_bytes()), "c52a30475bac88da9e65471cf9cf59f99dcce22ce31de580b3066597746b394a") },
        V { name: "testnet vc backup key", run: || eq("vc", hex::encode(wallet(Net::Testnet).get_verifiable_credential_backup_encryption_key().map_err(|e| e.to_string())?), "10f85290e33b1a79a0330180c4b6c67fd9ad1a1dd3d0f918ab1cbcf8787fc3ca") },
        // SLIP-0010 ed25519 vectors
        V { name: "slip10 v1 m/0'", run: || slip(S1, "m/0'", "68e0fe46dfb67e368c75379acec591dad19df3cde26e63b93a8e704f1dade7a3", "8c8a13df77a28f3445213a0f432fde644acaa215fc72dcdf300d5efaa85d350c") },
        V { name: "slip10 v1 m/0'/1'", run: || slip(S1, "m/0'/1'", "b1d0bad404bf35da785a64ca1ac54b2617211d2777696fbffaf208f746ae84f2", "1932a5270f335bed617d5b935c80aedb1a35bd9fc1e31acafd5372c30f5c1187") },
        V { name: "slip10 v1 m/0'/1'/2'", run: || slip(S1, "m/0'/1'/2'", "92a5b23c0b8a99e37d07df3fb9966917f5d06e02ddbd909c7e184371463e9fc9", "ae98736566d30ed0e9d2f4486a64bc95740d89c7db33f52121f8ea8f76ff0fc1") },
        V { name: "slip10 v1 m/0'/1'/2'/2'", run: || slip(S1, "m/0'/1'/2'/2'", "30d1dc7e5fc04c31219ab25a27ae00b50f6fd66622f6e9c913253d6511d1e662", "8abae2d66361c879b900d204ad2cc4984fa2aa344dd7ddc46007329ac76c429c") },
        V { name: "slip10 v1 m/0'/1'/2'/2'/1000000000'", run: || slip(S1, "m/0'/1'/2'/2'/1000000000'", "8f94d394a8e8fd6b1bc2f3f49f5c47e385281d5c17e65324b0f62483e37e8793", "3c24da049451555d51a7014a37337aa4e12d41e485abccfa46b47dfb2af54b7a") },
        V { name: "slip10 v2 m/0'", run: || slip(S2, "m/0'", "1559eb2bbec5790b0c65d8693e4d0875b1747f4970ae8b650486ed7470845635", "86fab68dcb57aa196c77c5f264f215a112c22a912c10d123b0d03c3c28ef1037") },
        V { name: "slip10 v2 m/0'/2147483647'", run: || slip(S2, "m/0'/2147483647'", "ea4f5bfe8694d8bb74b7b59404632fd5968b774ed545e810de9c32a4fb4192f4", "5ba3b9ac6e90e83effcd25ac4e58a1365a9e35a3d3ae5eb07b9e4d90bcf7506d") },
        V { name: "slip10 v2 m/0'/2147483647'/1'", run: || slip(S2, "m/0'/2147483647'/1'", "3757c7577170179c7868353ada796c839135b3d30554bbb74a4b1e4a5a58505c", "2e66aa57069c86cc18249aecf5cb5a9cebbfd6fadeab056254763874a9352b45") },
        V { name: "slip10 v2 m/0'/2147483647'/1'/2147483646'", run: || slip(S2, "m/0'/2147483647'/1'/2147483646'", "5837736c89570de861ebc173b1086da4f505d4adb387c6a1b1342d5e4ac9ec72", "e33c0f7d81d843c572275f287498e8d408654fdf0d1e065b84e2e6f157aab09b") },
        V { name: "slip10 v2 m/0'/2147483647'/1'/2147483646'/2'", run: || slip(S2, "m/0'/2147483647'/1'/2147483646'/2'", "551d333177df541ad876a60ea71f00447931c0a9da16f227c11ea080d7391b8d", "47150c75db263559a70d5778bf36abbab30fb061ad69f69ece61a72b0cfa4fc0") },
        // BLS KeyGen vectors (paulmillr/bls12-381-keygen, ChainSafe/bls-hd-key)
        V { name: "keygen 0", run: || keygen_vec("09e74ad3ead373439388bf7cfb52b151c450632e67f3c84e6ed762bc0928d5eb", "57cb278c9deb055f12cc807c3068f2ce804654a54de54801f0cb6a774c211de2") },
        V { name: "keygen 1", run: || keygen_vec("9dcce7d6b6a70ddb382d2c212273ad9b99d8ea206353313beabc14b7e5833a0f", "273e082676db5baff938c9aa5f92ea73689a3de4bf20f71c4710eba2ced4925e") },
        V { name: "keygen 2", run: || keygen_vec("8a430bd1343b5cb1686961d7959095214952767f80bb681e465aebf467ca05c0", "710b517c90a46f8c13455e9d50ebe74ba660c611430e134bda449f766b605ac6") },
        V { name: "keygen 3", run: || keygen_vec("c940716ce93f72b2d4f9ff792193ee541e3748ff5b13f1bb01d5d091af4e2635", "340d8fe689c3c19064bdbadff74a23a57b22ff5ec56a9bb836923c1d9d1720ee") },
        V { name: "keygen 4", run: || keygen_vec("bc14d035741cd9225795ad1e7070a1b488deb0cc19daedcb47f12408cbfe71cc", "2b614017245f7b7bd2afc89e6cc9287391b7c063cd92f5dedf881f6d430558f6") },
        V { name: "keygen 5", run: || keygen_vec("00bbfd863df0068b841c12f6e6a8d6c571c80eaf37fae324c669d214f90a762c", "5dcba268f56cec11fac41f31779d35592baa44f7bc1e8278bf1ea394b452805d") },
        V { name: "keygen 6", run: || keygen_vec("30c0a09b5175febb462b64efe28475fa434b0ccfb05bc77d16fd2f1ba13bc05c", "2f72e2fedead5ab70eea0da85ab016cdd083b4805f6374ed4313ea1a643ff7b1") },
        V { name: "keygen 7", run: || keygen_vec("34a3f5d8b0cfaa9d235c8c1ecfbf10223259d45be5f4d30b33c697e19ac9e525", "32ce1b167e4220499c2033f2574611c5598f2cabfcdb0d5f2efc66c083ad9d91") },
        V { name: "keygen 8", run: || keygen_vec("d57e90d96aab5616c266568ad4659dfe985f8baf24042e5e28e901801944f49d", "5ca731e9adf63fa8ac75918824aaab3bafcea4480dfd8636b5d82ce693cfefaa") },
        V { name: "keygen 9", run: || keygen_vec("725150bb38d49fc2a7ad8a8cba1f0dc32c3a468739e88b9aa62c450ce3ce1f32", "397048d5f83ecb69fe96f3157bb5a350298248f8650b9092a8c55028fb577463") },
        // BIP-39 seed vectors (trezor/python-mnemonic), passphrase TREZOR
        V { name: "bip39 12 words abandon..about", run: || seed_vec("abandon abandon abandon abandon abandon abandon abandon abandon abandon abandon abandon about", "c55257c360c07c72029aebc1b53c05ed0362ada38ead3e3e9efa3708e53495531f09a6987599d18264c1e1c92f2cf141630c7a3c4ab7c81b2f001698e7463b04") },
        V { name: "bip39 12 words zoo..wrong", run: || seed_vec("zoo zoo zoo zoo zoo zoo zoo zoo zoo zoo zoo wrong", "ac27495480225222079d7be181583751e86f571027b0497b5b5d11218e0a8a13332572917f0f8e5a589620c6f15b11c61dee327651a14c34e18231052e48c069") },
        V { name: "bip39 15 words", run: || seed_vec("impose cliff file course grab shift accuse feel head butter link trim wine convince entire", "b3b42d645dab8feda3a00c0f726b872c8f97d43066e32c7ee5fa0f04390ef4f3de038e3024c6d8460d4b3085292daaa86bcd6f121e7fe2470a6b7eeb41e35c64") },
        V { name: "bip39 18 words zoo..when", run: || seed_vec("zoo zoo zoo zoo zoo zoo zoo zoo zoo zoo zoo zoo zoo zoo zoo zoo zoo when", "0cd6e5d827bb62eb8fc1e262254223817fd068a74b5b449cc2f667c3f1f985a76379b43348d952e2265b4cd129090758b3e3c2c49103b5051aac2eaeb890a528") },
        V { name: "bip39 21 words", run: || seed_vec("half scissors snack noble such gasp fiscal oxygen news mention twenty record vault novel race chunk junior leisure stamp novel must", "63ade55fc2d4b76b439b57cbb575a81daec28f210599ff3c624fb02239f8f36a4dbeeb03e3d89b9e7a0b2b114ef4e579b77a6d8bd86030b9a22e45b86cca09a6") },
        V { name: "bip39 24 words zoo..vote", run: || seed_vec("zoo zoo zoo zoo zoo zoo zoo zoo zoo zoo zoo zoo zoo zoo zoo zoo zoo zoo zoo zoo zoo zoo zoo vote", "dd48c104698c30cfe2b6142103248622fb7bb0ff692eebb00089b32d22484e1613912f0a5b694407be899ffd31ed3992c456cdf60f5d4564b8ba3f05a69890ad") },
        V { name: "bip39 word count 11/13/25 refused", run: || {
            for n in [0usize, 1, 11, 13, 14, 16, 17, 19, 20, 22, 23, 25] {
                let w = vec!["abandon"; n.max(1)].join(" ");
                let w = if n == 0 { String::new() } else { w };
                if key_derivation::words_to_seed(&w).is_ok() {
                    return Err(format!("{n} words accepted"));
                }
            }
            Ok(())
        } },
    ]
}

/// One published vector per case; the first choice byte selects it (the quick tier runs many
/// more cases than there are vectors, so every vector is hit; the all-vectors corpus entry
/// `vectors__all.bin` = [0xff] runs them all in one case).
pub fn t_vectors(data: &[u8], ctx: &mut Ctx) -> CheckResult {
    let mut u = Unstructured::new(data);
    let vs = vectors();
    let sel = gen::byte(&mut u);
    let run_one = |v: &V| -> CheckResult {
        match (v.run)() {
            Ok(()) => Ok(()),
            Err(e) => Err(vcore::Violation::new("published-vector", format!("{}: {e}", v.name)).with_signature(format!("published-vector:{}", v.name))),
        }
    };
    if sel == 0xff {
        ctx.class("all");
        ctx.describe(|| "all published vectors".into());
        for v in &vs {
            run_one(v)?;
        }
        ctx.nontrivial(&"all");
        return Ok(());
    }
    let v = &vs[sel as usize % vs.len()];
    ctx.class(v.name.split(' ').next().unwrap_or("v"));
    ctx.nontrivial(v.name);
    ctx.sample(|| v.name.to_string());
    ctx.describe(|| v.name.to_string());
    run_one(v)
}
