//! Independent big-integer reference arithmetic: field constants written down from the
//! specifications (BLS12-381, curve25519), Fp / Fp2 arithmetic, curve-equation tests, the
//! zcash-format point decoder model for G1/G2 and the RFC 9496 ristretto255 decoder model.
//! Nothing in here calls the code under test.
use num_bigint::BigUint;
use num_traits::{One, Zero};
use std::sync::OnceLock;

fn hexn(s: &str) -> BigUint { BigUint::parse_bytes(s.as_bytes(), 16).expect("hex constant") }

/// Base field modulus of BLS12-381.
pub fn p381() -> &'static BigUint {
    static V: OnceLock<BigUint> = OnceLock::new();
    V.get_or_init(|| {
        hexn("1a0111ea397fe69a4b1ba7b6434bacd764774b84f38512bf6730d2a0f6b0f6241eabfffeb153ffffb9feffffffffaaab")
    })
}

/// Group order of BLS12-381 G1/G2 (scalar field modulus).
pub fn r381() -> &'static BigUint {
    static V: OnceLock<BigUint> = OnceLock::new();
    V.get_or_init(|| hexn("73eda753299d7d483339d80809a1d80553bda402fffe5bfeffffffff00000001"))
}

/// Order of the ristretto255 group: 2^252 + 27742317777372353535851937790883648493.
pub fn l25519() -> &'static BigUint {
    static V: OnceLock<BigUint> = OnceLock::new();
    V.get_or_init(|| (BigUint::one() << 252u32) + BigUint::parse_bytes(b"27742317777372353535851937790883648493", 10).unwrap())
}

/// 2^255 - 19.
pub fn p25519() -> &'static BigUint {
    static V: OnceLock<BigUint> = OnceLock::new();
    V.get_or_init(|| (BigUint::one() << 255u32) - BigUint::from(19u32))
}

// ------------------------------------------------------------------------------------------
// Prime field helpers (values always reduced)

pub fn addm(a: &BigUint, b: &BigUint, p: &BigUint) -> BigUint { (a + b) % p }
pub fn subm(a: &BigUint, b: &BigUint, p: &BigUint) -> BigUint { ((a + p) - (b % p)) % p }
pub fn mulm(a: &BigUint, b: &BigUint, p: &BigUint) -> BigUint { (a * b) % p }
pub fn negm(a: &BigUint, p: &BigUint) -> BigUint {
    if a.is_zero() {
        BigUint::zero()
    } else {
        p - (a % p)
    }
}
/// Inverse by Fermat (p prime, a != 0).
pub fn invm(a: &BigUint, p: &BigUint) -> BigUint { a.modpow(&(p - BigUint::from(2u32)), p) }

/// Euler criterion; zero counts as a square.
pub fn is_qr(a: &BigUint, p: &BigUint) -> bool {
    if a.is_zero() {
        return true;
    }
    a.modpow(&((p - BigUint::one()) >> 1), p).is_one()
}

/// Square root for p = 3 mod 4; the caller has checked that `a` is a square.
pub fn sqrt34(a: &BigUint, p: &BigUint) -> BigUint { a.modpow(&((p + BigUint::one()) >> 2), p) }

// ------------------------------------------------------------------------------------------
// Fp2 = Fp[u]/(u^2+1) over the BLS12-381 base field

#[derive(Clone, Debug, PartialEq, Eq)]
pub struct F2 {
    pub c0: BigUint,
    pub c1: BigUint,
}

impl F2 {
    pub fn is_zero(&self) -> bool { self.c0.is_zero() && self.c1.is_zero() }

    pub fn add(&self, o: &F2) -> F2 {
        let p = p381();
        F2 { c0: addm(&self.c0, &o.c0, p), c1: addm(&self.c1, &o.c1, p) }
    }

    pub fn neg(&self) -> F2 {
        let p = p381();
        F2 { c0: negm(&self.c0, p), c1: negm(&self.c1, p) }
    }

    pub fn mul(&self, o: &F2) -> F2 {
        let p = p381();
        // (a0 + a1 u)(b0 + b1 u) = a0 b0 - a1 b1 + (a0 b1 + a1 b0) u
        let c0 = subm(&mulm(&self.c0, &o.c0, p), &mulm(&self.c1, &o.c1, p), p);
        let c1 = addm(&mulm(&self.c0, &o.c1, p), &mulm(&self.c1, &o.c0, p), p);
        F2 { c0, c1 }
    }

    pub fn sq(&self) -> F2 { self.mul(self) }

    /// Some(square root) if the element is a square. p = 3 mod 4, u^2 = -1.
    pub fn sqrt(&self) -> Option<F2> {
        let p = p381();
        if self.is_zero() {
            return Some(self.clone());
        }
        let cand = if self.c1.is_zero() {
            if is_qr(&self.c0, p) {
                F2 { c0: sqrt34(&self.c0, p), c1: BigUint::zero() }
            } else {
                // (s u)^2 = -s^2 = a0  =>  s^2 = -a0
                F2 { c0: BigUint::zero(), c1: sqrt34(&negm(&self.c0, p), p) }
            }
        } else {
            let n = addm(&mulm(&self.c0, &self.c0, p), &mulm(&self.c1, &self.c1, p), p);
            if !is_qr(&n, p) {
                return None;
            }
            let d = sqrt34(&n, p);
            let inv2 = invm(&BigUint::from(2u32), p);
            let mut t = mulm(&addm(&self.c0, &d, p), &inv2, p);
            if !is_qr(&t, p) || t.is_zero() {
                t = mulm(&subm(&self.c0, &d, p), &inv2, p);
            }
            if !is_qr(&t, p) || t.is_zero() {
                return None;
            }
            let y0 = sqrt34(&t, p);
            let y1 = mulm(&self.c1, &invm(&mulm(&BigUint::from(2u32), &y0, p), p), p);
            F2 { c0: y0, c1: y1 }
        };
        if cand.sq() == *self {
            Some(cand)
        } else {
            None
        }
    }

    /// zcash/IETF rule: y is "lexicographically largest" when it is larger than -y, comparing
    /// the c1 coefficient first and c0 on ties.
    pub fn is_lex_largest(&self) -> bool {
        let p = p381();
        let half = (p - BigUint::one()) >> 1;
        if !self.c1.is_zero() {
            self.c1 > half
        } else {
            self.c0 > half
        }
    }
}

// ------------------------------------------------------------------------------------------
// zcash-format compressed point decoder model (BLS12-381 G1: 48 bytes, G2: 96 bytes)

#[derive(Debug, Clone, PartialEq, Eq)]
pub enum Coord {
    Fp(BigUint),
    Fp2(F2),
}

/// Outcome of the model decoder *before* the subgroup test (which needs group arithmetic and is
/// done by the caller through a plain double-and-add multiplication by r).
#[derive(Debug, Clone, PartialEq, Eq)]
pub enum ModelPoint {
    Reject(&'static str),
    Infinity,
    /// Affine coordinates of a point on the curve (subgroup membership not yet decided).
    OnCurve { x: Coord, y: Coord },
}

fn be(b: &[u8]) -> BigUint { BigUint::from_bytes_be(b) }

pub fn model_decode_g1(b: &[u8]) -> ModelPoint {
    if b.len() != 48 {
        return ModelPoint::Reject("length");
    }
    let p = p381();
    let compressed = b[0] & 0x80 != 0;
    let infinity = b[0] & 0x40 != 0;
    let sort = b[0] & 0x20 != 0;
    if !compressed {
        return ModelPoint::Reject("compression-flag-clear");
    }
    let mut body = b.to_vec();
    body[0] &= 0x1f;
    let x = be(&body);
    if infinity {
        if !x.is_zero() {
            return ModelPoint::Reject("infinity-nonzero-body");
        }
        if sort {
            return ModelPoint::Reject("infinity-sort-flag");
        }
        return ModelPoint::Infinity;
    }
    if &x >= p {
        return ModelPoint::Reject("x-not-canonical");
    }
    let rhs = addm(&mulm(&mulm(&x, &x, p), &x, p), &BigUint::from(4u32), p);
    if !is_qr(&rhs, p) {
        return ModelPoint::Reject("off-curve");
    }
    let y = sqrt34(&rhs, p);
    let ny = negm(&y, p);
    let (small, large) = if y > ny { (ny, y) } else { (y, ny) };
    let y = if sort { large } else { small };
    if y.is_zero() && sort {
        // y = -y = 0: only one encoding is canonical
        return ModelPoint::Reject("sort-flag-on-y-zero");
    }
    ModelPoint::OnCurve { x: Coord::Fp(x), y: Coord::Fp(y) }
}

pub fn model_decode_g2(b: &[u8]) -> ModelPoint {
    if b.len() != 96 {
        return ModelPoint::Reject("length");
    }
    let p = p381();
    let compressed = b[0] & 0x80 != 0;
    let infinity = b[0] & 0x40 != 0;
    let sort = b[0] & 0x20 != 0;
    if !compressed {
        return ModelPoint::Reject("compression-flag-clear");
    }
    let mut body = b.to_vec();
    body[0] &= 0x1f;
    let c1 = be(&body[0..48]);
    let c0 = be(&body[48..96]);
    if infinity {
        if !c1.is_zero() || !c0.is_zero() {
            return ModelPoint::Reject("infinity-nonzero-body");
        }
        if sort {
            return ModelPoint::Reject("infinity-sort-flag");
        }
        return ModelPoint::Infinity;
    }
    if &c1 >= p || &c0 >= p {
        return ModelPoint::Reject("x-not-canonical");
    }
    let x = F2 { c0, c1 };
    // y^2 = x^3 + 4(1+u)
    let b4 = F2 { c0: BigUint::from(4u32), c1: BigUint::from(4u32) };
    let rhs = x.sq().mul(&x).add(&b4);
    let Some(y) = rhs.sqrt() else {
        return ModelPoint::Reject("off-curve");
    };
    let ny = y.neg();
    let y = if y.is_lex_largest() == sort { y } else { ny };
    if y.is_zero() && sort {
        return ModelPoint::Reject("sort-flag-on-y-zero");
    }
    ModelPoint::OnCurve { x: Coord::Fp2(x), y: Coord::Fp2(y) }
}

fn be48(v: &BigUint) -> [u8; 48] {
    let raw = v.to_bytes_be();
    let mut out = [0u8; 48];
    out[48 - raw.len()..].copy_from_slice(&raw);
    out
}

/// Model encoder (zcash compressed format) from affine coordinates.
pub fn model_encode(x: &Coord, y: &Coord) -> Vec<u8> {
    let p = p381();
    let half = (p - BigUint::one()) >> 1;
    match (x, y) {
        (Coord::Fp(x), Coord::Fp(y)) => {
            let mut out = be48(x).to_vec();
            out[0] |= 0x80;
            if y > &half {
                out[0] |= 0x20;
            }
            out
        }
        (Coord::Fp2(x), Coord::Fp2(y)) => {
            let mut out = be48(&x.c1).to_vec();
            out.extend_from_slice(&be48(&x.c0));
            out[0] |= 0x80;
            if y.is_lex_largest() {
                out[0] |= 0x20;
            }
            out
        }
        _ => unreachable!("mixed coordinates"),
    }
}

pub fn model_encode_infinity(len: usize) -> Vec<u8> {
    let mut v = vec![0u8; len];
    v[0] = 0xc0;
    v
}

// ------------------------------------------------------------------------------------------
// ristretto255 decoder model, RFC 9496 section 4.3.1

fn rist_d() -> &'static BigUint {
    static V: OnceLock<BigUint> = OnceLock::new();
    V.get_or_init(|| {
        BigUint::parse_bytes(b"37095705934669439343138083508754565189542113879843219016388785533085940283555", 10).unwrap()
    })
}

fn sqrt_m1() -> &'static BigUint {
    static V: OnceLock<BigUint> = OnceLock::new();
    V.get_or_init(|| {
        BigUint::parse_bytes(b"19681161376707505956807079304988542015446066515923890162744021073123829784752", 10).unwrap()
    })
}

fn is_neg(a: &BigUint) -> bool { a.bit(0) }

fn ct_abs(a: BigUint, p: &BigUint) -> BigUint {
    if is_neg(&a) {
        negm(&a, p)
    } else {
        a
    }
}

/// SQRT_RATIO_M1(u, v) of RFC 9496 section 4.2.
fn sqrt_ratio_m1(u: &BigUint, v: &BigUint) -> (bool, BigUint) {
    let p = p25519();
    let v3 = mulm(&mulm(v, v, p), v, p);
    let v7 = mulm(&mulm(&v3, &v3, p), v, p);
    let e = (p - BigUint::from(5u32)) >> 3;
    let mut r = mulm(&mulm(u, &v3, p), &mulm(u, &v7, p).modpow(&e, p), p);
    let check = mulm(v, &mulm(&r, &r, p), p);
    let neg_u = negm(u, p);
    let correct = &check == u;
    let flipped = check == neg_u;
    let flipped_i = check == mulm(&neg_u, sqrt_m1(), p);
    if flipped || flipped_i {
        r = mulm(sqrt_m1(), &r, p);
    }
    (correct || flipped, ct_abs(r, p))
}

#[derive(Debug, Clone, PartialEq, Eq)]
pub enum ModelRistretto {
    Reject(&'static str),
    /// Extended coordinates representative (x, y) of the decoded element.
    Accept { x: BigUint, y: BigUint },
}

pub fn model_decode_ristretto(b: &[u8]) -> ModelRistretto {
    if b.len() != 32 {
        return ModelRistretto::Reject("length");
    }
    let p = p25519();
    let s = BigUint::from_bytes_le(b);
    if &s >= p {
        return ModelRistretto::Reject("s-not-canonical");
    }
    if is_neg(&s) {
        return ModelRistretto::Reject("s-negative");
    }
    let one = BigUint::one();
    let ss = mulm(&s, &s, p);
    let u1 = subm(&one, &ss, p);
    let u2 = addm(&one, &ss, p);
    let u2_sqr = mulm(&u2, &u2, p);
    // v = -(D * u1^2) - u2_sqr
    let v = subm(&negm(&mulm(rist_d(), &mulm(&u1, &u1, p), p), p), &u2_sqr, p);
    let (was_square, invsqrt) = sqrt_ratio_m1(&one, &mulm(&v, &u2_sqr, p));
    let den_x = mulm(&invsqrt, &u2, p);
    let den_y = mulm(&mulm(&invsqrt, &den_x, p), &v, p);
    let x = ct_abs(mulm(&mulm(&BigUint::from(2u32), &s, p), &den_x, p), p);
    let y = mulm(&u1, &den_y, p);
    let t = mulm(&x, &y, p);
    if !was_square {
        return ModelRistretto::Reject("not-square");
    }
    if is_neg(&t) {
        return ModelRistretto::Reject("t-negative");
    }
    if y.is_zero() {
        return ModelRistretto::Reject("y-zero");
    }
    ModelRistretto::Accept { x, y }
}

/// Twisted Edwards equation -x^2 + y^2 = 1 + d x^2 y^2 over GF(2^255-19).
pub fn on_edwards25519(x: &BigUint, y: &BigUint) -> bool {
    let p = p25519();
    let xx = mulm(x, x, p);
    let yy = mulm(y, y, p);
    let lhs = subm(&yy, &xx, p);
    let rhs = addm(&BigUint::one(), &mulm(rist_d(), &mulm(&xx, &yy, p), p), p);
    lhs == rhs
}

// ------------------------------------------------------------------------------------------
// misc

pub fn limbs4(v: &BigUint) -> Vec<u64> {
    let mut l = v.to_u64_digits();
    assert!(l.len() <= 4, "value does not fit four limbs");
    l.resize(4, 0);
    l
}

pub fn from_limbs(l: &[u64]) -> BigUint {
    let mut bytes = Vec::with_capacity(l.len() * 8);
    for x in l {
        bytes.extend_from_slice(&x.to_le_bytes());
    }
    BigUint::from_bytes_le(&bytes)
}

pub fn hex_of(v: &BigUint) -> String { format!("0x{}", v.to_str_radix(16)) }
