fn main() { vcore::main(c19::property()) }
