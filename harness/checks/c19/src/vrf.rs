//! ECVRF (`ecvrf`): completeness, determinism, binding to key and message, uniqueness of the
//! output under forged proofs, agreement with an independent transcription of
//! draft-irtf-cfrg-vrf-07 (ECVRF-ED25519-SHA512-TAI, suite 0x03).
use crate::util::*;
use concordium_base::{
    common::{from_bytes, to_bytes},
    ecvrf,
};
use curve25519_dalek::{
    constants::{ED25519_BASEPOINT_POINT, EIGHT_TORSION},
    edwards::{CompressedEdwardsY, EdwardsPoint},
    scalar::{clamp_integer, Scalar},
    traits::Identity,
};
use rand::RngCore;
use sha2::{Digest, Sha512};
use vcore::{gen, vensure, vfail, CheckResult, Ctx, Unstructured};

fn de<T: concordium_base::common::Deserial>(b: &[u8]) -> Option<T> {
    let mut c = std::io::Cursor::new(b);
    let r: Option<T> = from_bytes(&mut c).ok();
    if c.position() as usize != b.len() {
        return None;
    }
    r
}

// ------------------------------------------------------------------------------------------
// Independent reference (written from the draft, using only curve25519-dalek and sha2).

struct RefKey {
    x:     Scalar,
    nonce: [u8; 32],
    pk:    [u8; 32],
}

fn ref_expand(sk: &[u8; 32]) -> RefKey {
    let h = Sha512::digest(sk);
    let mut lower = [0u8; 32];
    lower.copy_from_slice(&h[..32]);
    let mut nonce = [0u8; 32];
    nonce.copy_from_slice(&h[32..]);
    let x = Scalar::from_bytes_mod_order(clamp_integer(lower));
    let pk = (x * ED25519_BASEPOINT_POINT).compress().to_bytes();
    RefKey { x, nonce, pk }
}

/// ECVRF_hash_to_curve_try_and_increment (5.4.1.1)
fn ref_hash_to_curve(pk: &[u8; 32], alpha: &[u8]) -> EdwardsPoint {
    for ctr in 0u8..=255 {
        let mut h = Sha512::new();
        h.update([3u8]); // suite_string
        h.update([1u8]); // one_string
        h.update(pk);
        h.update(alpha);
        h.update([ctr]);
        h.update([0u8]);
        let d = h.finalize();
        let mut b = [0u8; 32];
        b.copy_from_slice(&d[..32]);
        if let Some(p) = CompressedEdwardsY(b).decompress() {
            let hp = p.mul_by_cofactor();
            if hp != EdwardsPoint::identity() {
                return hp;
            }
        }
    }
    panic!("reference hash_to_curve failed 256 times")
}

/// ECVRF_hash_points (5.4.3): first 16 bytes, little endian integer
fn ref_hash_points(pts: [&EdwardsPoint; 4]) -> Scalar {
    let mut h = Sha512::new();
    h.update([3u8]);
    h.update([2u8]);
    for p in pts {
        h.update(p.compress().to_bytes());
    }
    h.update([0u8]);
    let d = h.finalize();
    let mut c = [0u8; 32];
    c[..16].copy_from_slice(&d[..16]);
    Scalar::from_bytes_mod_order(c)
}

fn ref_nonce(key: &RefKey, h_point: &EdwardsPoint) -> Scalar {
    let mut h = Sha512::new();
    h.update(key.nonce);
    h.update(h_point.compress().to_bytes());
    let mut wide = [0u8; 64];
    wide.copy_from_slice(&h.finalize());
    Scalar::from_bytes_mod_order_wide(&wide)
}

fn ref_encode(gamma: &EdwardsPoint, c: &Scalar, s: &Scalar) -> Vec<u8> {
    let mut v = Vec::with_capacity(80);
    v.extend_from_slice(&gamma.compress().to_bytes());
    v.extend_from_slice(&c.to_bytes()[..16]);
    v.extend_from_slice(&s.to_bytes());
    v
}

/// ECVRF_prove (5.1); returns (pi, beta, H, Gamma)
fn ref_prove(key: &RefKey, alpha: &[u8]) -> (Vec<u8>, [u8; 64], EdwardsPoint, EdwardsPoint) {
    let h = ref_hash_to_curve(&key.pk, alpha);
    let gamma = key.x * h;
    let k = ref_nonce(key, &h);
    let c = ref_hash_points([&h, &gamma, &(k * ED25519_BASEPOINT_POINT), &(k * h)]);
    let s = k + c * key.x;
    (ref_encode(&gamma, &c, &s), ref_beta(&gamma), h, gamma)
}

/// ECVRF_proof_to_hash (5.2)
fn ref_beta(gamma: &EdwardsPoint) -> [u8; 64] {
    let mut h = Sha512::new();
    h.update([3u8]);
    h.update([3u8]);
    h.update(gamma.mul_by_cofactor().compress().to_bytes());
    h.update([0u8]);
    let mut out = [0u8; 64];
    out.copy_from_slice(&h.finalize());
    out
}

// ------------------------------------------------------------------------------------------
// Golden vectors: draft-irtf-cfrg-vrf-07 appendix A.3 (SK, alpha, PK, pi, beta)

const GOLDEN: [(&str, &str, &str, &str, &str); 3] = [
    (
        "9d61b19deffd5a60ba844af492ec2cc44449c5697b326919703bac031cae7f60",
        "",
        "d75a980182b10ab7d54bfed3c964073a0ee172f3daa62325af021a68f707511a",
        "8657106690b5526245a92b003bb079ccd1a92130477671f6fc01ad16f26f723f5e8bd1839b414219e8626d393787a192241fc442e6569e96c462f62b8079b9ed83ff2ee21c90c7c398802fdeebea4001",
        "90cf1df3b703cce59e2a35b925d411164068269d7b2d29f3301c03dd757876ff66b71dda49d2de59d03450451af026798e8f81cd2e333de5cdf4f3e140fdd8ae",
    ),
    (
        "4ccd089b28ff96da9db6c346ec114e0f5b8a319f35aba624da8cf6ed4fb8a6fb",
        "72",
        "3d4017c3e843895a92b70aa74d1b7ebc9c982ccf2ec4968cc0cd55f12af4660c",
        "f3141cd382dc42909d19ec5110469e4feae18300e94f304590abdced48aed593f7eaf3eb2f1a968cba3f6e23b386aeeaab7b1ea44a256e811892e13eeae7c9f6ea8992557453eac11c4d5476b1f35a08",
        "eb4440665d3891d668e7e0fcaf587f1b4bd7fbfe99d0eb2211ccec90496310eb5e33821bc613efb94db5e5b54c70a848a0bef4553a41befc57663b56373a5031",
    ),
    (
        "c5aa8df43f9f837bedb7442f31dcb7b166d38535076f094b85ce3a2e0b4458f7",
        "af82",
        "fc51cd8e6218a1a38da47ed00230f0580816ed13ba3303ac5deb911548908025",
        "9bc0f79119cc5604bf02d23b4caede71393cedfbb191434dd016d30177ccbf80e29dc513c01c3a980e0e545bcd848222d08a6c3e3665ff5a4cab13a643bef812e284c6b2ee063a2cb4f456794723ad0a",
        "645427e5d00c62a23fb703732fa5d892940935942101e456ecca7bb217c61c452118fec1219202a0edcf038bb6373241578be7217ba85a2687f7a0310b2df19f",
    ),
];

fn unhex(s: &str) -> Vec<u8> {
    (0..s.len() / 2).map(|i| u8::from_str_radix(&s[2 * i..2 * i + 2], 16).unwrap()).collect()
}

// ------------------------------------------------------------------------------------------

pub fn t_vrf(data: &[u8], ctx: &mut Ctx) -> CheckResult {
    let mut u = Unstructured::new(data);
    let mut rng = gen::rng(&mut u);
    let mode = gen::byte(&mut u) % 32;
    let full_sweep = gen::ratio(&mut u, 1, 16);
    let forge_gamma = gen::byte(&mut u) % 16;
    let forge_cs = gen::byte(&mut u) % 3;
    let mut golden: Option<usize> = None;
    let mut sk_bytes = [0u8; 32];
    let mut alpha: Vec<u8>;
    match mode {
        0..=25 => {
            rng.fill_bytes(&mut sk_bytes);
            alpha = message(&mut u);
        }
        26 => {
            alpha = message(&mut u); // all-zero secret key bytes
        }
        27 => {
            sk_bytes = [0xff; 32];
            alpha = message(&mut u);
        }
        28 => {
            sk_bytes = gen::array::<32>(&mut u); // structured / low-entropy secret key bytes
            alpha = message(&mut u);
        }
        _ => {
            let i = (mode as usize - 29) % 3;
            golden = Some(i);
            sk_bytes.copy_from_slice(&unhex(GOLDEN[i].0));
            alpha = unhex(GOLDEN[i].1);
        }
    }
    let (alpha2, alpha2_kind) = other_message(&mut u, &alpha);
    let proof_bits: Vec<usize> = if full_sweep { (0..640).collect() } else { pick_bits(&mut u, 640, 16, &[255, 383, 639]) };
    let pk_bits = pick_bits(&mut u, 256, 6, &[255]);
    if alpha.len() > 2048 {
        alpha.truncate(2048);
    }

    ctx.class(match mode {
        0..=25 => "key-random",
        26..=28 => "key-boundary",
        _ => "golden-vector",
    });
    ctx.class(alpha2_kind);
    if full_sweep {
        ctx.class("proof-bitflip-full-sweep");
    }
    ctx.nontrivial(&(sk_bytes, &alpha, &alpha2, &proof_bits, forge_gamma, forge_cs));
    ctx.sample(|| format!("vrf mode={} alpha={} alpha2={}({}) forge=({},{}) flips={}", mode, describe_msg(&alpha), describe_msg(&alpha2), alpha2_kind, forge_gamma, forge_cs, proof_bits.len()));
    ctx.describe(|| {
        format!(
            "vrf\n sk={}\n alpha={}\n alpha2={} ({})\n proof_bits={:?}\n pk_bits={:?}\n forge_gamma={} forge_cs={}",
            gen::hex(&sk_bytes), gen::hex(&alpha), gen::hex(&alpha2), alpha2_kind, proof_bits, pk_bits, forge_gamma, forge_cs
        )
    });

    // ---- keys
    let sk = match ecvrf::SecretKey::from_bytes(&sk_bytes) {
        Ok(k) => k,
        Err(e) => vfail!("vrf-key", "SecretKey::from_bytes rejects 32 bytes: {:?}", e),
    };
    let pk = ecvrf::PublicKey::from(&sk);
    let rk = ref_expand(&sk_bytes);
    vensure!(pk.as_bytes() == &rk.pk, "vrf-ref-public-key", "public key {} differs from reference {}", gen::hex(pk.as_bytes()), gen::hex(&rk.pk));
    vensure!(pk.verify_key(), "vrf-key", "derived public key fails verify_key");
    let pk_b = to_bytes(&pk);
    vensure!(pk_b.len() == 32 && de::<ecvrf::PublicKey>(&pk_b) == Some(pk), "vrf-roundtrip", "public key does not round-trip");
    let sk_r: Option<ecvrf::SecretKey> = de(&to_bytes(&sk));
    vensure!(sk_r.map(|k| *k.as_bytes() == sk_bytes) == Some(true), "vrf-roundtrip", "secret key does not round-trip");

    // ---- documented: public keys of small order are rejected when deserialising
    let t = EIGHT_TORSION[(forge_gamma % 8) as usize];
    vensure!(
        de::<ecvrf::PublicKey>(&t.compress().to_bytes()).is_none(),
        "vrf-small-order-key",
        "a small-order point {} deserialises as a public key", gen::hex(&t.compress().to_bytes())
    );

    // ---- hash to curve
    let h1 = pk.hash_to_curve(&alpha);
    let h2 = pk.hash_to_curve(&alpha);
    let h = match (h1, h2) {
        (Some(a), Some(b)) => {
            vensure!(a == b, "vrf-hash-to-curve", "hash_to_curve is not deterministic");
            a
        }
        _ => vfail!("vrf-hash-to-curve", "hash_to_curve failed"),
    };
    vensure!(h.is_torsion_free() && h != EdwardsPoint::identity(), "vrf-hash-to-curve", "hash_to_curve result not a non-identity point of the prime order subgroup");

    // ---- prove / verify / determinism
    let proof = sk.prove(&pk, &alpha);
    let proof_again = sk.prove(&pk, &alpha);
    let kp = ecvrf::Keypair { secret: ecvrf::SecretKey::from_bytes(&sk_bytes).unwrap(), public: pk };
    let proof_kp = kp.prove(&alpha);
    vensure!(proof == proof_again && proof == proof_kp, "vrf-deterministic", "repeated proving gives different proofs");
    vensure!(pk.verify(&proof, &alpha), "vrf-complete", "honest proof does not verify");
    let beta = proof.to_hash();
    vensure!(beta == proof_again.to_hash(), "vrf-deterministic", "output differs across repeated proving");
    let pi = to_bytes(&proof);
    vensure!(pi.len() == ecvrf::PROOF_LENGTH, "vrf-size", "proof has {} bytes", pi.len());
    match de::<ecvrf::Proof>(&pi) {
        Some(p) => {
            vensure!(p == proof, "vrf-roundtrip", "proof does not round-trip");
            vensure!(pk.verify(&p, &alpha) && p.to_hash() == beta, "vrf-roundtrip", "re-decoded proof does not verify / gives other output");
        }
        None => vfail!("vrf-roundtrip", "proof does not re-decode"),
    }

    // ---- reference
    let (ref_pi, ref_b, ref_h, ref_gamma) = ref_prove(&rk, &alpha);
    vensure!(h == ref_h, "vrf-ref-hash-to-curve", "hash_to_curve differs from reference");
    vensure!(pi == ref_pi, "vrf-ref-proof", "proof {} differs from reference {}", gen::hex(&pi), gen::hex(&ref_pi));
    vensure!(beta == ref_b, "vrf-ref-output", "output {} differs from reference {}", gen::hex(&beta), gen::hex(&ref_b));
    if let Some(i) = golden {
        vensure!(gen::hex(pk.as_bytes()) == GOLDEN[i].2, "vrf-golden", "public key differs from draft test vector {}", i);
        vensure!(gen::hex(&pi) == GOLDEN[i].3, "vrf-golden", "proof differs from draft test vector {}", i);
        vensure!(gen::hex(&beta) == GOLDEN[i].4, "vrf-golden", "output differs from draft test vector {}", i);
    }

    // ---- other message
    vensure!(!pk.verify(&proof, &alpha2), "vrf-wrong-message", "proof for alpha verifies for alpha2 ({})", alpha2_kind);
    let proof_a2 = sk.prove(&pk, &alpha2);
    vensure!(pk.verify(&proof_a2, &alpha2), "vrf-complete", "honest proof for alpha2 does not verify");
    vensure!(!pk.verify(&proof_a2, &alpha), "vrf-wrong-message", "proof for alpha2 verifies for alpha ({})", alpha2_kind);
    vensure!(proof_a2.to_hash() != beta, "vrf-output-differs", "outputs for different messages are equal ({})", alpha2_kind);

    // ---- other key
    let mut sk2_bytes = [0u8; 32];
    rng.fill_bytes(&mut sk2_bytes);
    let sk2 = ecvrf::SecretKey::from_bytes(&sk2_bytes).unwrap();
    let pk2 = ecvrf::PublicKey::from(&sk2);
    vensure!(!pk2.verify(&proof, &alpha), "vrf-wrong-key", "proof verifies under an unrelated key");
    let proof_k2 = sk2.prove(&pk2, &alpha);
    vensure!(pk2.verify(&proof_k2, &alpha), "vrf-complete", "proof by second key does not verify");
    vensure!(!pk.verify(&proof_k2, &alpha), "vrf-wrong-key", "proof by an unrelated key verifies under pk");

    // ---- single bit flips in the proof
    for &bit in &proof_bits {
        match de::<ecvrf::Proof>(&flip(&pi, bit)) {
            None => ctx.class("proofflip-decode-error"),
            Some(p) => {
                ctx.class("proofflip-decodes");
                vensure!(p != proof, "vrf-proof-bitflip", "flipping bit {} decodes to the same proof", bit);
                vensure!(!pk.verify(&p, &alpha), "vrf-proof-bitflip", "proof with bit {} flipped verifies", bit);
            }
        }
    }
    // ---- single bit flips in the public key
    for &bit in &pk_bits {
        match de::<ecvrf::PublicKey>(&flip(&pk_b, bit)) {
            None => ctx.class("pkflip-decode-error"),
            Some(p) => {
                ctx.class("pkflip-decodes");
                vensure!(p != pk, "vrf-pk-bitflip", "flipping bit {} decodes to the same key", bit);
                vensure!(!p.verify(&proof, &alpha), "vrf-pk-bitflip", "proof verifies under key with bit {} flipped", bit);
            }
        }
    }

    // ---- forged proofs: whatever is accepted for (pk, alpha) must have the honest output
    // (uniqueness); a proof whose Gamma is not Gamma up to a small-order component must be rejected.
    let (gamma_f, gname): (EdwardsPoint, &'static str) = match forge_gamma {
        0 => (EdwardsPoint::identity(), "gamma-identity"),
        1..=7 => (EIGHT_TORSION[forge_gamma as usize], "gamma-small-order"),
        8 => (ref_h, "gamma-H"),
        9 | 10 => (ref_gamma + EIGHT_TORSION[4], "gamma-plus-order2"),
        11 => (ref_gamma + EIGHT_TORSION[1], "gamma-plus-order8"),
        12 => (ref_gamma + ref_gamma, "gamma-doubled"),
        13 => (-ref_gamma, "gamma-negated"),
        14 => (Scalar::from(rng.next_u64()) * ED25519_BASEPOINT_POINT, "gamma-random"),
        _ => (Scalar::from(rng.next_u64()) * ref_h, "gamma-other-exponent"),
    };
    let honest_c = proof.1;
    let honest_s = proof.2;
    let (c_f, s_f, csname): (Scalar, Scalar, &'static str) = match forge_cs {
        0 => {
            // the honest prover algorithm run on the wrong Gamma with a fresh nonce
            let mut wide = [0u8; 64];
            rng.fill_bytes(&mut wide);
            let k = Scalar::from_bytes_mod_order_wide(&wide);
            let c = ref_hash_points([&ref_h, &gamma_f, &(k * ED25519_BASEPOINT_POINT), &(k * ref_h)]);
            (c, k + c * rk.x, "cs-honest-algorithm")
        }
        1 => (honest_c, honest_s, "cs-from-honest-proof"),
        _ => {
            let mut wide = [0u8; 64];
            rng.fill_bytes(&mut wide);
            (Scalar::ZERO, Scalar::from_bytes_mod_order_wide(&wide), "cs-zero-challenge")
        }
    };
    ctx.class(gname);
    ctx.class(csname);
    let forged_bytes = ref_encode(&gamma_f, &c_f, &s_f);
    match de::<ecvrf::Proof>(&forged_bytes) {
        None => ctx.class("forged-decode-error"),
        Some(fp) => {
            let same_output_class = gamma_f.mul_by_cofactor() == ref_gamma.mul_by_cofactor();
            let accepted = pk.verify(&fp, &alpha);
            if accepted {
                ctx.class("forged-accepted-same-output");
                vensure!(
                    fp.to_hash() == beta,
                    "vrf-unique-output",
                    "forged proof ({}, {}) is accepted for (pk, alpha) but yields a different output", gname, csname
                );
            } else {
                ctx.class("forged-rejected");
            }
            if !same_output_class {
                vensure!(!accepted, "vrf-forged-gamma", "forged proof with wrong Gamma ({}, {}) accepted", gname, csname);
            }
        }
    }
    Ok(())
}
