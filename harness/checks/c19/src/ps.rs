//! Pointcheval-Sanders signatures (`ps_sig`): known-message signing, blind issuance on a
//! commitment + retrieval, blinding.
use crate::{bls::Bls, util::*};
use concordium_base::{
    common::{from_bytes, to_bytes},
    curve_arithmetic::{Curve, Field, Pairing as CPairing, Value},
    pedersen_commitment::CommitmentKey,
    ps_sig,
    random_oracle::RandomOracle,
    sigma_protocols::{
        com_eq_sig::{ComEqSig, ComEqSigSecret},
        common::{prove, verify},
    },
};
use vcore::{gen, vensure, vfail, CheckResult, Ctx, Unstructured};

type CG1 = <Bls as CPairing>::G1;
type Fr = <Bls as CPairing>::ScalarField;
type Sig = ps_sig::Signature<Bls>;
type Msg = ps_sig::KnownMessage<Bls>;

fn de<T: concordium_base::common::Deserial>(b: &[u8]) -> Option<T> {
    let mut c = std::io::Cursor::new(b);
    let r: Option<T> = from_bytes(&mut c).ok();
    if c.position() as usize != b.len() {
        return None;
    }
    r
}

fn neg(x: Fr) -> Fr {
    let mut y = x;
    y.negate();
    y
}

fn add(x: Fr, y: Fr) -> Fr {
    let mut z = x;
    z.add_assign(&y);
    z
}

/// Scalar from the boundary table. Returns also a short tag for printing.
fn scalar(u: &mut Unstructured, rng: &mut impl rand::Rng, prev: &[Fr]) -> (Fr, &'static str) {
    match gen::byte(u) % 10 {
        0 => (Fr::zero(), "0"),
        1 => (Fr::one(), "1"),
        2 => (neg(Fr::one()), "-1"),
        3 => {
            // 2^k, k < 255 (may exceed r for k = 254: reduce through repeated doubling)
            let k = gen::byte(u) as usize % 255;
            let mut x = Fr::one();
            for _ in 0..k {
                x.double();
            }
            (x, "2^k")
        }
        4 => (CG1::scalar_from_u64(gen::boundary_u64(u)), "u64"),
        5 if !prev.is_empty() => (prev[gen::idx(u, prev.len())], "repeat"),
        6 if !prev.is_empty() => (neg(prev[gen::idx(u, prev.len())]), "neg-repeat"),
        _ => (<Bls as CPairing>::generate_scalar(rng), "random"),
    }
}

#[allow(deprecated)]
fn ro(ctx: &[u8]) -> RandomOracle { RandomOracle::domain(ctx) }

pub fn t_ps(data: &[u8], ctx: &mut Ctx) -> CheckResult {
    let mut u = Unstructured::new(data);
    let mut rng = gen::rng(&mut u);
    // key length and message length
    let n = match gen::byte(&mut u) % 8 {
        0 => 0,
        1 => 1,
        2 => 2,
        7 => 8,
        _ => gen::range_usize(&mut u, 2, 6),
    };
    let l = if gen::ratio(&mut u, 3, 4) { n } else { gen::range_usize(&mut u, 0, n) };
    let mut ms: Vec<Fr> = Vec::with_capacity(l);
    let mut tags: Vec<&'static str> = Vec::with_capacity(l);
    for _ in 0..l {
        let (s, t) = scalar(&mut u, &mut rng, &ms);
        ms.push(s);
        tags.push(t);
    }
    // message mutations (each yields a vector that differs from `ms` after zero padding)
    let mut_kind = gen::byte(&mut u) % 6;
    let mut_pos = gen::idx(&mut u, l.max(1));
    let mut_pos2 = gen::idx(&mut u, l.max(1));
    let (delta, _) = scalar(&mut u, &mut rng, &ms);
    let sig_bits = pick_bits(&mut u, 96 * 8, 4, &[5, 48 * 8 + 5]);
    let pk_flip_choice = gen::u32v(&mut u) as usize;
    let do_comeq = gen::ratio(&mut u, 1, 4);
    let wrong_mask_zero = gen::boolean(&mut u);

    let sk = ps_sig::SecretKey::<Bls>::generate(n, &mut rng);
    let pk = ps_sig::PublicKey::<Bls>::from(&sk);
    let sk2 = ps_sig::SecretKey::<Bls>::generate(n, &mut rng);
    let pk2 = ps_sig::PublicKey::<Bls>::from(&sk2);

    // the changed message
    let mut ms2 = ms.clone();
    let delta = if delta.is_zero() { Fr::one() } else { delta };
    let mname: &'static str = match mut_kind {
        0 | 1 if l > 0 => {
            ms2[mut_pos] = add(ms2[mut_pos], delta);
            if mut_pos == l - 1 { "change-last-element" } else { "change-element" }
        }
        2 if l >= 2 && ms[mut_pos] != ms[mut_pos2] => {
            ms2.swap(mut_pos, mut_pos2);
            "swap-elements"
        }
        3 if l > 0 && !ms[l - 1].is_zero() => {
            ms2.pop();
            "truncate-nonzero-last"
        }
        4 if l > 0 => {
            ms2[mut_pos] = if ms2[mut_pos].is_zero() { delta } else { Fr::zero() };
            "zero-toggle-element"
        }
        _ => {
            // extend by a non-zero element (beyond the key length when l == n)
            ms2.push(delta);
            if l == n { "extend-beyond-key" } else { "extend-nonzero" }
        }
    };

    ctx.class(match n {
        0 => "keylen-0",
        1 => "keylen-1",
        _ => "keylen>=2",
    });
    ctx.class(if l == n { "msglen=keylen" } else { "msglen<keylen" });
    ctx.class(mname);
    if ms.iter().any(|m| m.is_zero()) {
        ctx.class("has-zero-element");
    }
    if l >= 2 {
        ctx.class("nontrivial");
        ctx.nontrivial(&(to_bytes(&sk), to_bytes(&ps_sig::KnownMessage::<Bls>(ms.clone())), mname, mut_pos, &sig_bits));
    }
    ctx.sample(|| format!("ps n={} l={} elems={:?} mutation={}@{} comeq={}", n, l, tags, mname, mut_pos, do_comeq));
    ctx.describe(|| {
        format!(
            "ps n={} l={}\n sk={}\n ms={:?}\n ms2={:?} ({})\n sig_bits={:?} comeq={} wrong_mask_zero={}",
            n, l, gen::hex(&to_bytes(&sk)),
            ms.iter().map(|m| gen::hex(&to_bytes(m))).collect::<Vec<_>>(),
            ms2.iter().map(|m| gen::hex(&to_bytes(m))).collect::<Vec<_>>(),
            mname, sig_bits, do_comeq, wrong_mask_zero
        )
    });

    let msg = ps_sig::KnownMessage::<Bls>(ms.clone());
    let msg2 = ps_sig::KnownMessage::<Bls>(ms2.clone());

    // key serialization
    let pk_b = to_bytes(&pk);
    vensure!(de::<ps_sig::PublicKey<Bls>>(&pk_b).as_ref() == Some(&pk), "ps-roundtrip", "public key does not round-trip");
    vensure!(de::<ps_sig::SecretKey<Bls>>(&to_bytes(&sk)).as_ref() == Some(&sk), "ps-roundtrip", "secret key does not round-trip");
    vensure!(pk.len() == n, "ps-key-len", "public key length {} for secret key length {}", pk.len(), n);

    // ---- known message
    let sig_known = match sk.sign_known_message(&msg, &mut rng) {
        Ok(s) => s,
        Err(e) => vfail!("ps-sign-known", "sign_known_message fails for a message not longer than the key: {:?}", e),
    };
    check_sig("known", &pk, &pk2, &sig_known, &msg, &msg2, mname)?;
    if ms2.len() > n {
        vensure!(sk.sign_known_message(&msg2, &mut rng).is_err(), "ps-sign-too-long", "sign_known_message accepts a message longer than the key");
    }

    // ---- unknown message: commitment g^mask * prod Y_i^{m_i}, sign, retrieve
    let mask = ps_sig::SigRetrievalRandomness::<Bls>::generate_non_zero(&mut rng);
    let mut comm: CG1 = pk.g.mul_by_scalar(&mask);
    for (y, m) in pk.ys.iter().zip(ms.iter()) {
        comm = comm.plus_point(&y.mul_by_scalar(m));
    }
    let unknown = ps_sig::UnknownMessage::<Bls>(comm);
    let sig_raw = sk.sign_unknown_message(&unknown, &mut rng);
    let sig_unknown = sig_raw.retrieve(&mask);
    check_sig("unknown+retrieve", &pk, &pk2, &sig_unknown, &msg, &msg2, mname)?;
    // retrieval with the wrong randomness does not give a signature on the message
    let wrong_mask = if wrong_mask_zero {
        ps_sig::SigRetrievalRandomness::<Bls>::new(Fr::zero())
    } else {
        ps_sig::SigRetrievalRandomness::<Bls>::new(add(*mask, Fr::one()))
    };
    vensure!(!pk.verify(&sig_raw.retrieve(&wrong_mask), &msg), "ps-retrieve-wrong-randomness", "signature retrieved with the wrong randomness verifies");

    // ---- blinding keeps validity: removing the blinding factor t gives a valid signature on the
    //      same message (and only that); at a sampling rate also through ComEqSig.
    let (blinded, br) = sig_unknown.blind(&mut rng);
    let t: Fr = *br.1;
    let unblinded = ps_sig::Signature::<Bls>(blinded.sig.0, blinded.sig.1.minus_point(&blinded.sig.0.mul_by_scalar(&t)));
    check_sig("blind", &pk, &pk2, &unblinded, &msg, &msg2, mname)?;
    if do_comeq {
        ctx.class("comeqsig");
        let cmm_key = CommitmentKey::<CG1>::generate(&mut rng);
        let mut secrets = Vec::with_capacity(l);
        let mut commitments = Vec::with_capacity(l);
        for m in &ms {
            let v = Value::<CG1>::new(*m);
            let (c, r) = cmm_key.commit(&v, &mut rng);
            secrets.push((v, r));
            commitments.push(c);
        }
        let ces = ComEqSig::<Bls, CG1> { blinded_sig: blinded.clone(), commitments, ps_pub_key: pk.clone(), comm_key: cmm_key };
        let secret = ComEqSigSecret { blind_rand: br, values_and_rands: secrets };
        match prove(&mut ro(b"c19"), &ces, secret, &mut rng) {
            None => vfail!("ps-blind-comeqsig", "ComEqSig prover fails on a blinded valid signature"),
            Some(proof) => {
                vensure!(verify(&mut ro(b"c19"), &ces, &proof), "ps-blind-comeqsig", "ComEqSig proof for a blinded valid signature does not verify");
            }
        }
    }

    // ---- a public key whose G1 and G2 vectors disagree in length (public fields; the serialization has
    //      independent length prefixes): a message longer than the G2 vector it is paired with was never signed
    {
        let mut pk_u = pk.clone();
        pk_u.y_tildas.truncate(l);
        pk_u.ys.push(pk.g);
        let mut ext = ms.clone();
        ext.push(delta);
        if pk_u.verify(&sig_known, &msg) {
            ctx.class("uneven-key:signed-prefix-verifies");
        }
        vensure!(
            !pk_u.verify(&sig_known, &ps_sig::KnownMessage::<Bls>(ext)),
            "ps-uneven-key",
            "signature on {} elements verifies on {} elements under a key with {} G1 and {} G2 elements",
            l, l + 1, pk_u.ys.len(), pk_u.y_tildas.len()
        );
    }

    // ---- degenerate signature
    let zero = ps_sig::Signature::<Bls>(CG1::zero_point(), CG1::zero_point());
    vensure!(!pk.verify(&zero, &msg) && !pk.verify(&zero, &msg2), "ps-zero-signature", "the all-identity signature verifies");

    // ---- bit flips in the serialized signature
    let sig_b = to_bytes(&sig_known);
    vensure!(sig_b.len() == 96, "ps-size", "signature has {} bytes", sig_b.len());
    vensure!(de::<Sig>(&sig_b).as_ref() == Some(&sig_known), "ps-roundtrip", "signature does not round-trip");
    for &bit in &sig_bits {
        match de::<Sig>(&flip(&sig_b, bit)) {
            None => ctx.class("sigflip-decode-error"),
            Some(s) => {
                ctx.class("sigflip-decodes");
                vensure!(s != sig_known, "ps-sig-bitflip", "flipping bit {} decodes to the same signature", bit);
                vensure!(!pk.verify(&s, &msg), "ps-sig-bitflip", "signature with bit {} flipped verifies", bit);
            }
        }
    }
    // ---- one bit flip in a part of the public key that verification of `msg` depends on:
    //      g_tilda, x_tilda, y_tilda_i for i < l with m_i != 0.
    let off_gt = 48;
    let off_yt = 48 + 96 + 4 + 48 * n + 4;
    let off_xt = off_yt + 96 * n;
    vensure!(pk_b.len() == off_xt + 96, "ps-size", "public key has {} bytes, expected {}", pk_b.len(), off_xt + 96);
    let mut regions: Vec<usize> = vec![off_gt, off_xt];
    for (i, m) in ms.iter().enumerate() {
        if !m.is_zero() {
            regions.push(off_yt + 96 * i);
        }
    }
    let region = regions[pk_flip_choice % regions.len()];
    // prefer the sign flag (decodes to the negated point) half of the time
    let bit_in = if (pk_flip_choice >> 8) & 1 == 0 { 5 } else { (pk_flip_choice >> 9) % (96 * 8) };
    let bit = region * 8 + bit_in;
    match de::<ps_sig::PublicKey<Bls>>(&flip(&pk_b, bit)) {
        None => ctx.class("pkflip-decode-error"),
        Some(p) => {
            ctx.class("pkflip-decodes");
            vensure!(p != pk, "ps-pk-bitflip", "flipping bit {} decodes to the same key", bit);
            vensure!(!p.verify(&sig_known, &msg), "ps-pk-bitflip", "signature verifies under key with bit {} flipped", bit);
        }
    }
    Ok(())
}

fn check_sig(
    what: &str,
    pk: &ps_sig::PublicKey<Bls>,
    pk2: &ps_sig::PublicKey<Bls>,
    sig: &Sig,
    msg: &Msg,
    msg2: &Msg,
    mname: &str,
) -> CheckResult {
    vensure!(pk.verify(sig, msg), "ps-complete", "{}: signature does not verify on its message", what);
    vensure!(!pk.verify(sig, msg2), "ps-wrong-message", "{}: signature verifies on a changed message ({})", what, mname);
    vensure!(!pk2.verify(sig, msg), "ps-wrong-key", "{}: signature verifies under an unrelated key", what);
    Ok(())
}
