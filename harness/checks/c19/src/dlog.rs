//! Proof of knowledge of an ed25519 secret key (`eddsa_ed25519::dlog_ed25519`): complete, bound
//! to key and context. Exercised both with ed25519 signature keys and with VRF keys, as the
//! baker-key payload constructor does.
use crate::util::*;
use concordium_base::{
    common::{from_bytes, to_bytes},
    ecvrf,
    eddsa_ed25519::{prove_dlog_ed25519, verify_dlog_ed25519, Ed25519DlogProof},
    random_oracle::RandomOracle,
};
use ed25519_dalek::{SigningKey, VerifyingKey};
use rand::RngCore;
use vcore::{gen, vensure, vfail, CheckResult, Ctx, Unstructured};

fn de<T: concordium_base::common::Deserial>(b: &[u8]) -> Option<T> {
    let mut c = std::io::Cursor::new(b);
    let r: Option<T> = from_bytes(&mut c).ok();
    if c.position() as usize != b.len() {
        return None;
    }
    r
}

#[allow(deprecated)]
fn ro(ctx: &[u8]) -> RandomOracle { RandomOracle::domain(ctx) }

pub fn t_eddsa_dlog(data: &[u8], ctx: &mut Ctx) -> CheckResult {
    let mut u = Unstructured::new(data);
    let mut rng = gen::rng(&mut u);
    let via_vrf_types = gen::boolean(&mut u);
    let full_sweep = gen::ratio(&mut u, 1, 16);
    let key_mode = gen::byte(&mut u) % 8;
    let c = message(&mut u);
    let (c2, c2_kind) = other_message(&mut u, &c);
    let bits: Vec<usize> = if full_sweep { (0..512).collect() } else { pick_bits(&mut u, 512, 16, &[255, 511]) };

    let mut sk_bytes = [0u8; 32];
    match key_mode {
        0 => {}
        1 => sk_bytes = [0xff; 32],
        _ => rng.fill_bytes(&mut sk_bytes),
    }
    let mut sk2_bytes = [0u8; 32];
    rng.fill_bytes(&mut sk2_bytes);

    ctx.class(if via_vrf_types { "vrf-key-types" } else { "ed25519-key-types" });
    ctx.class(c2_kind);
    if full_sweep {
        ctx.class("proof-bitflip-full-sweep");
    }
    ctx.nontrivial(&(sk_bytes, &c, &c2, &bits, via_vrf_types));
    ctx.sample(|| format!("eddsa_dlog key_mode={} vrf_types={} ctx={} ctx2={}({}) flips={}", key_mode, via_vrf_types, describe_msg(&c), describe_msg(&c2), c2_kind, bits.len()));
    ctx.describe(|| format!("eddsa_dlog sk={} sk2={} vrf_types={}\n ctx={}\n ctx2={} ({})\n bits={:?}", gen::hex(&sk_bytes), gen::hex(&sk2_bytes), via_vrf_types, gen::hex(&c), gen::hex(&c2), c2_kind, bits));

    let signing = SigningKey::from_bytes(&sk_bytes);
    let public: VerifyingKey = signing.verifying_key();
    let signing2 = SigningKey::from_bytes(&sk2_bytes);
    let public2: VerifyingKey = signing2.verifying_key();

    let proof = if via_vrf_types {
        // the election (VRF) key pair is physically an ed25519 key pair
        let vsk = match ecvrf::SecretKey::from_bytes(&sk_bytes) {
            Ok(k) => k,
            Err(e) => vfail!("dlog-key", "ecvrf::SecretKey::from_bytes failed: {:?}", e),
        };
        let vpk = ecvrf::PublicKey::from(&vsk);
        vensure!(vpk.as_bytes() == public.as_bytes(), "dlog-key", "VRF public key and ed25519 public key of the same secret differ");
        prove_dlog_ed25519(&mut rng, &mut ro(&c), &vpk, &vsk)
    } else {
        prove_dlog_ed25519(&mut rng, &mut ro(&c), &public, &sk_bytes)
    };
    vensure!(verify_dlog_ed25519(&mut ro(&c), &public, &proof), "dlog-complete", "proof does not verify for its key and context");
    vensure!(!verify_dlog_ed25519(&mut ro(&c2), &public, &proof), "dlog-context", "proof verifies under another context ({})", c2_kind);
    vensure!(!verify_dlog_ed25519(&mut ro(&c), &public2, &proof), "dlog-key", "proof verifies for another key");
    let proof2 = prove_dlog_ed25519(&mut rng, &mut ro(&c), &public2, &sk2_bytes);
    vensure!(verify_dlog_ed25519(&mut ro(&c), &public2, &proof2), "dlog-complete", "second proof does not verify");
    vensure!(!verify_dlog_ed25519(&mut ro(&c), &public, &proof2), "dlog-key", "proof by another key verifies for this key");
    // a proof made with the wrong secret for the claimed public key
    let cheat = prove_dlog_ed25519(&mut rng, &mut ro(&c), &public, &sk2_bytes);
    vensure!(!verify_dlog_ed25519(&mut ro(&c), &public, &cheat), "dlog-wrong-secret", "proof made with an unrelated secret verifies");

    let pb = to_bytes(&proof);
    vensure!(pb.len() == 64, "dlog-size", "proof has {} bytes", pb.len());
    match de::<Ed25519DlogProof>(&pb) {
        Some(p) => vensure!(p == proof && verify_dlog_ed25519(&mut ro(&c), &public, &p), "dlog-roundtrip", "proof does not round-trip"),
        None => vfail!("dlog-roundtrip", "proof does not re-decode"),
    }
    for &bit in &bits {
        match de::<Ed25519DlogProof>(&flip(&pb, bit)) {
            None => ctx.class("proofflip-decode-error"),
            Some(p) => {
                ctx.class("proofflip-decodes");
                vensure!(p != proof, "dlog-bitflip", "flipping bit {} decodes to the same proof", bit);
                vensure!(!verify_dlog_ed25519(&mut ro(&c), &public, &p), "dlog-bitflip", "proof with bit {} flipped verifies", bit);
            }
        }
    }
    Ok(())
}
