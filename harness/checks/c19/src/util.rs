//! Small shared helpers: bit flips, message generators and message mutations.
use vcore::{gen, Unstructured};

/// Flip bit `bit` (0 = least significant bit of byte 0) in a copy of `bytes`.
pub fn flip(bytes: &[u8], bit: usize) -> Vec<u8> {
    let mut v = bytes.to_vec();
    v[bit / 8] ^= 1 << (bit % 8);
    v
}

/// `k` bit positions in `0..nbits` chosen by the choice sequence (not necessarily distinct),
/// followed by the positions in `always`.
pub fn pick_bits(u: &mut Unstructured, nbits: usize, k: usize, always: &[usize]) -> Vec<usize> {
    let mut v: Vec<usize> = (0..k).map(|_| gen::idx(u, nbits)).collect();
    v.extend_from_slice(always);
    v
}

/// A message: empty, one byte, short, 1 KiB, or medium; the simplest choice (all zero input) is
/// the empty message.
pub fn message(u: &mut Unstructured) -> Vec<u8> {
    match gen::byte(u) % 8 {
        0 => Vec::new(),
        1 => vec![gen::byte(u)],
        2 | 3 => {
            let n = gen::range_usize(u, 0, 40);
            gen::bytes(u, n)
        }
        4 => {
            // 1 KiB, cheap to encode: a repeated byte with a few chosen positions overwritten
            let mut v = vec![gen::byte(u); 1024];
            for _ in 0..4 {
                let p = gen::idx(u, 1024);
                v[p] = gen::byte(u);
            }
            v
        }
        5 => vec![0u8; gen::range_usize(u, 1, 70)],
        6 => {
            let n = gen::range_usize(u, 60, 140); // around the SHA-512 block size
            gen::bytes(u, n)
        }
        _ => gen::bytes(u, 32),
    }
}

pub fn describe_msg(m: &[u8]) -> String {
    if m.len() <= 24 {
        format!("[{}]", gen::hex(m))
    } else {
        format!("[{}.. len={}]", gen::hex(&m[..12]), m.len())
    }
}

/// A message different from `m`, produced by a small perturbation. Returns the kind used.
pub fn other_message(u: &mut Unstructured, m: &[u8]) -> (Vec<u8>, &'static str) {
    let kind = gen::byte(u) % 6;
    match kind {
        0 if !m.is_empty() => {
            let bit = gen::idx(u, m.len() * 8);
            (flip(m, bit), "msg-bitflip")
        }
        1 if !m.is_empty() => (m[..m.len() - 1].to_vec(), "msg-truncate"),
        2 => {
            let mut v = m.to_vec();
            v.push(0);
            (v, "msg-append-zero")
        }
        3 => {
            let mut v = vec![0u8];
            v.extend_from_slice(m);
            (v, "msg-prepend-zero")
        }
        4 => {
            let mut v = m.to_vec();
            v.push(gen::byte(u));
            (v, "msg-append-byte")
        }
        _ => {
            let mut v = gen::bytes(u, 32);
            if v == m {
                v.push(1);
            }
            (v, "msg-unrelated")
        }
    }
}

/// Make the messages in the pool pairwise distinct (by appending an index marker when needed).
pub fn make_distinct(pool: &mut [Vec<u8>]) {
    for i in 0..pool.len() {
        let mut tries = 0u8;
        while pool[..i].iter().any(|p| *p == pool[i]) {
            pool[i].push(0xA0 ^ (i as u8) ^ tries);
            tries = tries.wrapping_add(1);
        }
    }
}
