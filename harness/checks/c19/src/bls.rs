//! BLS aggregate signatures (`aggregate_sig`): single signatures, aggregation, proofs of possession.
use crate::util::*;
use ark_ec::pairing::Pairing as ArkPairing;
use ark_ff::Zero;
use concordium_base::{
    aggregate_sig as agg,
    common::{from_bytes, to_bytes},
    curve_arithmetic::{Curve, Pairing as CPairing},
    random_oracle::RandomOracle,
};
use std::collections::BTreeMap;
use vcore::{gen, vensure, CheckResult, Ctx, Unstructured};

pub type Bls = ark_ec::bls12::Bls12<ark_bls12_381::Config>;
type CG1 = <Bls as CPairing>::G1;
type CG2 = <Bls as CPairing>::G2;
type Sk = agg::SecretKey<Bls>;
type Pk = agg::PublicKey<Bls>;
type Sig = agg::Signature<Bls>;

fn de<T: concordium_base::common::Deserial>(b: &[u8]) -> Option<T> {
    let mut c = std::io::Cursor::new(b);
    let r: Option<T> = from_bytes(&mut c).ok();
    // all encodings here are fixed length: the decoder must consume everything
    if c.position() as usize != b.len() {
        return None;
    }
    r
}

#[allow(deprecated)]
fn ro(ctx: &[u8]) -> RandomOracle { RandomOracle::domain(ctx) }

// ------------------------------------------------------------------------------------------
// Reference: naive product of pairings, computed with arkworks directly (not through the
// crate's `Pairing` adapter). e(sig, g2) == prod_i e(H(m_i), pk_i)   (additive notation in ark).

fn ref_pairing_product(pairs: &[(&[u8], Pk)], sig: &Sig) -> bool {
    let sig_pt: CG1 = de(&to_bytes(sig)).expect("signature re-decodes as a G1 point");
    let lhs = <Bls as ArkPairing>::pairing(*sig_pt.into_ark(), *CG2::one_point().into_ark());
    let mut rhs = ark_ec::pairing::PairingOutput::<Bls>::zero();
    for (m, pk) in pairs {
        let pk_pt: CG2 = de(&to_bytes(pk)).expect("public key re-decodes as a G2 point");
        let h = CG1::hash_to_group(m).expect("hash to group");
        rhs = rhs + <Bls as ArkPairing>::pairing(*h.into_ark(), *pk_pt.into_ark());
    }
    lhs == rhs
}

// ------------------------------------------------------------------------------------------
// Target: bls_single

pub fn t_bls_single(data: &[u8], ctx: &mut Ctx) -> CheckResult {
    let mut u = Unstructured::new(data);
    let mut rng = gen::rng(&mut u);
    let m = message(&mut u);
    let (m2, m2_kind) = other_message(&mut u, &m);
    let n_sig_flips = 6;
    let n_pk_flips = 3;
    // compressed point encodings: the three flag bits live in the top bits of byte 0
    let sig_bits = pick_bits(&mut u, agg::SIGNATURE_SIZE * 8, n_sig_flips, &[7, 6, 5]);
    let pk_bits = pick_bits(&mut u, agg::PUBLIC_KEY_SIZE * 8, n_pk_flips, &[7, 6, 5]);
    let sk_bit = gen::idx(&mut u, agg::SECRET_KEY_SIZE * 8);

    let sk = Sk::generate(&mut rng);
    let pk = Pk::from_secret(&sk);
    let sk2 = Sk::generate(&mut rng);
    let pk2 = Pk::from_secret(&sk2);

    ctx.class(match m.len() {
        0 => "msg-empty",
        1 => "msg-1byte",
        1024 => "msg-1KiB",
        _ => "msg-other",
    });
    ctx.class(m2_kind);
    ctx.nontrivial(&(to_bytes(&sk), &m, &m2, &sig_bits, &pk_bits));
    ctx.sample(|| format!("bls_single m={} m2={}({}) sig_bits={:?} pk_bits={:?}", describe_msg(&m), describe_msg(&m2), m2_kind, sig_bits, pk_bits));
    ctx.describe(|| {
        format!(
            "bls_single\n sk={}\n pk={}\n m={}\n m2={} ({})\n sig_bits={:?} pk_bits={:?} sk_bit={}",
            gen::hex(&to_bytes(&sk)),
            gen::hex(&to_bytes(&pk)),
            gen::hex(&m),
            gen::hex(&m2),
            m2_kind,
            sig_bits,
            pk_bits,
            sk_bit
        )
    });

    let sig = sk.sign(&m);
    // completeness
    vensure!(pk.verify(&m, sig), "bls-complete", "signature by sk does not verify under pk on its message");
    vensure!(sk.sign(&m) == sig, "bls-sign-deterministic", "signing the same message twice gives different signatures");
    // reference agrees
    vensure!(ref_pairing_product(&[(&m[..], pk)], &sig), "bls-reference", "pairing-product reference rejects an honest signature");
    // unit of aggregation
    vensure!(Sig::empty().aggregate(sig) == sig && sig.aggregate(Sig::empty()) == sig, "bls-empty-unit", "empty signature is not the unit of aggregation");
    // wrong key
    vensure!(pk != pk2, "bls-keys-distinct", "two generated keys are equal");
    vensure!(!pk2.verify(&m, sig), "bls-wrong-key", "signature verifies under an unrelated key");
    // wrong message
    vensure!(!pk.verify(&m2, sig), "bls-wrong-message", "signature on m verifies on m2 ({})", m2_kind);
    let sig_m2 = sk.sign(&m2);
    vensure!(sig_m2 != sig, "bls-wrong-message", "signatures on different messages are equal ({})", m2_kind);
    vensure!(pk.verify(&m2, sig_m2), "bls-complete", "signature on m2 does not verify");
    vensure!(!pk.verify(&m, sig_m2), "bls-wrong-message", "signature on m2 verifies on m ({})", m2_kind);

    // serialization
    let sig_b = to_bytes(&sig);
    let pk_b = to_bytes(&pk);
    let sk_b = to_bytes(&sk);
    vensure!(sig_b.len() == agg::SIGNATURE_SIZE && pk_b.len() == agg::PUBLIC_KEY_SIZE && sk_b.len() == agg::SECRET_KEY_SIZE,
        "bls-sizes", "serialized sizes {} {} {}", sig_b.len(), pk_b.len(), sk_b.len());
    let sig_r: Option<Sig> = de(&sig_b);
    let pk_r: Option<Pk> = de(&pk_b);
    let sk_r: Option<Sk> = de(&sk_b);
    vensure!(sig_r == Some(sig), "bls-roundtrip", "signature does not round-trip");
    vensure!(pk_r == Some(pk), "bls-roundtrip", "public key does not round-trip");
    vensure!(sk_r == Some(sk), "bls-roundtrip", "secret key does not round-trip");

    // single bit flips in the signature
    for &bit in &sig_bits {
        match de::<Sig>(&flip(&sig_b, bit)) {
            None => ctx.class("sigflip-decode-error"),
            Some(s2) => {
                ctx.class("sigflip-decodes");
                vensure!(s2 != sig, "bls-sigflip", "flipping bit {} of the signature decodes to the same signature", bit);
                vensure!(!pk.verify(&m, s2), "bls-sigflip", "signature with bit {} flipped verifies", bit);
            }
        }
    }
    // single bit flips in the public key
    for &bit in &pk_bits {
        match de::<Pk>(&flip(&pk_b, bit)) {
            None => ctx.class("pkflip-decode-error"),
            Some(p2) => {
                ctx.class("pkflip-decodes");
                vensure!(p2 != pk, "bls-pkflip", "flipping bit {} of the public key decodes to the same key", bit);
                vensure!(!p2.verify(&m, sig), "bls-pkflip", "signature verifies under key with bit {} flipped", bit);
            }
        }
    }
    // single bit flip in the secret key: a different key pair
    match de::<Sk>(&flip(&sk_b, sk_bit)) {
        None => ctx.class("skflip-decode-error"),
        Some(s2) => {
            ctx.class("skflip-decodes");
            let p2 = Pk::from_secret(&s2);
            vensure!(p2 != pk, "bls-skflip", "secret key with bit {} flipped has the same public key", sk_bit);
            vensure!(!p2.verify(&m, sig), "bls-skflip", "signature verifies under key derived from bit-flipped secret");
            vensure!(!pk.verify(&m, s2.sign(&m)), "bls-skflip", "signature by bit-flipped secret verifies under pk");
        }
    }
    Ok(())
}

// ------------------------------------------------------------------------------------------
// Target: bls_aggregate

#[derive(Clone, Copy, PartialEq, Eq, PartialOrd, Ord, Debug, Hash)]
struct Pair {
    key: usize,
    msg: usize,
}

#[derive(Debug)]
struct AggCase {
    n_keys:    usize,
    msgs:      Vec<Vec<u8>>,
    shape:     &'static str,
    signers:   Vec<Pair>,
    perm_seed: u64,
    mutation:  &'static str,
    mutated:   Vec<Pair>,
    hybrid_singletons: bool,
    hybrid_empty_group: bool,
    fold_from_empty: bool,
}

const MSG_POOL: usize = 12;

fn msg_pool(u: &mut Unstructured) -> Vec<Vec<u8>> {
    // base messages, then near-duplicates of earlier ones (so that duplicate detection that
    // compares less than the whole message would over- or under-report)
    let mut pool: Vec<Vec<u8>> = Vec::with_capacity(MSG_POOL);
    for i in 0..MSG_POOL {
        let m = if i < 3 || gen::boolean(u) {
            message(u)
        } else {
            let j = gen::idx(u, i);
            other_message(u, &pool[j].clone()).0
        };
        pool.push(m);
    }
    make_distinct(&mut pool);
    pool
}

fn shuffle<T>(v: &mut [T], seed: u64) {
    // deterministic Fisher-Yates from a seed (splitmix64)
    let mut s = seed;
    let mut next = || {
        s = s.wrapping_add(0x9E3779B97F4A7C15);
        let mut z = s;
        z = (z ^ (z >> 30)).wrapping_mul(0xBF58476D1CE4E5B9);
        z = (z ^ (z >> 27)).wrapping_mul(0x94D049BB133111EB);
        z ^ (z >> 31)
    };
    for i in (1..v.len()).rev() {
        let j = (next() % (i as u64 + 1)) as usize;
        v.swap(i, j);
    }
}

fn decode_agg(u: &mut Unstructured) -> AggCase {
    // structural choices first, message contents last: a short choice sequence then still
    // yields a structured case (with simple messages) instead of the empty signer list
    let n = match gen::byte(u) % 16 {
        0 => 0,
        1 => 1,
        2 | 3 => 2,
        4..=8 => gen::range_usize(u, 3, 6),
        9..=13 => gen::range_usize(u, 3, 12),
        _ => 12,
    };
    let n_keys = gen::range_usize(u, 1, 6);
    let (shape, signers): (&'static str, Vec<Pair>) = match gen::byte(u) % 4 {
        0 => {
            // pairwise distinct messages: a rotation of the pool
            let off = gen::idx(u, MSG_POOL);
            ("distinct-msgs", (0..n).map(|i| Pair { key: gen::idx(u, n_keys), msg: (off + i) % MSG_POOL }).collect())
        }
        1 => {
            let j = gen::idx(u, MSG_POOL);
            ("same-msg", (0..n).map(|_| Pair { key: gen::idx(u, n_keys), msg: j }).collect())
        }
        2 => {
            // same message, pairwise distinct keys where the pool allows it
            let j = gen::idx(u, MSG_POOL);
            ("same-msg-keys-rotating", (0..n).map(|i| Pair { key: i % n_keys, msg: j }).collect())
        }
        _ => {
            let sub = gen::range_usize(u, 1, 4);
            ("mixed", (0..n).map(|_| Pair { key: gen::idx(u, n_keys), msg: gen::idx(u, sub) }).collect())
        }
    };
    let perm_seed = gen::u64v(u);
    let mut mutated = signers.clone();
    let mutation: &'static str = match gen::byte(u) % 8 {
        0 if !mutated.is_empty() => {
            let i = gen::idx(u, mutated.len());
            mutated.remove(i);
            "remove-one"
        }
        1 => {
            let p = Pair { key: gen::idx(u, n_keys), msg: gen::idx(u, MSG_POOL) };
            let i = gen::idx(u, mutated.len() + 1);
            mutated.insert(i, p);
            "add-one"
        }
        2 if !mutated.is_empty() => {
            let i = gen::idx(u, mutated.len());
            let p = mutated[i];
            mutated.push(p);
            "duplicate-one"
        }
        3 if mutated.len() >= 2 => {
            let i = gen::idx(u, mutated.len());
            let j = gen::idx(u, mutated.len());
            let (a, b) = (mutated[i].msg, mutated[j].msg);
            mutated[i].msg = b;
            mutated[j].msg = a;
            "swap-messages"
        }
        4 if !mutated.is_empty() => {
            let i = gen::idx(u, mutated.len());
            mutated[i].key = gen::idx(u, n_keys);
            "replace-key"
        }
        5 if !mutated.is_empty() => {
            let i = gen::idx(u, mutated.len());
            mutated[i].msg = gen::idx(u, MSG_POOL);
            "replace-msg"
        }
        6 if !mutated.is_empty() => {
            // use an existing message of the claim for another entry: creates a duplicate message
            let i = gen::idx(u, mutated.len());
            let j = gen::idx(u, mutated.len());
            mutated[i].msg = mutated[j].msg;
            "copy-message"
        }
        _ => {
            let p = Pair { key: gen::idx(u, n_keys), msg: gen::idx(u, MSG_POOL) };
            mutated.push(p);
            "add-one"
        }
    };
    let hybrid_singletons = gen::ratio(u, 1, 4);
    let hybrid_empty_group = gen::ratio(u, 1, 8);
    let fold_from_empty = gen::boolean(u);
    let msgs = msg_pool(u);
    AggCase {
        n_keys,
        msgs,
        shape,
        signers,
        perm_seed,
        mutation,
        mutated,
        hybrid_singletons,
        hybrid_empty_group,
        fold_from_empty,
    }
}

fn has_dup_msgs(claim: &[Pair]) -> bool {
    let mut ms: Vec<usize> = claim.iter().map(|p| p.msg).collect();
    ms.sort_unstable();
    ms.windows(2).any(|w| w[0] == w[1])
}

fn multiset(claim: &[Pair]) -> Vec<Pair> {
    let mut v = claim.to_vec();
    v.sort();
    v
}

#[allow(clippy::too_many_arguments)]
fn check_claim(
    what: &str,
    case: &AggCase,
    pks: &[Pk],
    original: &[Pair],
    claim: &[Pair],
    agg_sig: Sig,
    ctx: &mut Ctx,
) -> CheckResult {
    let msgs = &case.msgs;
    // The statement: the aggregate verifies exactly for the multiset of (key, message) pairs it
    // was built from. Keys are independently generated, messages are pairwise distinct byte
    // strings, so equality of index multisets is equality of (key, message) multisets.
    let model_eq = multiset(original) == multiset(claim);
    ctx.class(if model_eq { "claim-equal-multiset" } else { "claim-different-multiset" });

    let flat: Vec<(&[u8], Pk)> = claim.iter().map(|p| (&msgs[p.msg][..], pks[p.key])).collect();

    // (r) naive product-of-pairings reference
    let reference = ref_pairing_product(&flat, &agg_sig);
    vensure!(
        reference == model_eq,
        "agg-reference-vs-multiset",
        "{}: product-of-pairings reference says {} but multiset equality is {}; original={:?} claim={:?}",
        what, reference, model_eq, original, claim
    );

    // (a) verify_aggregate_sig: documented to return false on any duplicate message and on the
    //     empty list; otherwise the pairing-product equation.
    let dup = has_dup_msgs(claim);
    let expect_plain = !claim.is_empty() && !dup && model_eq;
    let got_plain = agg::verify_aggregate_sig(&flat, agg_sig);
    if dup {
        ctx.class("plain-claim-has-duplicate-message");
    }
    vensure!(
        got_plain == expect_plain,
        "agg-verify-aggregate-sig",
        "{}: verify_aggregate_sig returned {} expected {} (empty={} duplicate-messages={} multiset-equal={}); original={:?} claim={:?}",
        what, got_plain, expect_plain, claim.is_empty(), dup, model_eq, original, claim
    );

    // (h) hybrid: grouped by message. Documented result: e(sig,g2) == prod_i e(H(m_i), sum_j pk_ij);
    //     a message with no keys is as if not included; the empty list accepts (the empty signature).
    let mut groups: Vec<(usize, Vec<Pk>)> = Vec::new();
    if case.hybrid_singletons {
        for p in claim {
            groups.push((p.msg, vec![pks[p.key]]));
        }
    } else {
        let mut by_msg: BTreeMap<usize, Vec<Pk>> = BTreeMap::new();
        for p in claim {
            by_msg.entry(p.msg).or_default().push(pks[p.key]);
        }
        groups = by_msg.into_iter().collect();
    }
    let mut in_domain = !claim.is_empty() && {
        // each key at most once per message
        let ms = multiset(claim);
        !ms.windows(2).any(|w| w[0] == w[1])
    } && !(case.hybrid_singletons && has_dup_msgs(claim)); // ungrouped repeated messages: formula only
    if case.hybrid_empty_group {
        // a message not otherwise present, with no keys: outside the precondition, documented to
        // behave as if the message was not included
        if let Some(free) = (0..MSG_POOL).find(|i| !claim.iter().any(|p| p.msg == *i)) {
            let pos = if groups.is_empty() { 0 } else { (case.perm_seed as usize) % (groups.len() + 1) };
            groups.insert(pos, (free, Vec::new()));
            in_domain = false;
        }
    }
    let hybrid_in: Vec<(&[u8], &[Pk])> = groups.iter().map(|(m, ks)| (&msgs[*m][..], &ks[..])).collect();
    let got_hybrid = agg::verify_aggregate_sig_hybrid(&hybrid_in, agg_sig);
    ctx.class(if in_domain { "hybrid-in-precondition" } else { "hybrid-outside-precondition" });
    // the documented formula (valid everywhere) ...
    vensure!(
        got_hybrid == reference,
        "agg-hybrid-formula",
        "{}: verify_aggregate_sig_hybrid returned {} but the documented pairing product is {}; claim={:?} singletons={} empty_group={}",
        what, got_hybrid, reference, claim, case.hybrid_singletons, case.hybrid_empty_group
    );
    // ... and the property statement inside the documented precondition
    if in_domain {
        vensure!(
            got_hybrid == model_eq,
            "agg-hybrid-multiset",
            "{}: verify_aggregate_sig_hybrid returned {} but multiset equality is {}; original={:?} claim={:?}",
            what, got_hybrid, model_eq, original, claim
        );
    }

    // (t) trusted keys: all pairs carry the same message.
    if !claim.is_empty() && claim.iter().all(|p| p.msg == claim[0].msg) {
        ctx.class("trusted-keys-applicable");
        let ks: Vec<Pk> = claim.iter().map(|p| pks[p.key]).collect();
        let got = agg::verify_aggregate_sig_trusted_keys(&msgs[claim[0].msg], &ks, agg_sig);
        vensure!(
            got == model_eq,
            "agg-trusted-keys",
            "{}: verify_aggregate_sig_trusted_keys returned {} but multiset equality is {}; original={:?} claim={:?}",
            what, got, model_eq, original, claim
        );
        // agreement of the variants on the overlap of their domains (single message, distinct keys)
        if in_domain && !dup {
            vensure!(got == got_plain && got == got_hybrid, "agg-variants-agree", "{}: variants disagree plain={} hybrid={} trusted={}", what, got_plain, got_hybrid, got);
        }
    }
    if claim.is_empty() {
        // documented: verifying against the empty set of signers always fails
        let got = agg::verify_aggregate_sig_trusted_keys(&msgs[0], &[], agg_sig);
        vensure!(!got, "agg-empty-signers", "{}: verify_aggregate_sig_trusted_keys accepts the empty key set", what);
        vensure!(!got_plain, "agg-empty-signers", "{}: verify_aggregate_sig accepts the empty list", what);
    }
    Ok(())
}

pub fn t_bls_aggregate(data: &[u8], ctx: &mut Ctx) -> CheckResult {
    let mut u = Unstructured::new(data);
    let mut rng = gen::rng(&mut u);
    let case = decode_agg(&mut u);
    let n = case.signers.len();

    let sks: Vec<Sk> = (0..case.n_keys).map(|_| Sk::generate(&mut rng)).collect();
    let pks: Vec<Pk> = sks.iter().map(Pk::from_secret).collect();

    let dup_msg = has_dup_msgs(&case.signers);
    let dup_key = {
        let mut ks: Vec<usize> = case.signers.iter().map(|p| p.key).collect();
        ks.sort_unstable();
        ks.windows(2).any(|w| w[0] == w[1])
    };
    let dup_pair = {
        let ms = multiset(&case.signers);
        ms.windows(2).any(|w| w[0] == w[1])
    };
    ctx.class(match n {
        0 => "signers-0",
        1 => "signers-1",
        2 => "signers-2",
        3..=6 => "signers-3..6",
        _ => "signers-7..12",
    });
    ctx.class(case.shape);
    ctx.class(case.mutation);
    if dup_msg {
        ctx.class("built-with-duplicate-message");
    }
    if dup_key {
        ctx.class("built-with-duplicate-key");
    }
    if dup_pair {
        ctx.class("built-with-duplicate-pair");
    }
    if n >= 3 && (dup_msg || dup_key) {
        ctx.class("nontrivial");
        let key: Vec<&[u8]> = case.msgs.iter().map(|m| &m[..]).collect();
        ctx.nontrivial(&(to_bytes(&sks[0]), &case.signers, &case.mutated, key));
    }
    ctx.sample(|| {
        format!(
            "bls_aggregate keys={} shape={} signers={:?} mutation={} claim={:?} msgs={:?}",
            case.n_keys,
            case.shape,
            case.signers.iter().map(|p| (p.key, p.msg)).collect::<Vec<_>>(),
            case.mutation,
            case.mutated.iter().map(|p| (p.key, p.msg)).collect::<Vec<_>>(),
            case.msgs.iter().map(|m| describe_msg(m)).collect::<Vec<_>>()
        )
    });
    ctx.describe(|| {
        let mut s = format!("bls_aggregate {:#?}\n", case);
        for (i, sk) in sks.iter().enumerate() {
            s.push_str(&format!(" sk[{}]={}\n", i, gen::hex(&to_bytes(sk))));
        }
        s
    });

    // build the aggregate from honest signatures
    let sigs: Vec<Sig> = case.signers.iter().map(|p| sks[p.key].sign(&case.msgs[p.msg])).collect();
    let agg_sig = if case.fold_from_empty || sigs.is_empty() {
        sigs.iter().fold(Sig::empty(), |a, s| a.aggregate(*s))
    } else {
        sigs[1..].iter().fold(sigs[0], |a, s| a.aggregate(*s))
    };
    // aggregation is order independent
    let mut order: Vec<usize> = (0..n).collect();
    shuffle(&mut order, case.perm_seed);
    let agg_perm = order.iter().fold(Sig::empty(), |a, i| a.aggregate(sigs[*i]));
    vensure!(agg_perm == agg_sig, "agg-order-independent", "aggregating in a different order gives a different signature");

    // claim 1: the original pairs, presented in a different order
    let permuted: Vec<Pair> = order.iter().map(|i| case.signers[*i]).collect();
    check_claim("original(permuted)", &case, &pks, &case.signers, &permuted, agg_sig, ctx)?;
    // claim 2: one mutation of the pair list
    check_claim(case.mutation, &case, &pks, &case.signers, &case.mutated, agg_sig, ctx)?;
    Ok(())
}

// ------------------------------------------------------------------------------------------
// Target: bls_pop (proof of knowledge of the secret key, bound to key and context)

pub fn t_bls_pop(data: &[u8], ctx: &mut Ctx) -> CheckResult {
    let mut u = Unstructured::new(data);
    let mut rng = gen::rng(&mut u);
    let c = message(&mut u);
    let (c2, c2_kind) = other_message(&mut u, &c);
    // byte 32 bit 7 is the top bit of the (big endian) response scalar: not a field element
    let bits = pick_bits(&mut u, 64 * 8, 8, &[32 * 8 + 7]);

    let sk = Sk::generate(&mut rng);
    let pk = Pk::from_secret(&sk);
    let sk2 = Sk::generate(&mut rng);
    let pk2 = Pk::from_secret(&sk2);

    ctx.class(c2_kind);
    ctx.class(if c.is_empty() { "context-empty" } else { "context-nonempty" });
    ctx.nontrivial(&(to_bytes(&sk), &c, &c2, &bits));
    ctx.sample(|| format!("bls_pop ctx={} ctx2={}({}) bits={:?}", describe_msg(&c), describe_msg(&c2), c2_kind, bits));
    ctx.describe(|| format!("bls_pop sk={} sk2={} ctx={} ctx2={} ({}) bits={:?}", gen::hex(&to_bytes(&sk)), gen::hex(&to_bytes(&sk2)), gen::hex(&c), gen::hex(&c2), c2_kind, bits));

    let proof = sk.prove(&mut rng, &mut ro(&c));
    vensure!(pk.check_proof(&mut ro(&c), &proof), "pop-complete", "proof of possession does not verify for its key and context");
    vensure!(!pk.check_proof(&mut ro(&c2), &proof), "pop-context", "proof verifies under a different context ({})", c2_kind);
    vensure!(!pk2.check_proof(&mut ro(&c), &proof), "pop-key", "proof verifies for a different key");
    let proof2 = sk2.prove(&mut rng, &mut ro(&c));
    vensure!(pk2.check_proof(&mut ro(&c), &proof2), "pop-complete", "second proof does not verify");
    vensure!(!pk.check_proof(&mut ro(&c), &proof2), "pop-key", "proof by another key verifies for pk");

    let pb = to_bytes(&proof);
    vensure!(pb.len() == 64, "pop-size", "proof has {} bytes", pb.len());
    let pr: Option<agg::Proof<Bls>> = de(&pb);
    match pr {
        Some(p) => vensure!(pk.check_proof(&mut ro(&c), &p), "pop-roundtrip", "re-decoded proof does not verify"),
        None => vcore::vfail!("pop-roundtrip", "proof does not re-decode"),
    }
    for &bit in &bits {
        match de::<agg::Proof<Bls>>(&flip(&pb, bit)) {
            None => ctx.class("popflip-decode-error"),
            Some(p) => {
                ctx.class("popflip-decodes");
                vensure!(!pk.check_proof(&mut ro(&c), &p), "pop-bitflip", "proof with bit {} flipped verifies", bit);
            }
        }
    }
    Ok(())
}

// ------------------------------------------------------------------------------------------
// Target: bls_large_set — one message, 149..160 keys: reaches the parallel key-summation branch
// (>= 150 keys) of the trusted-keys and hybrid verifiers.

pub fn t_bls_large_set(data: &[u8], ctx: &mut Ctx) -> CheckResult {
    let mut u = Unstructured::new(data);
    let mut rng = gen::rng(&mut u);
    let n = *gen::choose(&mut u, &[150usize, 149, 151, 160]);
    let drop_i = gen::idx(&mut u, n);
    let dup_i = gen::idx(&mut u, n);
    let m = message(&mut u);
    let (m2, m2_kind) = other_message(&mut u, &m);

    ctx.class(if n >= 150 { "keys>=150" } else { "keys<150" });
    ctx.nontrivial(&(n, drop_i, dup_i, &m, &m2));
    ctx.sample(|| format!("bls_large_set n={} drop={} dup={} m={} m2={}({})", n, drop_i, dup_i, describe_msg(&m), describe_msg(&m2), m2_kind));
    ctx.describe(|| format!("bls_large_set n={} drop={} dup={} m={} m2={} ({})", n, drop_i, dup_i, gen::hex(&m), gen::hex(&m2), m2_kind));

    let sks: Vec<Sk> = (0..n).map(|_| Sk::generate(&mut rng)).collect();
    let pks: Vec<Pk> = sks.iter().map(Pk::from_secret).collect();
    let sig = sks.iter().fold(Sig::empty(), |a, sk| a.aggregate(sk.sign(&m)));

    let both = |keys: &[Pk], msg: &[u8]| -> (bool, bool) {
        (agg::verify_aggregate_sig_trusted_keys(msg, keys, sig), agg::verify_aggregate_sig_hybrid(&[(msg, keys)], sig))
    };
    let (t, h) = both(&pks, &m);
    vensure!(t && h, "agg-large-complete", "aggregate of {} signatures on one message rejected: trusted={} hybrid={}", n, t, h);
    let mut rev = pks.clone();
    rev.reverse();
    let (t, h) = both(&rev, &m);
    vensure!(t && h, "agg-large-complete", "aggregate rejected when keys are listed in reverse order: trusted={} hybrid={}", t, h);
    let mut fewer = pks.clone();
    fewer.remove(drop_i);
    let (t, h) = both(&fewer, &m);
    vensure!(!t && !h, "agg-large-remove-one", "aggregate accepted with key {} removed: trusted={} hybrid={}", drop_i, t, h);
    let mut more = pks.clone();
    more.push(pks[dup_i]);
    let (t, h) = both(&more, &m);
    vensure!(!t && !h, "agg-large-duplicate-one", "aggregate accepted with key {} listed twice: trusted={} hybrid={}", dup_i, t, h);
    let (t, h) = both(&pks, &m2);
    vensure!(!t && !h, "agg-large-wrong-message", "aggregate accepted for another message ({}): trusted={} hybrid={}", m2_kind, t, h);
    // split into two groups with the same message: the documented formula multiplies the groups
    let (a, b) = pks.split_at(n / 2);
    let split = agg::verify_aggregate_sig_hybrid(&[(&m[..], a), (&m[..], b)], sig);
    vensure!(split, "agg-large-split-groups", "hybrid rejects the key set split into two groups of the same message");
    Ok(())
}
