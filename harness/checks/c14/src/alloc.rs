//! Global allocator of the C14 binary: `vcore::alloc::Counting` plus a per-thread cache for the
//! one allocation that dominates the cost of a case. Every execution of a contract allocates a
//! zeroed 32 MiB buffer for linear memory; returning it to the system (even as MADV_DONTNEED, as
//! `Counting` does) costs a system call that serialises the 16 shard threads on the address-space
//! lock. A script's module declares a small maximum memory, and the engine never makes the buffer
//! longer than that, so only a known prefix can be dirty: the harness announces that bound before
//! it runs a case, and a released buffer is re-zeroed over (bound + one page) and kept for the
//! next execution on the same thread. Without an announced bound the buffer takes the normal path.
use std::alloc::{GlobalAlloc, Layout};
use std::cell::Cell;
use vcore::alloc::Counting;

pub struct Alloc14;

const WASM_MEM: usize = 512 * 65536;

thread_local! {
    static CACHE: Cell<usize> = const { Cell::new(0) };
    static DIRTY: Cell<usize> = const { Cell::new(usize::MAX) };
}

/// Announce that executions on this thread dirty at most `bytes` of their linear memory buffer
/// (`usize::MAX`: unknown).
pub fn set_dirty_bound(bytes: usize) { DIRTY.with(|d| d.set(bytes)); }

unsafe impl GlobalAlloc for Alloc14 {
    unsafe fn alloc(&self, layout: Layout) -> *mut u8 { Counting.alloc(layout) }

    unsafe fn dealloc(&self, ptr: *mut u8, layout: Layout) {
        if layout.size() == WASM_MEM {
            let kept = DIRTY.try_with(|d| d.get()).ok().and_then(|d| {
                if d == usize::MAX {
                    return None;
                }
                CACHE
                    .try_with(|c| {
                        if c.get() == 0 {
                            std::ptr::write_bytes(ptr, 0, (d + 65536).min(WASM_MEM));
                            c.set(ptr as usize);
                            true
                        } else {
                            false
                        }
                    })
                    .ok()
                    .filter(|k| *k)
            });
            if kept.is_some() {
                return;
            }
        }
        Counting.dealloc(ptr, layout)
    }

    unsafe fn alloc_zeroed(&self, layout: Layout) -> *mut u8 {
        if layout.size() == WASM_MEM && layout.align() <= 4096 {
            if let Ok(p) = CACHE.try_with(|c| c.replace(0)) {
                if p != 0 {
                    return p as *mut u8;
                }
            }
        }
        Counting.alloc_zeroed(layout)
    }

    unsafe fn realloc(&self, ptr: *mut u8, layout: Layout, new_size: usize) -> *mut u8 { Counting.realloc(ptr, layout, new_size) }
}
