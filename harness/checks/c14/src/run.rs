//! Drive a compiled script through the real public API of the engine and bring what comes back
//! into the harness's own vocabulary.
use crate::emit::Emitted;
use crate::model::{ctx_of, Act, Intr};
use crate::script::*;
use concordium_contracts_common::{
    AccountAddress, Address, Amount, ChainMetadata, ContractAddress, OwnedEntrypointName, Parameter, ReceiveName, Timestamp,
};
use concordium_smart_contract_engine::v1::trie::{EmptyCollector, Loader, MutableState, PersistentState};
use concordium_smart_contract_engine::{v0, v1, DebugInfo, InterpreterEnergy};
use concordium_wasm::artifact::{Artifact, CompiledFunction};
use concordium_wasm::output::Output;
use concordium_wasm::utils::{instantiate_with_metering, parse_artifact};
use concordium_wasm::validate::ValidationConfig;
use concordium_wasm::{CostConfigurationV0, CostConfigurationV1};
use std::sync::Arc;

/// Per host call energy as reported through the engine's `DebugInfo` interface.
#[derive(Debug, Default)]
pub struct Trace {
    /// (function name, energy); memory growth charges appear as "memory.grow"
    pub events: Vec<(&'static str, u64)>,
}

fn leak_name(s: String) -> &'static str {
    // the set of names is small and fixed; map through the known table instead of leaking
    for f in ALL_NAMES {
        if *f == s {
            return f;
        }
    }
    "unknown"
}

const ALL_NAMES: &[&str] = &[
    "get_parameter_size",
    "get_parameter_section",
    "get_policy_section",
    "log_event",
    "get_slot_time",
    "write_output",
    "state_lookup_entry",
    "state_create_entry",
    "state_delete_entry",
    "state_delete_prefix",
    "state_iterate_prefix",
    "state_iterator_next",
    "state_iterator_delete",
    "state_iterator_key_size",
    "state_iterator_key_read",
    "state_entry_read",
    "state_entry_write",
    "state_entry_size",
    "state_entry_resize",
    "verify_ed25519_signature",
    "verify_ecdsa_secp256k1_signature",
    "hash_sha2_256",
    "hash_sha3_256",
    "hash_keccak_256",
    "debug_print",
    "get_init_origin",
    "invoke",
    "get_receive_invoker",
    "get_receive_self_address",
    "get_receive_self_balance",
    "get_receive_sender",
    "get_receive_owner",
    "get_receive_entrypoint_size",
    "get_receive_entrypoint",
    "upgrade",
];

impl DebugInfo for Trace {
    const ENABLE_DEBUG: bool = false;

    fn empty_trace() -> Self { Trace::default() }

    fn trace_host_call(&mut self, f: v1::ImportFunc, energy_used: InterpreterEnergy) {
        let name = match f {
            v1::ImportFunc::ChargeMemoryAlloc => "memory.grow",
            v1::ImportFunc::Common(c) => leak_name(c.to_string()),
            v1::ImportFunc::InitOnly(c) => leak_name(c.to_string()),
            v1::ImportFunc::ReceiveOnly(c) => leak_name(c.to_string()),
        };
        self.events.push((name, energy_used.energy));
    }

    fn emit_debug_event(&mut self, _event: v1::EmittedDebugStatement) {}
}

#[derive(Debug, Clone, PartialEq, Eq)]
pub enum Outcome {
    Success { remaining: u64 },
    Reject { reason: i32, remaining: u64 },
    /// runtime failure (v0: also an invalid return value)
    Trap { remaining: Option<u64>, msg: String },
    /// v1: the entrypoint returned a value outside the documented range
    BadReturn,
    OutOfEnergy,
    /// (only with `stop_at_interrupt`) the chain was cut at an interrupt
    Interrupted,
}

impl Outcome {
    pub fn kind(&self) -> &'static str {
        match self {
            Outcome::Success { .. } => "success",
            Outcome::Reject { .. } => "reject",
            Outcome::Trap { .. } => "trap",
            Outcome::BadReturn => "bad-return",
            Outcome::OutOfEnergy => "out-of-energy",
            Outcome::Interrupted => "interrupted",
        }
    }
}

#[derive(Debug)]
pub struct SeenInterrupt {
    pub intr:          Intr,
    pub logs:          Vec<Vec<u8>>,
    pub state_changed: bool,
    pub remaining:     u64,
}

#[derive(Debug, Default)]
pub struct Seen {
    pub outcome:       Option<Outcome>,
    pub interrupts:    Vec<SeenInterrupt>,
    pub logs:          Vec<Vec<u8>>,
    pub state_v0:      Vec<u8>,
    pub actions:       Vec<Act>,
    pub rv:            Vec<u8>,
    pub state_changed: bool,
    /// final v1 state (also after failures, for receive)
    pub state_v1:      Option<Vec<(Vec<u8>, Vec<u8>)>>,
    pub state_hash:    Option<[u8; 32]>,
    /// one trace per executed section (initial run, then one per resume)
    pub traces:        Vec<Vec<(&'static str, u64)>>,
}

pub enum Compiled {
    V0(Artifact<v0::ProcessedImports, CompiledFunction>),
    V1(Arc<Artifact<v1::ProcessedImports, CompiledFunction>>),
}

pub fn vconfig(c: &Case) -> ValidationConfig {
    match c.ver {
        // the v0 entry points fix the validation rules of protocols 1-5
        Ver::V0 => ValidationConfig::V0,
        Ver::V1 => {
            if c.proto >= 2 {
                ValidationConfig::V1
            } else {
                ValidationConfig::V0
            }
        }
    }
}

pub fn compile(c: &Case, e: &Emitted) -> anyhow::Result<Compiled> {
    match c.ver {
        Ver::V0 => {
            let art = if c.cost_v1 {
                instantiate_with_metering::<v0::ProcessedImports>(vconfig(c), CostConfigurationV1, &v0::ConcordiumAllowedImports, &e.bytes)?
            } else {
                instantiate_with_metering::<v0::ProcessedImports>(vconfig(c), CostConfigurationV0, &v0::ConcordiumAllowedImports, &e.bytes)?
            };
            Ok(Compiled::V0(art.artifact))
        }
        Ver::V1 => {
            let imp = v1::ConcordiumAllowedImports { support_upgrade: c.proto().upgrade, enable_debug: false };
            let art = if c.cost_v1 {
                instantiate_with_metering::<v1::ProcessedImports>(vconfig(c), CostConfigurationV1, &imp, &e.bytes)?
            } else {
                instantiate_with_metering::<v1::ProcessedImports>(vconfig(c), CostConfigurationV0, &imp, &e.bytes)?
            };
            Ok(Compiled::V1(Arc::new(art.artifact)))
        }
    }
}

/// Serialize the artifact and load it back (owned form), as the node does with stored modules.
pub fn through_bytes(comp: &Compiled) -> anyhow::Result<Compiled> {
    match comp {
        Compiled::V0(a) => {
            let mut bytes = Vec::new();
            a.output(&mut bytes)?;
            let b = parse_artifact::<v0::ProcessedImports>(&bytes)?;
            Ok(Compiled::V0(b.into()))
        }
        Compiled::V1(a) => {
            let mut bytes = Vec::new();
            a.output(&mut bytes)?;
            let b = parse_artifact::<v1::ProcessedImports>(&bytes)?;
            Ok(Compiled::V1(Arc::new(b.into())))
        }
    }
}

fn logs_of(l: &v0::Logs) -> Vec<Vec<u8>> { l.iterate().cloned().collect() }

fn conv_action(a: &v0::Action) -> Act {
    match a {
        v0::Action::Accept => Act::Accept,
        v0::Action::SimpleTransfer { data } => Act::Transfer { to: data.to_addr.0, amount: data.amount.micro_ccd },
        v0::Action::Send { data } => Act::Send {
            index:     data.to_addr.index,
            subindex:  data.to_addr.subindex,
            name:      data.name.as_receive_name().get_chain_name().to_string(),
            amount:    data.amount.micro_ccd,
            parameter: data.parameter.as_ref().to_vec(),
        },
        v0::Action::And { l, r } => Act::And(*l, *r),
        v0::Action::Or { l, r } => Act::Or(*l, *r),
    }
}

fn conv_interrupt(i: &v1::Interrupt) -> Intr {
    fn h32(x: &[u8]) -> [u8; 32] { x.try_into().expect("32 bytes") }
    match i {
        v1::Interrupt::Transfer { to, amount } => Intr::Transfer { to: to.0, amount: amount.micro_ccd },
        v1::Interrupt::Call { address, parameter, name, amount } => Intr::Call {
            index:     address.index,
            subindex:  address.subindex,
            parameter: parameter.clone(),
            name:      name.to_string(),
            amount:    amount.micro_ccd,
        },
        v1::Interrupt::Upgrade { module_ref } => Intr::Upgrade { module: h32(module_ref.as_ref()) },
        v1::Interrupt::QueryAccountBalance { address } => Intr::QueryAccountBalance { address: address.0 },
        v1::Interrupt::QueryContractBalance { address } => Intr::QueryContractBalance { index: address.index, subindex: address.subindex },
        v1::Interrupt::QueryExchangeRates => Intr::QueryExchangeRates,
        v1::Interrupt::CheckAccountSignature { address, payload } => Intr::CheckAccountSignature { address: address.0, payload: payload.clone() },
        v1::Interrupt::QueryAccountKeys { address } => Intr::QueryAccountKeys { address: address.0 },
        v1::Interrupt::QueryContractModuleReference { address } => {
            Intr::QueryContractModuleReference { index: address.index, subindex: address.subindex }
        }
        v1::Interrupt::QueryContractName { address } => Intr::QueryContractName { index: address.index, subindex: address.subindex },
    }
}

fn sender_of(c: &Case) -> Address {
    let x = ctx_of(c);
    if c.sender_contract {
        Address::Contract(ContractAddress {
            index:    u64::from_le_bytes(x.sender[1..9].try_into().unwrap()),
            subindex: u64::from_le_bytes(x.sender[9..17].try_into().unwrap()),
        })
    } else {
        Address::Account(AccountAddress(x.sender[1..33].try_into().unwrap()))
    }
}

fn v0_receive_ctx(c: &Case) -> v0::ReceiveContext<Vec<u8>> {
    let x = ctx_of(c);
    v0::ReceiveContext {
        metadata:        ChainMetadata { slot_time: Timestamp::from_timestamp_millis(x.slot_time) },
        invoker:         AccountAddress(x.invoker),
        self_address:    ContractAddress { index: x.self_index, subindex: x.self_subindex },
        self_balance:    Amount::from_micro_ccd(x.self_balance),
        sender:          sender_of(c),
        owner:           AccountAddress(x.owner),
        sender_policies: c.policy.clone(),
    }
}

fn v0_init_ctx(c: &Case) -> v0::InitContext<Vec<u8>> {
    let x = ctx_of(c);
    v0::InitContext {
        metadata:        ChainMetadata { slot_time: Timestamp::from_timestamp_millis(x.slot_time) },
        init_origin:     AccountAddress(x.init_origin),
        sender_policies: c.policy.clone(),
    }
}

fn failure_of(e: u8) -> v1::InvokeFailure {
    use v1::InvokeFailure::*;
    match e {
        1 => InsufficientAmount,
        2 => NonExistentAccount,
        3 => NonExistentContract,
        4 => NonExistentEntrypoint,
        5 => SendingV0Failed,
        6 => RuntimeError,
        7 => UpgradeInvalidModuleRef,
        8 => UpgradeInvalidContractName,
        9 => UpgradeInvalidVersion,
        10 => SignatureDataMalformed,
        _ => SignatureCheckFailed,
    }
}

pub struct RunOpts {
    pub energy:            u64,
    /// the entrypoint's amount argument (1 selects the dump epilogue)
    pub amount:            u64,
    pub stop_at_interrupt: bool,
}

type Ld = Loader<&'static [u8]>;

fn loader() -> Ld { Loader::new(&[][..]) }

fn read_state(st: &mut MutableState, seen: &mut Seen) {
    let mut l = loader();
    let ps = st.freeze(&mut l, &mut EmptyCollector);
    let h = ps.hash(&mut l);
    let hb: &[u8] = h.as_ref();
    seen.state_hash = Some(hb.try_into().expect("32 bytes"));
    seen.state_v1 = Some(ps.into_iterator(&mut l).collect());
}

pub fn run(c: &Case, e: &Emitted, comp: &Compiled, o: &RunOpts) -> Seen {
    let mut seen = Seen::default();
    match comp {
        Compiled::V0(art) => run_v0(c, e, art, o, &mut seen),
        Compiled::V1(art) => run_v1(c, e, art, o, &mut seen),
    }
    seen
}

fn run_v0(c: &Case, e: &Emitted, art: &Artifact<v0::ProcessedImports, CompiledFunction>, o: &RunOpts, seen: &mut Seen) {
    let energy = InterpreterEnergy::new(o.energy);
    let limit = c.proto().limit;
    match c.kind {
        Kind::Init => {
            let inv = v0::InitInvocation { amount: o.amount, init_name: e.entry, parameter: Parameter::new_unchecked(&c.param), energy };
            match v0::invoke_init(art, v0_init_ctx(c), inv, limit) {
                Ok(v0::InitResult::Success { state, logs, remaining_energy }) => {
                    seen.state_v0 = state.state;
                    seen.logs = logs_of(&logs);
                    seen.outcome = Some(Outcome::Success { remaining: remaining_energy.energy });
                }
                Ok(v0::InitResult::Reject { reason, remaining_energy }) => {
                    seen.outcome = Some(Outcome::Reject { reason, remaining: remaining_energy.energy })
                }
                Ok(v0::InitResult::OutOfEnergy) => seen.outcome = Some(Outcome::OutOfEnergy),
                Err(err) => seen.outcome = Some(Outcome::Trap { remaining: None, msg: format!("{err:#}") }),
            }
        }
        Kind::Receive => {
            let inv = v0::ReceiveInvocation { amount: o.amount, receive_name: e.entry, parameter: Parameter::new_unchecked(&c.param), energy };
            match v0::invoke_receive(art, v0_receive_ctx(c), inv, &c.state0_v0, c.proto().max_param, limit) {
                Ok(v0::ReceiveResult::Success { state, logs, actions, remaining_energy }) => {
                    seen.state_v0 = state.state;
                    seen.logs = logs_of(&logs);
                    seen.actions = actions.iter().map(conv_action).collect();
                    seen.outcome = Some(Outcome::Success { remaining: remaining_energy.energy });
                }
                Ok(v0::ReceiveResult::Reject { reason, remaining_energy }) => {
                    seen.outcome = Some(Outcome::Reject { reason, remaining: remaining_energy.energy })
                }
                Ok(v0::ReceiveResult::OutOfEnergy) => seen.outcome = Some(Outcome::OutOfEnergy),
                Err(err) => seen.outcome = Some(Outcome::Trap { remaining: None, msg: format!("{err:#}") }),
            }
        }
    }
}

fn run_v1(c: &Case, e: &Emitted, art: &Arc<Artifact<v1::ProcessedImports, CompiledFunction>>, o: &RunOpts, seen: &mut Seen) {
    let p = c.proto();
    match c.kind {
        Kind::Init => {
            let inv = v1::InitInvocation { amount: Amount::from_micro_ccd(o.amount), init_name: e.entry, parameter: &c.param, energy: InterpreterEnergy::new(o.energy) };
            let r: v1::InvokeResult<v1::InitResult<Trace>, Trace> = v1::invoke_init(art.as_ref(), v0_init_ctx(c), inv, p.limit, loader());
            match r {
                Ok(v1::InitResult::Success { logs, return_value, remaining_energy, mut state, trace }) => {
                    seen.logs = logs_of(&logs);
                    seen.rv = return_value;
                    seen.traces.push(trace.events);
                    read_state(&mut state, seen);
                    seen.state_changed = true;
                    seen.outcome = Some(Outcome::Success { remaining: remaining_energy.energy });
                }
                Ok(v1::InitResult::Reject { reason, return_value, remaining_energy, trace }) => {
                    seen.rv = return_value;
                    seen.traces.push(trace.events);
                    seen.outcome = Some(Outcome::Reject { reason, remaining: remaining_energy.energy });
                }
                Ok(v1::InitResult::Trap { error, remaining_energy, trace }) => {
                    seen.traces.push(trace.events);
                    seen.outcome = Some(Outcome::Trap { remaining: Some(remaining_energy.energy), msg: format!("{error:#}") });
                }
                Ok(v1::InitResult::OutOfEnergy { trace }) => {
                    seen.traces.push(trace.events);
                    seen.outcome = Some(Outcome::OutOfEnergy);
                }
                Err(err) => {
                    seen.traces.push(err.debug_trace.events);
                    seen.outcome = Some(Outcome::BadReturn);
                }
            }
        }
        Kind::Receive => {
            let mut l = loader();
            let ps = PersistentState::from_iterator(c.state0_v1.iter().map(|(k, v)| (&k[..], v.clone())));
            let mut base = ps.thaw();
            // as the node does: every invocation works on a fresh generation of the instance state
            let mut st = base.make_fresh_generation(&mut l);
            // the documented parameter sets of the protocol versions
            let params = match c.proto {
                0 => v1::ReceiveParams::new_p4(),
                1 => v1::ReceiveParams::new_p5(),
                2 => v1::ReceiveParams::new_p6(),
                _ => v1::ReceiveParams::new_p7(),
            };
            let rctx = v1::ReceiveContext { common: v0_receive_ctx(c), entrypoint: OwnedEntrypointName::new_unchecked(ctx_of(c).entrypoint.to_string()) };
            let inv = v1::ReceiveInvocation {
                amount:       Amount::from_micro_ccd(o.amount),
                receive_name: ReceiveName::new_unchecked(e.entry),
                parameter:    &c.param,
                energy:       InterpreterEnergy::new(o.energy),
            };
            type RR = v1::ReceiveResult<CompiledFunction, Trace>;
            let first: v1::InvokeResult<RR, Trace> = {
                let inner = st.get_inner(&mut l);
                let is = v1::InstanceState::new(l, inner);
                v1::invoke_receive::<_, _, _, _, v1::ReceiveContext<Vec<u8>>, v1::ReceiveContext<Vec<u8>>, Trace>(art.clone(), rctx, inv, is, params)
            };
            let mut cur: Result<RR, ()> = match first {
                Ok(r) => Ok(r),
                Err(err) => {
                    seen.traces.push(err.debug_trace.events);
                    Err(())
                }
            };
            let mut n_intr = 0usize;
            loop {
                match cur {
                    Err(()) => {
                        seen.outcome = Some(Outcome::BadReturn);
                        break;
                    }
                    Ok(v1::ReceiveResult::Success { logs, state_changed, return_value, remaining_energy, trace }) => {
                        seen.logs = logs_of(&logs);
                        seen.state_changed = state_changed;
                        seen.rv = return_value;
                        seen.traces.push(trace.events);
                        seen.outcome = Some(Outcome::Success { remaining: remaining_energy.energy });
                        break;
                    }
                    Ok(v1::ReceiveResult::Reject { reason, return_value, remaining_energy, trace }) => {
                        seen.rv = return_value;
                        seen.traces.push(trace.events);
                        seen.outcome = Some(Outcome::Reject { reason, remaining: remaining_energy.energy });
                        break;
                    }
                    Ok(v1::ReceiveResult::Trap { error, remaining_energy, trace }) => {
                        seen.traces.push(trace.events);
                        seen.outcome = Some(Outcome::Trap { remaining: Some(remaining_energy.energy), msg: format!("{error:#}") });
                        break;
                    }
                    Ok(v1::ReceiveResult::OutOfEnergy { trace }) => {
                        seen.traces.push(trace.events);
                        seen.outcome = Some(Outcome::OutOfEnergy);
                        break;
                    }
                    Ok(v1::ReceiveResult::Interrupt { remaining_energy, state_changed, logs, config, interrupt, trace }) => {
                        seen.traces.push(trace.events);
                        seen.interrupts.push(SeenInterrupt {
                            intr: conv_interrupt(&interrupt),
                            logs: logs_of(&logs),
                            state_changed,
                            remaining: remaining_energy.energy,
                        });
                        if o.stop_at_interrupt || n_intr >= c.responses.len() {
                            seen.outcome = Some(Outcome::Interrupted);
                            break;
                        }
                        let resp = &c.responses[n_intr];
                        n_intr += 1;
                        if resp.state_updated {
                            // re-entrancy: the instance's state was changed by a nested invocation,
                            // which worked on (and committed) a newer generation
                            let mut st2 = st.make_fresh_generation(&mut l);
                            {
                                let inner = st2.get_inner(&mut l);
                                let mut t = inner.lock();
                                for (k, v) in &resp.mods {
                                    match v {
                                        Some(v) => {
                                            let _ = t.insert(&mut l, k, v.clone());
                                        }
                                        None => {
                                            let _ = t.delete(&mut l, k);
                                        }
                                    }
                                }
                            }
                            st = st2;
                        }
                        let response = match &resp.kind {
                            RespKind::Success { data, new_balance } => {
                                v1::InvokeResponse::Success { new_balance: Amount::from_micro_ccd(*new_balance), data: data.clone() }
                            }
                            RespKind::Reject { code, data } => {
                                v1::InvokeResponse::Failure { kind: v1::InvokeFailure::ContractReject { code: *code, data: data.clone() } }
                            }
                            RespKind::Env(x) => v1::InvokeResponse::Failure { kind: failure_of(*x) },
                        };
                        let r: v1::ResumeResult<RR, Trace> = v1::resume_receive(config, response, remaining_energy, &mut st, resp.state_updated, l);
                        cur = match r {
                            Ok(r) => Ok(r),
                            Err(v1::ResumeError::InvalidReturn { error }) => {
                                seen.traces.push(error.debug_trace.events);
                                Err(())
                            }
                            Err(v1::ResumeError::TooManyInterrupts) => Err(()),
                        };
                    }
                }
            }
            read_state(&mut st, seen);
            let _ = &mut base;
        }
    }
}
