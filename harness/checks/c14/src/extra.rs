//! Two small additional targets: the call-depth limit under the real hosts, and "charge before
//! allocating" for the one host function that can allocate far more than linear memory holds.
use crate::emit::{dump_call, emit, Emitted};
use crate::run::{self, Outcome, RunOpts};
use crate::script::*;
use crate::{alloc, AMPLE};
use vcore::{gen as g, vensure, CheckResult, Ctx, Unstructured, Violation};
use wasmgen::ast::*;

fn blank_case(ver: Ver, kind: Kind, proto: usize, cost_v1: bool, seed: u8) -> Case {
    Case {
        ver,
        kind,
        proto,
        cost_v1,
        param: vec![],
        policy: vec![],
        seed,
        sender_contract: false,
        init_pages: 1,
        max_pages: Some(1),
        state0_v0: vec![],
        state0_v1: vec![],
        blobs: vec![(KEY_BASE, vec![0x11, 0x22, 0x33])],
        calls: vec![],
        ret: Ret::Const(0),
        responses: vec![],
        dump_q: 0,
        pick: 0,
        amount: 0,
    }
}

/// Entry function calls a function that calls itself `depth - 1` more times.
fn recursion_module(kind: Kind, depth: u32, mutual: bool) -> (Module, &'static str) {
    let entry = match kind {
        Kind::Init => "init_c",
        Kind::Receive => "c.r",
    };
    let t_f = FuncType { params: vec![ValType::I32], result: None };
    let t_e = FuncType { params: vec![ValType::I64], result: Some(ValType::I32) };
    // f0(n): if n == 0 return; f?(n - 1)
    let body = |callee: u32| -> Vec<Op> {
        vec![
            Op::LocalGet(0),
            Op::Num(NumOp::I32Eqz),
            Op::If(BlockType::Empty),
            Op::Return,
            Op::End,
            Op::LocalGet(0),
            Op::I32Const(1),
            Op::Num(NumOp::I32Sub),
            Op::Call(callee),
            Op::End,
        ]
    };
    let (f0_callee, f1_callee) = if mutual { (1, 0) } else { (0, 0) };
    let funcs = vec![
        Func { ty: 0, locals: vec![], body: body(f0_callee) },
        Func { ty: 0, locals: vec![], body: body(f1_callee) },
        Func {
            ty:     1,
            locals: vec![],
            // depth nested calls: the first with argument depth - 1
            body:   vec![Op::I32Const(depth as i32 - 1), Op::Call(0), Op::I32Const(0), Op::End],
        },
    ];
    let m = Module {
        types: vec![t_f, t_e],
        imports: vec![],
        funcs,
        table: None,
        memory: Some(Limits { min: 1, max: Some(1) }),
        globals: vec![],
        exports: vec![Export { name: entry.into(), kind: ExportKind::Func(2) }],
        start: None,
        elems: vec![],
        datas: vec![],
        customs: vec![],
    };
    (m, entry)
}

pub fn t_depth(data: &[u8], ctx: &mut Ctx) -> CheckResult {
    let mut u = Unstructured::new(data);
    let (ver, kind) = match g::byte(&mut u) % 3 {
        0 => (Ver::V0, Kind::Init),
        1 => (Ver::V1, Kind::Init),
        _ => (Ver::V1, Kind::Receive),
    };
    let proto = g::idx(&mut u, 4);
    let cost_v1 = g::boolean(&mut u);
    let mutual = g::boolean(&mut u);
    let depth = match g::byte(&mut u) % 12 {
        0 => 1,
        1 => 2,
        2 => 512,
        3 => 1000,
        4 => 1023,
        5 => 1024,
        6 => 1025,
        7 => 1026,
        8 => 1100,
        9 => 5000,
        _ => g::range_u64(&mut u, 1, 3000) as u32,
    };
    let c = blank_case(ver, kind, proto, cost_v1, g::byte(&mut u));
    let (module, entry) = recursion_module(kind, depth, mutual);
    ctx.describe(|| format!("{:?} {:?} {} cost_v1={} mutual={} nested calls={}\n{}", ver, kind, c.proto().name, cost_v1, mutual, depth, pretty(&module)));
    let bytes = wasmgen::encode::encode(&module);
    let e = Emitted { module, bytes, entry, call_pc: vec![], dump_body: (0, 0), cost: vec![], entry_cost: 0 };
    alloc::set_dirty_bound(65536);
    let comp = run::compile(&c, &e).map_err(|err| Violation::new("accepts-valid", format!("recursion module rejected: {err:#}")))?;
    let seen = run::run(&c, &e, &comp, &RunOpts { energy: AMPLE, amount: 0, stop_at_interrupt: false });
    let out = seen.outcome.clone().unwrap();
    ctx.sample(|| format!("{:?} {:?} nested calls {} mutual {} -> {}", ver, kind, depth, mutual, out.kind()));
    // documented: at most 1024 nested function calls
    if depth <= 1024 {
        ctx.class("depth-inside");
        ctx.nontrivial(&(ver, kind, depth, mutual, cost_v1));
        vensure!(matches!(out, Outcome::Success { .. }), "call-depth", "{} nested calls (limit 1024) ended as {:?}", depth, out);
    } else {
        ctx.class("depth-outside");
        ctx.nontrivial(&(ver, kind, depth, mutual, cost_v1));
        vensure!(matches!(out, Outcome::Trap { .. }), "call-depth", "{} nested calls (limit 1024) ended as {} instead of a runtime failure", depth, out.kind());
    }
    Ok(())
}

pub fn t_alloc(data: &[u8], ctx: &mut Ctx) -> CheckResult {
    let mut u = Unstructured::new(data);
    let kind = if g::boolean(&mut u) { Kind::Init } else { Kind::Receive };
    let proto = g::idx(&mut u, 4);
    let mut c = blank_case(Ver::V1, kind, proto, g::boolean(&mut u), g::byte(&mut u));
    let n: u32 = match g::byte(&mut u) % 6 {
        0 => 1 << 30,
        1 => 1 << 29,
        2 => (1 << 28) + 5,
        3 => 100_000_000,
        4 => (1 << 30) - 1,
        _ => g::range_u64(&mut u, 1 << 27, 1 << 30) as u32,
    };
    let pre_write = g::boolean(&mut u);
    c.calls.push(Call { f: F::StateCreateEntry, args: vec![Arg::C(KEY_BASE as u64), Arg::C(3)] });
    if pre_write {
        c.calls.push(Call { f: F::StateEntryWrite, args: vec![Arg::R(0), Arg::C(KEY_BASE as u64), Arg::C(3), Arg::C(0)] });
    }
    c.calls.push(Call { f: F::StateEntryResize, args: vec![Arg::R(0), Arg::C(n as u64)] });
    c.calls.push(Call { f: F::StateEntrySize, args: vec![Arg::R(0)] });
    // any budget up to the documented cost of the growth itself cannot pay for it
    let cost = 100 * n as u64;
    let budget = match g::byte(&mut u) % 4 {
        0 => 1_000_000,
        1 => cost,
        2 => cost / 2,
        _ => g::range_u64(&mut u, 10_000, cost),
    };
    ctx.describe(|| format!("{}\nbudget {}", describe(&c), budget));
    let dumpc = dump_call(&c, 65536);
    let e = emit(&c, &dumpc);
    alloc::set_dirty_bound(65536);
    let comp = run::compile(&c, &e).map_err(|err| Violation::new("accepts-valid", format!("module rejected: {err:#}")))?;
    let (seen, rep) = vcore::alloc::measure(|| run::run(&c, &e, &comp, &RunOpts { energy: budget, amount: 0, stop_at_interrupt: false }));
    ctx.class("resize-beyond-budget");
    ctx.nontrivial(&(kind, proto, n, budget, pre_write));
    ctx.sample(|| format!("{:?} entry_resize to {} bytes with budget {}: {:?}, largest allocation {} bytes", kind, n, budget, seen.outcome, rep.max_single));
    vensure!(
        seen.outcome == Some(Outcome::OutOfEnergy),
        "resize-budget",
        "growing an entry to {} bytes (documented cost {}) with a budget of {} ended as {:?}",
        n,
        cost,
        budget,
        seen.outcome
    );
    // linear memory (32 MiB) is the only large buffer an execution may allocate without having paid for it
    vensure!(
        rep.max_single <= 512 * 65536,
        "alloc-before-charge",
        "growing an entry to {} bytes with a budget of {} (documented cost {}) allocated {} bytes in one piece before running out of energy",
        n,
        budget,
        cost,
        rep.max_single
    );
    Ok(())
}
