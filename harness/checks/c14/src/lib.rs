//! C14: contract host functions are memory-safe, total and enforce protocol limits.
pub mod alloc;
pub mod emit;
pub mod extra;
pub mod model;
pub mod run;
pub mod script;

use emit::{dump_call, emit, Emitted};
use model::{Act, Charge, Intr, Model, Step};
use run::{Outcome, RunOpts, Seen};
use script::*;
use std::hash::{Hash, Hasher};
use vcore::{gen as g, vensure, CheckResult, Ctx, Property, Target, Unstructured, Violation};

/// Ample budget: above every charge the generator can cause except the ones documented as
/// exceeding any budget (see NOTES: lengths never fall into the band in between).
pub const AMPLE: u64 = 1 << 56;

#[derive(Debug, Clone, PartialEq, Eq)]
pub enum End {
    Success,
    Reject(i32),
    Trap,
    /// trap or out of energy, unspecified which
    Fail,
    BadReturn,
}

pub struct ExpIntr {
    pub intr:          Intr,
    pub logs:          Vec<Vec<u8>>,
    pub state_changed: bool,
    /// index of the call that caused it
    pub call:          usize,
}

pub struct Done {
    pub call:    usize,
    pub f:       F,
    pub charge:  Charge,
    /// number of interrupts before this call (= index of the execution section it ran in)
    pub section: usize,
}

pub struct Expect<'a> {
    pub end:         End,
    pub interrupts:  Vec<ExpIntr>,
    /// calls that returned to the contract or suspended it, in order
    pub done:        Vec<Done>,
    pub m:           Model<'a>,
    pub actions:     Vec<Act>,
    /// index of a call whose behaviour the documentation leaves open
    pub unspecified: Option<usize>,
    pub ret_unspecified: bool,
    /// the call at which the run fails (Trap / Fail)
    pub failed_at:   Option<usize>,
}

fn store_slot(m: &mut Model, slot: usize, v: u64, wide: bool) {
    let a = (RES_BASE + 8 * slot as u32) as usize;
    if wide {
        m.mem[a..a + 8].copy_from_slice(&v.to_le_bytes());
    } else {
        m.mem[a..a + 4].copy_from_slice(&(v as u32).to_le_bytes());
    }
}

/// Run the reference model over the script (`upto`: stop before that call).
pub fn simulate<'a>(c: &'a Case, dump: Option<&Call>, upto: Option<usize>) -> Expect<'a> {
    let mut m = Model::new(c);
    let mut interrupts = Vec::new();
    let mut done = Vec::new();
    let mut end: Option<End> = None;
    let mut unspecified = None;
    let mut failed_at = None;
    let n = c.calls.len();
    let total = n + dump.is_some() as usize;
    for k in 0..total {
        if upto == Some(k) {
            break;
        }
        let call = if k < n { &c.calls[k] } else { dump.unwrap() };
        let args = m.arg_values(call);
        let charge = m.charge(call, &args);
        let (_, result) = call.f.sig(c.ver);
        let wide = result == Some(wasmgen::ast::ValType::I64);
        match m.step(call, &args) {
            Step::Ret(v) => {
                if let Some(v) = v {
                    store_slot(&mut m, k, v, wide);
                }
                done.push(Done { call: k, f: call.f, charge, section: interrupts.len() });
            }
            Step::Trap => {
                end = Some(End::Trap);
                failed_at = Some(k);
                break;
            }
            Step::Fail => {
                end = Some(End::Fail);
                failed_at = Some(k);
                break;
            }
            Step::Unspecified => {
                unspecified = Some(k);
                break;
            }
            Step::Interrupt(intr) => {
                let logs = if intr.clears_logs() { std::mem::take(&mut m.logs) } else { Vec::new() };
                done.push(Done { call: k, f: call.f, charge, section: interrupts.len() });
                let i = interrupts.len();
                interrupts.push(ExpIntr { intr, logs, state_changed: m.changed, call: k });
                match c.responses.get(i) {
                    Some(r) => {
                        let v = m.resume(r);
                        store_slot(&mut m, k, v, true);
                    }
                    None => {
                        unspecified = Some(k);
                        break;
                    }
                }
            }
        }
    }
    let mut ret_unspecified = false;
    let mut actions = Vec::new();
    let end = match end {
        Some(e) => e,
        None => {
            let r: i32 = match c.ret {
                Ret::Const(v) => v,
                Ret::Slot(j) => {
                    let a = (RES_BASE + 8 * j as u32) as usize;
                    i32::from_le_bytes(m.mem[a..a + 4].try_into().unwrap())
                }
            };
            match (c.ver, c.kind) {
                (Ver::V0, Kind::Init) => match r {
                    0 => End::Success,
                    r if r < 0 => End::Reject(r),
                    _ => End::Trap,
                },
                (Ver::V0, Kind::Receive) => {
                    if r < 0 {
                        End::Reject(r)
                    } else if (r as usize) < m.actions.len() {
                        actions = m.actions[..=r as usize].to_vec();
                        End::Success
                    } else {
                        End::Trap
                    }
                }
                (Ver::V1, Kind::Init) => match r {
                    0 => End::Success,
                    r if r < 0 => End::Reject(r),
                    _ => End::BadReturn,
                },
                (Ver::V1, Kind::Receive) => match r {
                    0 => End::Success,
                    r if r < 0 => End::Reject(r),
                    _ => {
                        // only 0 and negative values are documented return values
                        ret_unspecified = true;
                        End::Success
                    }
                },
            }
        }
    };
    Expect { end, interrupts, done, m, actions, unspecified, ret_unspecified, failed_at }
}

fn describe_seen(s: &Seen) -> String {
    format!(
        "{:?}, {} interrupts, {} logs, v0 state {}B, rv {}B, {} actions",
        s.outcome,
        s.interrupts.len(),
        s.logs.len(),
        s.state_v0.len(),
        s.rv.len(),
        s.actions.len()
    )
}

fn first_diff(a: &[u8], b: &[u8]) -> String {
    match a.iter().zip(b.iter()).position(|(x, y)| x != y) {
        Some(i) => format!("first difference at offset {:#x}: {:#04x} vs {:#04x}", i, a[i], b[i]),
        None => format!("lengths {} vs {}", a.len(), b.len()),
    }
}

/// Oracles (a)-(c): the documented outcome and everything visible must equal the model's.
fn compare(what: &str, c: &Case, exp: &Expect, seen: &Seen) -> CheckResult {
    let p = c.proto();
    let out = seen.outcome.as_ref().expect("outcome");
    // (c) limits, independent of the model
    vensure!(seen.state_v0.len() <= model::MAX_STATE, "limit-v0-state", "{what}: v0 state of {} bytes exceeds 16384", seen.state_v0.len());
    for l in seen.logs.iter().chain(seen.interrupts.iter().flat_map(|i| i.logs.iter())) {
        vensure!(l.len() <= 512, "limit-log-size", "{what}: a log item of {} bytes was accepted", l.len());
    }
    if p.limit {
        vensure!(seen.logs.len() <= 64, "limit-log-count", "{what}: {} log items under the P4 limit", seen.logs.len());
        vensure!(seen.rv.len() <= model::MAX_STATE, "limit-return-value", "{what}: return value of {} bytes under the P4 limit", seen.rv.len());
    }
    for a in &seen.actions {
        if let Act::Send { parameter, .. } = a {
            vensure!(parameter.len() <= p.max_param, "limit-parameter", "{what}: send action with a parameter of {} bytes", parameter.len());
        }
    }
    for i in &seen.interrupts {
        if let Intr::Call { parameter, .. } = &i.intr {
            vensure!(parameter.len() <= p.max_param, "limit-parameter", "{what}: call with a parameter of {} bytes", parameter.len());
        }
    }
    // interrupts
    for (i, (s, e)) in seen.interrupts.iter().zip(exp.interrupts.iter()).enumerate() {
        vensure!(
            s.intr == e.intr,
            "interrupt-payload",
            "{what}: interrupt {i} (call r{}) carries {:?}, documented interface gives {:?}",
            e.call,
            s.intr,
            e.intr
        );
        vensure!(s.logs == e.logs, "interrupt-logs", "{what}: interrupt {i}: {} log items handed over, expected {}", s.logs.len(), e.logs.len());
        vensure!(
            s.state_changed == e.state_changed,
            "state-changed-flag",
            "{what}: interrupt {i}: state_changed = {}, expected {}",
            s.state_changed,
            e.state_changed
        );
    }
    vensure!(
        seen.interrupts.len() == exp.interrupts.len(),
        "interrupt-count",
        "{what}: {} interrupts, the model expects {} (outcome {:?}, expected {:?})",
        seen.interrupts.len(),
        exp.interrupts.len(),
        out,
        exp.end
    );
    // outcome class
    let ok = match (&exp.end, out) {
        (End::Success, Outcome::Success { .. }) => true,
        (End::Reject(r), Outcome::Reject { reason, .. }) => r == reason,
        (End::Trap, Outcome::Trap { .. }) => true,
        (End::Fail, Outcome::Trap { .. }) | (End::Fail, Outcome::OutOfEnergy) => true,
        (End::BadReturn, Outcome::BadReturn) => true,
        _ => false,
    };
    if !ok {
        let at = match exp.failed_at {
            Some(k) => format!(" (model: fails at call r{} {})", k, call_name(c, k)),
            None => String::new(),
        };
        let sig = match (&exp.end, out) {
            (End::Trap, _) | (End::Fail, _) => format!("outcome:{}-should-fail-got-{}", exp.failed_at.map(|k| call_name(c, k)).unwrap_or("return"), out.kind()),
            (_, Outcome::Trap { .. }) => "outcome:unexpected-trap".to_string(),
            _ => format!("outcome:{:?}-vs-{}", exp.end, out.kind()).replace(|ch: char| ch.is_ascii_digit() || ch == '-' && false, ""),
        };
        return Err(Violation::new("outcome", format!("{what}: outcome {:?}, the documented interface gives {:?}{}", out, exp.end, at)).with_signature(sig));
    }
    match out {
        Outcome::Success { .. } => {
            vensure!(seen.logs == exp.m.logs, "logs", "{what}: {} log items, expected {} ({})", seen.logs.len(), exp.m.logs.len(), describe_seen(seen));
            match c.ver {
                Ver::V0 => {
                    vensure!(
                        seen.state_v0 == exp.m.state,
                        "v0-state",
                        "{what}: final state differs from the model: {} vs {} bytes, {}",
                        seen.state_v0.len(),
                        exp.m.state.len(),
                        first_diff(&seen.state_v0, &exp.m.state)
                    );
                    vensure!(seen.actions == exp.actions, "v0-actions", "{what}: actions {:?}, expected {:?}", seen.actions, exp.actions);
                }
                Ver::V1 => {
                    vensure!(
                        seen.rv == exp.m.rv,
                        "return-value",
                        "{what}: return value differs from the model: {} vs {} bytes, {}",
                        seen.rv.len(),
                        exp.m.rv.len(),
                        first_diff(&seen.rv, &exp.m.rv)
                    );
                    if c.kind == Kind::Receive {
                        vensure!(
                            seen.state_changed == exp.m.changed,
                            "state-changed-flag",
                            "{what}: state_changed = {}, expected {}",
                            seen.state_changed,
                            exp.m.changed
                        );
                    }
                    let want: Vec<(Vec<u8>, Vec<u8>)> = exp.m.map.iter().map(|(k, v)| (k.clone(), v.clone())).collect();
                    let got = seen.state_v1.as_ref().expect("v1 state");
                    vensure!(
                        *got == want,
                        "v1-state",
                        "{what}: final state has {} entries, the model {}: state {:?} model {:?}",
                        got.len(),
                        want.len(),
                        got.iter().map(|(k, v)| format!("{}:{}B", g::hex(k), v.len())).collect::<Vec<_>>(),
                        want.iter().map(|(k, v)| format!("{}:{}B", g::hex(k), v.len())).collect::<Vec<_>>()
                    );
                    vensure!(
                        seen.state_hash == Some(statemodel::reference_hash(&exp.m.map)),
                        "v1-state-hash",
                        "{what}: hash of the final state differs from the documented hash of its contents"
                    );
                }
            }
        }
        Outcome::Reject { .. } => {
            if c.ver == Ver::V1 {
                vensure!(
                    seen.rv == exp.m.rv,
                    "return-value",
                    "{what}: return value of the rejection differs: {} vs {} bytes, {}",
                    seen.rv.len(),
                    exp.m.rv.len(),
                    first_diff(&seen.rv, &exp.m.rv)
                );
            }
        }
        _ => {}
    }
    Ok(())
}

fn call_name(c: &Case, k: usize) -> &'static str {
    if k < c.calls.len() {
        c.calls[k].f.name()
    } else {
        "dump"
    }
}

struct EnergyFacts {
    /// total consumed by the ample run (None when the API does not tell)
    total:  Option<u64>,
    /// actual charge of each completed call where it is known
    actual: Vec<Option<u64>>,
    exact:  bool,
}

/// Oracle (d), first half: every completed call charged at least its scheduled cost.
fn energy_lower_bounds(c: &Case, e: &Emitted, exp: &Expect, seen: &Seen, dump: bool, ctx: &mut Ctx) -> Result<EnergyFacts, Violation> {
    let out = seen.outcome.as_ref().unwrap();
    let remaining = match out {
        Outcome::Success { remaining } | Outcome::Reject { remaining, .. } => Some(*remaining),
        Outcome::Trap { remaining, .. } => *remaining,
        _ => None,
    };
    let total = remaining.map(|r| AMPLE - r);
    let finished = matches!(out, Outcome::Success { .. } | Outcome::Reject { .. });
    let instr = e.instr_cost_total(dump) + e.entry_cost;
    let mut actual: Vec<Option<u64>> = vec![None; exp.done.len()];
    let undercharge = |d: &Done, got: u64| -> Violation {
        Violation::new(
            "undercharge",
            format!(
                "call r{} {}({}) charged {} energy, scheduled cost recomputed from constants.rs is at least {}",
                d.call,
                d.f.name(),
                c.calls.get(d.call).map(|x| format!("{:?}", x.args)).unwrap_or_default(),
                got,
                d.charge.min_total
            ),
        )
        .with_signature(format!("undercharge:{}", d.f.name()))
    };
    match c.ver {
        Ver::V1 => {
            // events in order over all sections
            let mut ev: Vec<(&'static str, u64)> = Vec::new();
            for t in &seen.traces {
                ev.extend(t.iter().copied());
            }
            let mut host = ev.iter().filter(|x| x.0 != "memory.grow");
            let mut grows = ev.iter().filter(|x| x.0 == "memory.grow");
            let mut traced_sum: u64 = 0;
            let mut upgrades = 0u64;
            for (i, d) in exp.done.iter().enumerate() {
                match d.f {
                    F::MemoryGrow => {
                        let Some(g) = grows.next() else {
                            return Err(Violation::new("trace-shape", format!("memory.grow at r{} left no memory charge in the trace", d.call)));
                        };
                        traced_sum += g.1;
                        actual[i] = Some(g.1);
                        vensure!(
                            g.1 == d.charge.min_total,
                            "memory-grow-charge",
                            "memory.grow({:?}) charged {} energy, documented is 100 per requested page = {}",
                            c.calls[d.call].args,
                            g.1,
                            d.charge.min_total
                        );
                    }
                    // the engine does not trace `upgrade`
                    F::Upgrade => upgrades += 1,
                    _ => {
                        let Some(h) = host.next() else {
                            return Err(Violation::new("trace-shape", format!("completed call r{} {} is missing from the host call trace", d.call, d.f.name())));
                        };
                        vensure!(h.0 == d.f.name(), "trace-shape", "trace lists {} where the script called {} (r{})", h.0, d.f.name(), d.call);
                        traced_sum += h.1;
                        actual[i] = Some(h.1);
                        if h.1 < d.charge.min_total {
                            return Err(undercharge(d, h.1));
                        }
                        ctx.class_n("energy-checked-calls", 1);
                    }
                }
            }
            // a failing `invoke` is traced as well; nothing else may follow
            let extra: Vec<_> = host.collect();
            vensure!(
                extra.is_empty() || (extra.len() == 1 && extra[0].0 == "invoke" && matches!(exp.end, End::Trap | End::Fail)),
                "trace-shape",
                "trace has {} more host calls than the script completed: {:?}",
                extra.len(),
                extra
            );
            let mut exact = false;
            if let (Some(t), true) = (total, finished) {
                let known = instr + traced_sum;
                vensure!(
                    t >= known + 500 * upgrades,
                    "energy-total",
                    "run consumed {} energy; instructions ({}) + traced host calls ({}) + {} upgrades need at least {}",
                    t,
                    instr,
                    traced_sum,
                    upgrades,
                    known + 500 * upgrades
                );
                vensure!(
                    upgrades > 0 || t == known,
                    "energy-total",
                    "run consumed {} energy but instructions ({}) + traced host calls ({}) account for {}",
                    t,
                    instr,
                    traced_sum,
                    known
                );
                exact = t == known + 500 * upgrades;
                if exact {
                    for (i, d) in exp.done.iter().enumerate() {
                        if d.f == F::Upgrade {
                            actual[i] = Some(500);
                        }
                    }
                }
            }
            Ok(EnergyFacts { total, actual, exact })
        }
        Ver::V0 => {
            let mut exact = false;
            if let (Some(t), true) = (total, finished) {
                let sched: u64 = exp.done.iter().map(|d| d.charge.min_total).sum();
                ctx.class_n("energy-checked-calls", exp.done.len() as u64);
                // simple_transfer is bounded in two steps so that a shortfall can be attributed:
                // first with the plain action cost, then with its documented cost
                let n_st = exp.done.iter().filter(|d| d.f == F::SimpleTransfer).count() as u64;
                let weak = sched - n_st * (model::sched::SIMPLE_TRANSFER - model::sched::BASE_ACTION);
                let listing = || exp.done.iter().map(|d| (d.f.name(), d.charge.min_total)).collect::<Vec<_>>();
                if t < instr + weak {
                    let mut suspects: Vec<F> = exp.done.iter().filter(|d| d.charge.min_total > 0).map(|d| d.f).collect();
                    suspects.sort();
                    suspects.dedup();
                    let sig = if suspects.len() == 1 { format!("undercharge:{}", suspects[0].name()) } else { "undercharge:v0-total".to_string() };
                    return Err(Violation::new(
                        "undercharge",
                        format!(
                            "v0 run consumed {} energy; instructions ({}) + scheduled cost of its {} host calls ({}) need at least {}; calls: {:?}",
                            t,
                            instr,
                            exp.done.len(),
                            weak,
                            instr + weak,
                            listing()
                        ),
                    )
                    .with_signature(sig));
                }
                if t < instr + sched {
                    return Err(Violation::new(
                        "undercharge",
                        format!(
                            "v0 run with {} simple_transfer call(s) consumed {} energy; instructions ({}) + scheduled cost of its host calls ({}) need at least {}: constants.rs documents BASE_SIMPLE_TRANSFER_ACTION_COST = 41000 as the base cost of a simple_transfer action, the run is consistent with 1000 having been charged; calls: {:?}",
                            n_st,
                            t,
                            instr,
                            sched,
                            instr + sched,
                            listing()
                        ),
                    )
                    .with_signature("undercharge:simple_transfer"));
                }
                exact = t == instr + sched;
                if exact {
                    for (i, d) in exp.done.iter().enumerate() {
                        actual[i] = Some(d.charge.min_total);
                    }
                }
            }
            Ok(EnergyFacts { total, actual, exact })
        }
    }
}

fn truncate_case(c: &mut Case, k: usize) {
    c.calls.truncate(k);
    if let Ret::Slot(j) = c.ret {
        if j >= k {
            c.ret = Ret::Const(0);
        }
    }
    // responses beyond the remaining interrupts are unused
}

fn check_case(mut c: Case, ctx: &mut Ctx) -> CheckResult {
    // cut the script before any call whose behaviour is not documented
    for _ in 0..64 {
        let exp = simulate(&c, None, None);
        if let Some(k) = exp.unspecified {
            ctx.class("cut-at-undocumented-call");
            truncate_case(&mut c, k);
            continue;
        }
        if exp.ret_unspecified {
            c.ret = Ret::Const(0);
            continue;
        }
        break;
    }
    ctx.describe(|| describe(&c));
    // linear memory never exceeds the declared maximum, nor the initial size plus everything the
    // script asks memory.grow for (see alloc.rs)
    let grown: u64 = c
        .calls
        .iter()
        .filter(|x| x.f == F::MemoryGrow)
        .map(|x| match x.args[0] {
            Arg::C(n) if (n as u32) <= 512 => n as u32 as u64,
            _ => 0,
        })
        .sum();
    let bound_pages = (c.init_pages as u64 + grown).min(c.max_pages.unwrap_or(512) as u64).min(512);
    alloc::set_dirty_bound(bound_pages as usize * 65536);
    let exp = simulate(&c, None, None);
    let dumpc = dump_call(&c, exp.m.mem.len() as u32);
    let e = emit(&c, &dumpc);
    let comp = run::compile(&c, &e);
    if !c.proto().upgrade && c.calls.iter().any(|x| x.f == F::Upgrade) {
        // `upgrade` exists from P5 on: earlier protocols must not accept a module that imports it
        ctx.class("upgrade-import-before-p5");
        vensure!(comp.is_err(), "upgrade-before-p5", "a module importing concordium.upgrade was accepted under the {} rules", c.proto().name);
        return Ok(());
    }
    let comp = match comp {
        Ok(x) => x,
        Err(err) => return Err(Violation::new("accepts-valid", format!("the script module was rejected: {err:#}"))),
    };

    // ---- classification ----
    let tag = format!("{}-{}", if c.ver == Ver::V0 { "v0" } else { "v1" }, if c.kind == Kind::Init { "init" } else { "receive" });
    ctx.class(&tag);
    ctx.class(c.proto().name);
    ctx.class(match exp.end {
        End::Success => "end-success",
        End::Reject(_) => "end-reject",
        End::Trap => "end-trap",
        End::Fail => "end-fail",
        End::BadReturn => "end-bad-return",
    });
    for d in &exp.done {
        ctx.class_n(&format!("fn:{}", d.f.name()), 1);
    }
    if let Some(k) = exp.failed_at {
        ctx.class_n(&format!("trap-in:{}", call_name(&c, k)), 1);
    }
    if !exp.interrupts.is_empty() {
        ctx.class("has-interrupt");
        if c.responses.iter().take(exp.interrupts.len()).any(|r| r.state_updated) {
            ctx.class("resume-state-updated");
        }
    }
    let hostile = exp.failed_at.is_some() || exp.m.f_refused_lock + exp.m.f_stale_use + exp.m.f_limit_hit > 0;
    if exp.m.f_refused_lock > 0 {
        ctx.class("lock-refusal");
    }
    if exp.m.f_stale_use > 0 {
        ctx.class("stale-handle-use");
    }
    if exp.m.f_limit_hit > 0 {
        ctx.class("limit-hit");
    }
    if exp.m.f_iter_yield > 0 {
        ctx.class("iterator-yield");
    }
    if exp.m.f_old_iter_used > 0 {
        ctx.class("old-iterator-after-update-without-entries");
    }
    if hostile {
        ctx.class("hostile-or-refused");
    }
    if hostile && exp.m.f_state_change > 0 {
        ctx.class("nontrivial");
        let mut h = std::collections::hash_map::DefaultHasher::new();
        c.hash(&mut h);
        ctx.nontrivial(&h.finish());
    }
    ctx.sample(|| {
        let mut s = describe(&c);
        s.push_str(&format!("=> model: {:?}, {} calls completed, {} interrupts", exp.end, exp.done.len(), exp.interrupts.len()));
        s
    });

    // ---- run 1: the script alone, ample energy ----
    let pure = run::run(&c, &e, &comp, &RunOpts { energy: AMPLE, amount: c.amount, stop_at_interrupt: false });
    compare("script run", &c, &exp, &pure)?;
    let facts = energy_lower_bounds(&c, &e, &exp, &pure, false, ctx);

    // ---- run 2: script + memory dump, on the artifact loaded back from its serialization ----
    let comp2 = match run::through_bytes(&comp) {
        Ok(x) => x,
        Err(err) => return Err(Violation::new("artifact-roundtrip", format!("serialized artifact does not load: {err:#}"))),
    };
    let exp_d = simulate(&c, Some(&dumpc), None);
    let dumped = run::run(&c, &e, &comp2, &RunOpts { energy: AMPLE, amount: 1, stop_at_interrupt: false });
    compare("dump run (stored artifact)", &c, &exp_d, &dumped)?;
    if matches!(exp_d.end, End::Success) {
        ctx.class("memory-compared");
    }
    // the known undercharge (if any) is raised only after all other oracles of the ample runs
    let facts = facts?;

    // ---- exact budget: T succeeds identically with nothing left, T-1 runs out of energy ----
    if let Some(t) = facts.total {
        if t > 0 {
            let again = run::run(&c, &e, &comp, &RunOpts { energy: t, amount: c.amount, stop_at_interrupt: false });
            compare("run with exactly the consumed energy", &c, &exp, &again)?;
            let rem = match again.outcome.as_ref().unwrap() {
                Outcome::Success { remaining } | Outcome::Reject { remaining, .. } => Some(*remaining),
                Outcome::Trap { remaining, .. } => *remaining,
                _ => None,
            };
            vensure!(rem == Some(0), "budget-exact", "with a budget equal to the energy consumed before ({}) the run leaves {:?}", t, rem);
            let less = run::run(&c, &e, &comp, &RunOpts { energy: t - 1, amount: c.amount, stop_at_interrupt: false });
            vensure!(
                less.outcome == Some(Outcome::OutOfEnergy),
                "budget-minus-one",
                "with one unit less than the {} energy the run needs it ends as {:?} instead of out-of-energy",
                t,
                less.outcome
            );
            ctx.class("budget-exact-checked");
        }
    }

    // ---- charge boundary of one completed call ----
    if !exp.done.is_empty() {
        let candidates: Vec<usize> = (0..exp.done.len())
            .filter(|&i| exp.done[i].f != F::MemoryGrow && exp.done[i].charge.first > 0 && (0..i).all(|j| facts.actual[j].is_some()))
            .collect();
        if !candidates.is_empty() && (facts.exact || c.ver == Ver::V1) {
            let i = candidates[c.pick as usize % candidates.len()];
            let d = &exp.done[i];
            let before: u64 = e.entry_cost + e.instr_cost_at_call(d.call) + (0..i).map(|j| facts.actual[j].unwrap()).sum::<u64>();
            let budget = before + d.charge.first - 1;
            let r = run::run(&c, &e, &comp, &RunOpts { energy: budget, amount: c.amount, stop_at_interrupt: false });
            if r.outcome != Some(Outcome::OutOfEnergy) {
                return Err(Violation::new(
                    "charge-boundary",
                    format!(
                        "with a budget of {} (= {} consumed when call r{} {} is entered + its scheduled charge {} - 1) the run ends as {:?} instead of out-of-energy",
                        budget,
                        before,
                        d.call,
                        d.f.name(),
                        d.charge.first,
                        r.outcome
                    ),
                )
                .with_signature(format!("charge-boundary:{}", d.f.name())));
            }
            ctx.class("charge-boundary-checked");
            // v1 receive: the failing call must not have touched the instance state
            if c.ver == Ver::V1 && c.kind == Kind::Receive && r.interrupts.len() == d.section {
                let prefix = simulate(&c, None, Some(d.call));
                let want: Vec<(Vec<u8>, Vec<u8>)> = prefix.m.map.iter().map(|(k, v)| (k.clone(), v.clone())).collect();
                let got = r.state_v1.as_ref().expect("state");
                if *got != want {
                    return Err(Violation::new(
                        "effect-before-charge",
                        format!(
                            "call r{} {} ran out of energy at its first charge, yet the instance state differs from the state before the call: {:?} vs {:?}",
                            d.call,
                            d.f.name(),
                            got.iter().map(|(k, v)| format!("{}:{}B", g::hex(k), v.len())).collect::<Vec<_>>(),
                            want.iter().map(|(k, v)| format!("{}:{}B", g::hex(k), v.len())).collect::<Vec<_>>()
                        ),
                    )
                    .with_signature(format!("effect-before-charge:{}", d.f.name())));
                }
                ctx.class("no-effect-before-charge-checked");
            }
        }
    }
    Ok(())
}

fn t_v0(data: &[u8], ctx: &mut Ctx) -> CheckResult {
    let mut u = Unstructured::new(data);
    let c = decode(&mut u, Ver::V0);
    check_case(c, ctx)
}

fn t_v1(data: &[u8], ctx: &mut Ctx) -> CheckResult {
    let mut u = Unstructured::new(data);
    let c = decode(&mut u, Ver::V1);
    check_case(c, ctx)
}

pub fn property() -> Property {
    Property {
        id: "C14",
        rule: "host-call scripts: a decoded list of host calls (function + argument values, pointers/lengths/offsets/handles/tags drawn from hostile boundary tables and from valid regions of a prepared memory image) for a v0 or v1 init/receive entrypoint under the P4..P7 parameter sets, compiled with our own Wasm encoder into a module that performs the calls in order and stores every result in a table in linear memory. The module runs through the public v0/v1 invoke/resume API (metered, both cost schedules) and is compared with a reference model of the documented host interface: outcome, result table and all of linear memory (dumped through state / return value in a second run on the artifact loaded back from bytes), state, logs, actions, return value, interrupts and their payloads, handle validity across resumes. Energy: per-call lower bounds from constants.rs, exact-budget and budget-minus-one re-runs, and a re-run that stops one unit short of a chosen call's scheduled charge. Non-trivial = the script contains a hostile/refused/trapping call and at least one successful state-changing call; distinct by the decoded case.",
        assumptions: &[
            "the secp256k1 library is replaced by a stand-in whose verification always fails: only memory-safety, charging and trapping of verify_ecdsa_secp256k1_signature are claimed, never a positive result",
            "ed25519 verification is the stand-in over ed25519-dalek; the model uses the same library, so only the plumbing of the host function is decided",
            "handle values follow the encoding documented at InstanceStateEntry (generation in the high, running index in the low 32 bits)",
            "lengths are never drawn from (2^26, 2^31-2): there the documented cost of state_create_entry is neither clearly below nor above the ample budget",
            "calls whose result the documentation leaves open (current key of an iterator before its first / after its last element; entry_resize beyond the maximum on an invalidated handle; positive return codes of v1 receive) are cut from the script",
            "entry sizes near 2^30 are only probed from above (2^30+1 and larger are refused); growing an entry to 2^30 bytes is not executed",
        ],
        targets: vec![
            Target::new("v0", t_v0).len(64, 1024).cases(700_000, 14_000_000).shrink_iters(1500).floors(&[
                ("nontrivial", 0.08),
                ("memory-compared", 0.10),
                ("limit-hit", 0.06),
                ("charge-boundary-checked", 0.08),
                ("budget-exact-checked", 0.12),
                ("fn:write_state", 0.1),
                ("fn:load_state", 0.1),
                ("fn:resize_state", 0.1),
                ("fn:state_size", 0.05),
                ("fn:log_event", 0.1),
                ("fn:get_parameter_section", 0.1),
                ("fn:get_parameter_size", 0.05),
                ("fn:get_policy_section", 0.05),
                ("fn:get_slot_time", 0.05),
                ("fn:get_init_origin", 0.05),
                ("fn:accept", 0.05),
                ("fn:simple_transfer", 0.05),
                ("fn:send", 0.05),
                ("fn:combine_and", 0.015),
                ("fn:combine_or", 0.015),
                ("fn:get_receive_invoker", 0.03),
                ("fn:get_receive_self_address", 0.03),
                ("fn:get_receive_self_balance", 0.03),
                ("fn:get_receive_sender", 0.03),
                ("fn:get_receive_owner", 0.03),
                ("fn:memory.grow", 0.05),
            ]),
            Target::new("v1", t_v1).len(64, 1536).cases(1_500_000, 30_000_000).shrink_iters(1500).floors(&[
                ("nontrivial", 0.15),
                ("memory-compared", 0.15),
                ("has-interrupt", 0.04),
                ("resume-state-updated", 0.015),
                ("old-iterator-after-update-without-entries", 0.015),
                ("iterator-yield", 0.02),
                ("lock-refusal", 0.01),
                ("stale-handle-use", 0.1),
                ("charge-boundary-checked", 0.25),
                ("no-effect-before-charge-checked", 0.12),
                ("budget-exact-checked", 0.3),
                ("fn:state_create_entry", 0.3),
                ("fn:state_lookup_entry", 0.05),
                ("fn:state_delete_entry", 0.05),
                ("fn:state_delete_prefix", 0.03),
                ("fn:state_iterate_prefix", 0.05),
                ("fn:state_iterator_next", 0.1),
                ("fn:state_iterator_delete", 0.04),
                ("fn:state_iterator_key_size", 0.04),
                ("fn:state_iterator_key_read", 0.04),
                ("fn:state_entry_read", 0.1),
                ("fn:state_entry_write", 0.2),
                ("fn:state_entry_size", 0.1),
                ("fn:state_entry_resize", 0.1),
                ("fn:write_output", 0.05),
                ("fn:get_parameter_section", 0.05),
                ("fn:get_parameter_size", 0.02),
                ("fn:get_policy_section", 0.02),
                ("fn:log_event", 0.1),
                ("fn:get_slot_time", 0.02),
                ("fn:get_init_origin", 0.05),
                ("fn:invoke", 0.05),
                ("fn:upgrade", 0.012),
                ("fn:get_receive_invoker", 0.015),
                ("fn:get_receive_self_address", 0.015),
                ("fn:get_receive_self_balance", 0.015),
                ("fn:get_receive_sender", 0.012),
                ("fn:get_receive_owner", 0.015),
                ("fn:get_receive_entrypoint_size", 0.015),
                ("fn:get_receive_entrypoint", 0.015),
                ("fn:hash_sha2_256", 0.02),
                ("fn:hash_sha3_256", 0.02),
                ("fn:hash_keccak_256", 0.02),
                ("fn:verify_ed25519_signature", 0.02),
                ("fn:verify_ecdsa_secp256k1_signature", 0.02),
                ("fn:memory.grow", 0.02),
            ]),
            Target::new("depth", extra::t_depth).len(8, 32).cases(3_000, 60_000).floors(&[("depth-inside", 0.15), ("depth-outside", 0.1)]),
            Target::new("alloc", extra::t_alloc).len(8, 48).cases(3_000, 60_000),
        ],
    }
}
