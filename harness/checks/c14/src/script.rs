//! Host-call scripts: the decoded case (environment + list of host calls with argument values)
//! and its generator. Everything here is harness-side; nothing is shared with `/repo`.
use vcore::{gen as g, Unstructured};
use wasmgen::ast::ValType;

#[derive(Debug, Clone, Copy, PartialEq, Eq, Hash)]
pub enum Ver {
    V0,
    V1,
}

#[derive(Debug, Clone, Copy, PartialEq, Eq, Hash)]
pub enum Kind {
    Init,
    Receive,
}

/// Protocol parameter sets (documented at `ReceiveParams::new_p4 .. new_p7`).
#[derive(Debug, Clone, Copy, PartialEq, Eq, Hash)]
pub struct Proto {
    pub name:      &'static str,
    pub limit:     bool,
    pub max_param: usize,
    pub queries:   bool,
    pub sigs:      bool,
    pub inspect:   bool,
    pub upgrade:   bool,
}

pub const PROTOS: [Proto; 4] = [
    Proto { name: "P4", limit: true, max_param: 1024, queries: false, sigs: false, inspect: false, upgrade: false },
    Proto { name: "P5", limit: false, max_param: 65535, queries: true, sigs: false, inspect: false, upgrade: true },
    Proto { name: "P6", limit: false, max_param: 65535, queries: true, sigs: true, inspect: false, upgrade: true },
    Proto { name: "P7", limit: false, max_param: 65535, queries: true, sigs: true, inspect: true, upgrade: true },
];

/// Host functions (both contract versions) plus the Wasm-level pseudo call `memory.grow`.
#[derive(Debug, Clone, Copy, PartialEq, Eq, Hash, PartialOrd, Ord)]
pub enum F {
    GetParameterSize,
    GetParameterSection,
    GetPolicySection,
    LogEvent,
    GetSlotTime,
    GetInitOrigin,
    GetReceiveInvoker,
    GetReceiveSelfAddress,
    GetReceiveSelfBalance,
    GetReceiveSender,
    GetReceiveOwner,
    // v0 only
    LoadState,
    WriteState,
    ResizeState,
    StateSize,
    Accept,
    SimpleTransfer,
    Send,
    CombineAnd,
    CombineOr,
    // v1 only
    Invoke,
    Upgrade,
    WriteOutput,
    GetReceiveEntrypointSize,
    GetReceiveEntrypoint,
    StateLookupEntry,
    StateCreateEntry,
    StateDeleteEntry,
    StateDeletePrefix,
    StateIteratePrefix,
    StateIteratorNext,
    StateIteratorDelete,
    StateIteratorKeySize,
    StateIteratorKeyRead,
    StateEntryRead,
    StateEntryWrite,
    StateEntrySize,
    StateEntryResize,
    VerifyEd25519,
    VerifySecp256k1,
    HashSha2,
    HashSha3,
    HashKeccak,
    // pseudo
    MemoryGrow,
}

use ValType::{I32, I64};

impl F {
    pub fn name(self) -> &'static str {
        match self {
            F::GetParameterSize => "get_parameter_size",
            F::GetParameterSection => "get_parameter_section",
            F::GetPolicySection => "get_policy_section",
            F::LogEvent => "log_event",
            F::GetSlotTime => "get_slot_time",
            F::GetInitOrigin => "get_init_origin",
            F::GetReceiveInvoker => "get_receive_invoker",
            F::GetReceiveSelfAddress => "get_receive_self_address",
            F::GetReceiveSelfBalance => "get_receive_self_balance",
            F::GetReceiveSender => "get_receive_sender",
            F::GetReceiveOwner => "get_receive_owner",
            F::LoadState => "load_state",
            F::WriteState => "write_state",
            F::ResizeState => "resize_state",
            F::StateSize => "state_size",
            F::Accept => "accept",
            F::SimpleTransfer => "simple_transfer",
            F::Send => "send",
            F::CombineAnd => "combine_and",
            F::CombineOr => "combine_or",
            F::Invoke => "invoke",
            F::Upgrade => "upgrade",
            F::WriteOutput => "write_output",
            F::GetReceiveEntrypointSize => "get_receive_entrypoint_size",
            F::GetReceiveEntrypoint => "get_receive_entrypoint",
            F::StateLookupEntry => "state_lookup_entry",
            F::StateCreateEntry => "state_create_entry",
            F::StateDeleteEntry => "state_delete_entry",
            F::StateDeletePrefix => "state_delete_prefix",
            F::StateIteratePrefix => "state_iterate_prefix",
            F::StateIteratorNext => "state_iterator_next",
            F::StateIteratorDelete => "state_iterator_delete",
            F::StateIteratorKeySize => "state_iterator_key_size",
            F::StateIteratorKeyRead => "state_iterator_key_read",
            F::StateEntryRead => "state_entry_read",
            F::StateEntryWrite => "state_entry_write",
            F::StateEntrySize => "state_entry_size",
            F::StateEntryResize => "state_entry_resize",
            F::VerifyEd25519 => "verify_ed25519_signature",
            F::VerifySecp256k1 => "verify_ecdsa_secp256k1_signature",
            F::HashSha2 => "hash_sha2_256",
            F::HashSha3 => "hash_sha3_256",
            F::HashKeccak => "hash_keccak_256",
            F::MemoryGrow => "memory.grow",
        }
    }

    /// The import type required by the `validate_import_function` tables of the two versions.
    pub fn sig(self, ver: Ver) -> (&'static [ValType], Option<ValType>) {
        match self {
            F::GetParameterSize => match ver {
                Ver::V0 => (&[], Some(I32)),
                Ver::V1 => (&[I32], Some(I32)),
            },
            F::GetParameterSection => match ver {
                Ver::V0 => (&[I32, I32, I32], Some(I32)),
                Ver::V1 => (&[I32, I32, I32, I32], Some(I32)),
            },
            F::GetPolicySection => (&[I32, I32, I32], Some(I32)),
            F::LogEvent => (&[I32, I32], Some(I32)),
            F::GetSlotTime => (&[], Some(I64)),
            F::GetInitOrigin | F::GetReceiveInvoker | F::GetReceiveSelfAddress | F::GetReceiveSender | F::GetReceiveOwner => {
                (&[I32], None)
            }
            F::GetReceiveSelfBalance => (&[], Some(I64)),
            F::LoadState | F::WriteState => (&[I32, I32, I32], Some(I32)),
            F::ResizeState => (&[I32], Some(I32)),
            F::StateSize => (&[], Some(I32)),
            F::Accept => (&[], Some(I32)),
            F::SimpleTransfer => (&[I32, I64], Some(I32)),
            F::Send => (&[I64, I64, I32, I32, I64, I32, I32], Some(I32)),
            F::CombineAnd | F::CombineOr => (&[I32, I32], Some(I32)),
            F::Invoke => (&[I32, I32, I32], Some(I64)),
            F::Upgrade => (&[I32], Some(I64)),
            F::WriteOutput => (&[I32, I32, I32], Some(I32)),
            F::GetReceiveEntrypointSize => (&[], Some(I32)),
            F::GetReceiveEntrypoint => (&[I32], None),
            F::StateLookupEntry | F::StateCreateEntry | F::StateIteratePrefix => (&[I32, I32], Some(I64)),
            F::StateDeleteEntry | F::StateDeletePrefix => (&[I32, I32], Some(I32)),
            F::StateIteratorNext => (&[I64], Some(I64)),
            F::StateIteratorDelete | F::StateIteratorKeySize | F::StateEntrySize => (&[I64], Some(I32)),
            F::StateIteratorKeyRead | F::StateEntryRead | F::StateEntryWrite => (&[I64, I32, I32, I32], Some(I32)),
            F::StateEntryResize => (&[I64, I32], Some(I32)),
            F::VerifyEd25519 => (&[I32, I32, I32, I32], Some(I32)),
            F::VerifySecp256k1 => (&[I32, I32, I32], Some(I32)),
            F::HashSha2 | F::HashSha3 | F::HashKeccak => (&[I32, I32, I32], None),
            F::MemoryGrow => (&[I32], Some(I32)),
        }
    }
}

#[derive(Debug, Clone, Copy, PartialEq, Eq, Hash)]
pub enum Arg {
    /// a constant
    C(u64),
    /// the value stored in the result slot of an earlier call (loaded at run time)
    R(usize),
}

#[derive(Debug, Clone, PartialEq, Eq, Hash)]
pub struct Call {
    pub f:    F,
    pub args: Vec<Arg>,
}

#[derive(Debug, Clone, Copy, PartialEq, Eq, Hash)]
pub enum Ret {
    Const(i32),
    Slot(usize),
}

#[derive(Debug, Clone, PartialEq, Eq, Hash)]
pub enum RespKind {
    /// success; `data` is the return value (None for transfers / upgrades)
    Success { data: Option<Vec<u8>>, new_balance: u64 },
    /// contract rejected with a negative code and data
    Reject { code: i32, data: Vec<u8> },
    /// environment failure 1..=11 as enumerated in `InvokeFailure`
    Env(u8),
}

/// Scripted answer to the i-th interrupt of a case.
#[derive(Debug, Clone, PartialEq, Eq, Hash)]
pub struct Resp {
    pub kind:          RespKind,
    /// the instance's own state was modified while the operation was handled (re-entrancy)
    pub state_updated: bool,
    /// modifications applied to the state in that case: (key, Some(value)) insert / (key, None) delete
    pub mods:          Vec<(Vec<u8>, Option<Vec<u8>>)>,
}

#[derive(Debug, Clone, PartialEq, Eq, Hash)]
pub struct Case {
    pub ver:            Ver,
    pub kind:           Kind,
    pub proto:          usize,
    pub cost_v1:        bool,
    pub param:          Vec<u8>,
    pub policy:         Vec<u8>,
    pub seed:           u8,
    pub sender_contract: bool,
    pub init_pages:     u32,
    pub max_pages:      Option<u32>,
    pub state0_v0:      Vec<u8>,
    pub state0_v1:      Vec<(Vec<u8>, Vec<u8>)>,
    pub blobs:          Vec<(u32, Vec<u8>)>,
    pub calls:          Vec<Call>,
    pub ret:            Ret,
    pub responses:      Vec<Resp>,
    /// which 16 KiB quarter of the first page the dump run exposes (v0, and v1 under the P4 limit)
    pub dump_q:         u32,
    /// selects the call whose charge boundary is probed
    pub pick:           u8,
    pub amount:         u64,
}

impl Case {
    pub fn proto(&self) -> &'static Proto { &PROTOS[self.proto] }
}

// ------------------------------------------------------------------------------------------
// Memory map of generated modules (first page)

pub const PAGE: u32 = 65536;
pub const RES_BASE: u32 = 0x100;
pub const MAX_CALLS: usize = 96;
pub const KEY_BASE: u32 = 0x400;
pub const KEY_SLOT: u32 = 16;
pub const NUM_KEYS: usize = 10;
pub const LONGKEY_BASE: u32 = 0x800;
pub const DATA_BASE: u32 = 0x1000;
pub const DATA_LEN: u32 = 0x1000;
pub const SCRATCH_BASE: u32 = 0x2000;
pub const BLOB_BASE: u32 = 0x3000;
pub const SIG_BASE: u32 = 0x3800;

pub const ALPHABET: [u8; 7] = [0x00, 0x01, 0x0f, 0x10, 0x11, 0xf0, 0xff];

pub fn pattern(seed: u8, n: usize) -> Vec<u8> { (0..n).map(|i| (i as u32).wrapping_mul(7).wrapping_add(seed as u32).wrapping_add((i as u32) >> 8) as u8).collect() }

pub const NONE64: u64 = u64::MAX;
pub const ERR64: u64 = u64::MAX & !(1u64 << 62);

struct Gen<'a, 'b> {
    u:        &'a mut Unstructured<'b>,
    ver:      Ver,
    kind:     Kind,
    proto:    &'static Proto,
    mem:      u32,
    /// (addr, len) of the key blobs
    keys:     Vec<(u32, u32)>,
    /// (addr, len) of prepared invoke payloads by tag
    payloads: Vec<(u32, u32, u32)>,
    names:    Vec<(u32, u32)>,
    entry_slots: Vec<usize>,
    iter_slots:  Vec<usize>,
    action_slots: Vec<usize>,
    param_len: u32,
    invokes:  usize,
    /// probability (out of 256) that an argument group is drawn from the hostile tables
    level:    u32,
    /// position in the script, 0..=255
    progress: u32,
    /// estimates of the current v0 state / return value length (to draw valid offsets)
    v0_len:   u32,
    rv_len:   u32,
    policy_len: u32,
    /// pool keys that (probably) exist in the state
    created:  Vec<usize>,
    /// follow-up calls of a scenario (iterator life cycle, use of a fresh entry), emitted next
    pending:  std::collections::VecDeque<Call>,
}

impl Gen<'_, '_> {
    fn hostile(&mut self) -> bool { (g::byte(self.u) as u32) < self.level }

    fn small_len(&mut self) -> u32 {
        match g::byte(self.u) % 8 {
            0 => 0,
            1 => 1,
            2 => 32,
            3 => 8,
            4 => g::range_u64(self.u, 0, 64) as u32,
            5 => g::range_u64(self.u, 0, 600) as u32,
            6 => 512,
            _ => 16,
        }
    }

    /// A length from the hostile table (never inside the band (2^26, 2^31-2), see NOTES).
    fn hostile_len(&mut self) -> u32 {
        let mem = self.mem;
        match g::byte(self.u) % 12 {
            0 => mem - 1,
            1 => mem,
            2 => mem + 1,
            3 => 1 << 31,
            4 => u32::MAX,
            5 => (1 << 31) - 1,
            6 => 1 << 26,
            7 => 16384,
            8 => 16385,
            9 => 513,
            10 => 65535,
            _ => 1025,
        }
    }

    fn hostile_ptr(&mut self) -> u32 {
        let mem = self.mem;
        match g::byte(self.u) % 12 {
            0 => 0,
            1 => 1,
            2 => mem - 1,
            3 => mem,
            4 => mem + 1,
            5 => 1 << 31,
            6 => u32::MAX,
            7 => mem - 32,
            8 => mem - 33,
            9 => mem - 31,
            10 => RES_BASE,
            _ => g::u32v(self.u),
        }
    }

    /// A source region (pointer, length): inside the patterned data area or touching the end of
    /// memory, or (hostile) reaching outside memory.
    fn src_region(&mut self, want: Option<u32>) -> (u32, u32) {
        let mem = self.mem;
        if !self.hostile() {
            match g::byte(self.u) % 16 {
                0..=12 => {
                    let len = match want {
                        Some(w) if g::ratio(self.u, 3, 4) => w,
                        _ => self.small_len(),
                    };
                    let off = g::range_u64(self.u, 0, 64) as u32;
                    (DATA_BASE + off, len)
                }
                13 | 14 => {
                    let len = self.small_len();
                    (mem - len, len)
                }
                _ => (mem, 0),
            }
        } else {
            match g::byte(self.u) % 8 {
                0 | 1 => {
                    let len = self.small_len().max(1);
                    (mem - len + 1, len)
                }
                2 => (mem + 1, 0),
                3 => (self.hostile_ptr(), self.small_len()),
                4 => (DATA_BASE, self.hostile_len()),
                5 => (u32::MAX, g::range_u64(self.u, 0, 1) as u32),
                6 => (mem, 1),
                _ => (self.hostile_ptr(), self.hostile_len()),
            }
        }
    }

    /// A destination region: mostly inside the scratch area.
    fn dst_region(&mut self, want: Option<u32>) -> (u32, u32) {
        let (p, l) = self.src_region(want);
        if (DATA_BASE..=DATA_BASE + 64).contains(&p) {
            (p - DATA_BASE + SCRATCH_BASE + 8 * (g::byte(self.u) as u32 % 64), l)
        } else {
            (p, l)
        }
    }

    fn dst_ptr(&mut self, size: u32) -> u32 {
        let mem = self.mem;
        if !self.hostile() {
            match g::byte(self.u) % 8 {
                0..=5 => SCRATCH_BASE + 8 * (g::byte(self.u) as u32),
                6 => mem - size,
                _ => mem - size - 1,
            }
        } else {
            match g::byte(self.u) % 6 {
                0 => mem - size + 1,
                1 => mem,
                2 => mem - 1,
                _ => self.hostile_ptr(),
            }
        }
    }

    fn offset(&mut self, around: u32) -> u32 {
        if !self.hostile() {
            match g::byte(self.u) % 8 {
                0..=3 => 0,
                4 => 1.min(around),
                5 => around,
                6 => around.saturating_sub(1),
                _ => (g::range_u64(self.u, 0, 40) as u32).min(around),
            }
        } else {
            match g::byte(self.u) % 8 {
                0 => around.wrapping_add(1),
                1 => 16384,
                2 => 16383,
                3 => 16385,
                4 => u32::MAX,
                5 => 1 << 31,
                6 => around.wrapping_add(2),
                _ => g::range_u64(self.u, 0, 600) as u32,
            }
        }
    }

    fn key_region(&mut self, f: F) -> (u32, u32) {
        if self.hostile() {
            return self.src_region(None);
        }
        let existing = f != F::StateCreateEntry && !self.created.is_empty();
        match g::byte(self.u) % 16 {
            0..=8 if existing => {
                let i = *g::choose(self.u, &self.created);
                if f == F::StateDeleteEntry {
                    self.created.retain(|x| *x != i);
                }
                self.keys[i]
            }
            9 | 10 if existing => {
                // a (possibly improper) prefix of an existing key
                let (a, l) = self.keys[*g::choose(self.u, &self.created)];
                (a, g::range_u64(self.u, 0, l as u64) as u32)
            }
            0..=11 => {
                let i = g::idx(self.u, self.keys.len());
                if f == F::StateCreateEntry && !self.created.contains(&i) {
                    self.created.push(i);
                }
                self.keys[i]
            }
            12 => {
                let (a, l) = *g::choose(self.u, &self.keys);
                (a, g::range_u64(self.u, 0, l as u64) as u32)
            }
            13 => (LONGKEY_BASE, g::range_u64(self.u, 60, 300) as u32),
            14 => (KEY_BASE, 0),
            _ => (DATA_BASE + g::byte(self.u) as u32, g::range_u64(self.u, 0, 5) as u32),
        }
    }

    fn entry_handle(&mut self) -> Arg {
        if !self.entry_slots.is_empty() && !self.hostile() {
            Arg::R(*g::choose(self.u, &self.entry_slots))
        } else {
            self.bad_handle()
        }
    }

    fn iter_handle(&mut self) -> Arg {
        if !self.iter_slots.is_empty() && !self.hostile() {
            Arg::R(*g::choose(self.u, &self.iter_slots))
        } else {
            self.bad_handle()
        }
    }

    fn bad_handle(&mut self) -> Arg {
        match g::byte(self.u) % 10 {
            0 => Arg::C(NONE64),
            1 => Arg::C(ERR64),
            2 => Arg::C(0),
            3 => Arg::C(1),
            4 => Arg::C(1 << 32),
            5 => Arg::C(1 << 63),
            6 => Arg::C((7 << 32) | 1),
            7 => Arg::C(0xffff_fff0),
            8 if !self.iter_slots.is_empty() => Arg::R(*g::choose(self.u, &self.iter_slots)),
            8 | 9 if !self.entry_slots.is_empty() => Arg::R(*g::choose(self.u, &self.entry_slots)),
            _ => Arg::C(g::boundary_u64(self.u)),
        }
    }

    fn action_idx(&mut self) -> Arg {
        if !self.action_slots.is_empty() && !self.hostile() {
            Arg::R(*g::choose(self.u, &self.action_slots))
        } else {
            Arg::C(*g::choose(self.u, &[0u64, 1, 2, 63, u32::MAX as u64, 1 << 31]))
        }
    }

    fn c32(v: u32) -> Arg { Arg::C(v as u64) }

    fn pick_function(&mut self) -> F {
        let b = g::byte(self.u);
        match self.ver {
            Ver::V0 => {
                let common = [
                    F::WriteState,
                    F::WriteState,
                    F::LoadState,
                    F::LoadState,
                    F::ResizeState,
                    F::ResizeState,
                    F::StateSize,
                    F::LogEvent,
                    F::LogEvent,
                    F::GetParameterSection,
                    F::GetParameterSection,
                    F::GetParameterSize,
                    F::GetPolicySection,
                    F::GetSlotTime,
                    F::MemoryGrow,
                ];
                let init = [F::GetInitOrigin, F::GetInitOrigin];
                let recv = [
                    F::Accept,
                    F::SimpleTransfer,
                    F::SimpleTransfer,
                    F::Send,
                    F::Send,
                    F::CombineAnd,
                    F::CombineOr,
                    F::GetReceiveInvoker,
                    F::GetReceiveSelfAddress,
                    F::GetReceiveSelfBalance,
                    F::GetReceiveSender,
                    F::GetReceiveOwner,
                ];
                // now and then a function of the other entrypoint kind (must trap)
                let cross = b % 8 == 7 && self.hostile();
                let own_init = (self.kind == Kind::Init) != cross;
                let n = common.len() + if own_init { init.len() } else { recv.len() };
                let i = g::idx(self.u, n);
                if i < common.len() {
                    common[i]
                } else if own_init {
                    init[i - common.len()]
                } else {
                    recv[i - common.len()]
                }
            }
            Ver::V1 => {
                let state = [
                    F::StateCreateEntry,
                    F::StateCreateEntry,
                    F::StateCreateEntry,
                    F::StateLookupEntry,
                    F::StateLookupEntry,
                    F::StateDeleteEntry,
                    F::StateDeleteEntry,
                    F::StateDeletePrefix,
                    F::StateIteratePrefix,
                    F::StateIteratePrefix,
                    F::StateIteratorNext,
                    F::StateIteratorNext,
                    F::StateIteratorNext,
                    F::StateIteratorDelete,
                    F::StateIteratorKeySize,
                    F::StateIteratorKeyRead,
                    F::StateEntryRead,
                    F::StateEntryRead,
                    F::StateEntryWrite,
                    F::StateEntryWrite,
                    F::StateEntryWrite,
                    F::StateEntrySize,
                    F::StateEntryResize,
                    F::StateEntryResize,
                ];
                let other = [
                    F::WriteOutput,
                    F::WriteOutput,
                    F::GetParameterSection,
                    F::GetParameterSection,
                    F::GetParameterSize,
                    F::GetPolicySection,
                    F::LogEvent,
                    F::LogEvent,
                    F::GetSlotTime,
                    F::HashSha2,
                    F::HashSha3,
                    F::HashKeccak,
                    F::VerifyEd25519,
                    F::VerifySecp256k1,
                    F::MemoryGrow,
                ];
                let init = [F::GetInitOrigin];
                let recv = [
                    F::Invoke,
                    F::Invoke,
                    F::Invoke,
                    F::Upgrade,
                    F::GetReceiveInvoker,
                    F::GetReceiveSelfAddress,
                    F::GetReceiveSelfBalance,
                    F::GetReceiveSender,
                    F::GetReceiveOwner,
                    F::GetReceiveEntrypointSize,
                    F::GetReceiveEntrypoint,
                ];
                let cross = b % 8 == 7 && self.hostile();
                let own_init = (self.kind == Kind::Init) != cross;
                // scripts populate the state first and iterate / read later
                if self.progress < 90 && b % 2 == 0 {
                    return F::StateCreateEntry;
                }
                let r = b % 8;
                if r < 4 {
                    *g::choose(self.u, &state)
                } else if r < 6 {
                    *g::choose(self.u, &other)
                } else if own_init {
                    if g::boolean(self.u) {
                        *g::choose(self.u, &init)
                    } else {
                        *g::choose(self.u, &other)
                    }
                } else {
                    let f = *g::choose(self.u, &recv);
                    // before P5 a module importing `upgrade` is not accepted at all
                    if f == F::Upgrade && !self.proto.upgrade && !self.hostile() {
                        F::Invoke
                    } else {
                        f
                    }
                }
            }
        }
    }

    fn gen_call(&mut self, slot: usize) -> Call {
        let mut f = self.pick_function();
        if matches!(f, F::CombineAnd | F::CombineOr) && self.action_slots.is_empty() && !self.hostile() {
            f = F::Accept;
        }
        let c = Self::c32;
        let args: Vec<Arg> = match f {
            F::GetParameterSize => match self.ver {
                Ver::V0 => vec![],
                Ver::V1 => vec![self.param_idx()],
            },
            F::GetParameterSection => {
                let want = if g::boolean(self.u) { Some(self.param_len.min(2048)) } else { None };
                let (p, l) = self.dst_region(want);
                let pl = self.param_len;
                let o = self.offset(pl);
                match self.ver {
                    Ver::V0 => vec![c(p), c(l), c(o)],
                    Ver::V1 => vec![self.param_idx(), c(p), c(l), c(o)],
                }
            }
            F::GetPolicySection => {
                let (p, l) = self.dst_region(None);
                let pl = self.policy_len;
                let o = self.offset(pl);
                vec![c(p), c(l), c(o)]
            }
            F::LogEvent => {
                let want = *g::choose(self.u, &[0u32, 1, 17, 511, 512, 513]);
                let (p, l) = self.src_region(Some(want));
                vec![c(p), c(l)]
            }
            F::GetSlotTime | F::GetReceiveSelfBalance | F::StateSize | F::Accept | F::GetReceiveEntrypointSize => vec![],
            F::GetInitOrigin | F::GetReceiveInvoker | F::GetReceiveOwner => vec![c(self.dst_ptr(32))],
            F::GetReceiveSelfAddress => vec![c(self.dst_ptr(16))],
            F::GetReceiveSender => {
                let sz = *g::choose(self.u, &[33u32, 17, 32, 16]);
                vec![c(self.dst_ptr(sz))]
            }
            F::GetReceiveEntrypoint => vec![c(self.dst_ptr(5))],
            F::LoadState => {
                let (p, l) = self.dst_region(None);
                let cur = self.v0_len;
                let o = self.offset(cur);
                vec![c(p), c(l), c(o)]
            }
            F::WriteState => {
                let (p, l) = self.src_region(None);
                let cur = self.v0_len;
                let o = self.offset(cur);
                if o <= cur && (p as u64 + l as u64) <= self.mem as u64 {
                    self.v0_len = cur.max((o as u64 + l as u64).min(16384) as u32);
                }
                vec![c(p), c(l), c(o)]
            }
            F::ResizeState => {
                let n = *g::choose(self.u, &[0u32, 1, 64, 100, 4096, 16383, 16384, 16384, 16385, 1 << 31, u32::MAX, 20000]);
                if n <= 16384 {
                    self.v0_len = n;
                }
                vec![c(n)]
            }
            F::SimpleTransfer => {
                let p = if self.hostile() {
                    self.hostile_ptr()
                } else if g::ratio(self.u, 1, 4) {
                    self.mem - 32
                } else {
                    DATA_BASE + 8 * (g::byte(self.u) as u32 % 16)
                };
                vec![c(p), Arg::C(g::boundary_u64(self.u))]
            }
            F::Send => {
                let (np, nl) = if self.hostile() {
                    if g::boolean(self.u) {
                        *g::choose(self.u, &self.names)
                    } else {
                        self.src_region(Some(7))
                    }
                } else {
                    // the valid names: "c.r", "other.entry", the 100 character name
                    *g::choose(self.u, &[self.names[0], self.names[1], self.names[5]])
                };
                let (pp, pl) = match g::byte(self.u) % 8 {
                    0 => (DATA_BASE, self.proto.max_param as u32),
                    1 if self.hostile() => (DATA_BASE, self.proto.max_param as u32 + 1),
                    2 if self.hostile() => (0, PAGE),
                    _ => self.src_region(None),
                };
                vec![Arg::C(g::boundary_u64(self.u)), Arg::C(g::boundary_u64(self.u)), c(np), c(nl), Arg::C(g::boundary_u64(self.u)), c(pp), c(pl)]
            }
            F::CombineAnd | F::CombineOr => vec![self.action_idx(), self.action_idx()],
            F::Invoke => {
                self.invokes += 1;
                let supported: &[u32] = if self.proto.inspect {
                    &[0, 1, 1, 2, 3, 4, 5, 6, 7, 8]
                } else if self.proto.sigs {
                    &[0, 1, 1, 2, 3, 4, 5, 6]
                } else if self.proto.queries {
                    &[0, 1, 1, 2, 3, 4]
                } else {
                    &[0, 1]
                };
                let hostile = self.hostile();
                let tag = if hostile {
                    match g::byte(self.u) % 4 {
                        0 => g::byte(self.u) as u32 % 11,
                        1 => u32::MAX,
                        _ => *g::choose(self.u, supported),
                    }
                } else {
                    *g::choose(self.u, supported)
                };
                let prepared: Vec<(u32, u32, u32)> = self.payloads.iter().copied().filter(|p| p.0 == tag).collect();
                let (p, l) = if !prepared.is_empty() && (!hostile || g::boolean(self.u)) {
                    let (_, a, l) = *g::choose(self.u, &prepared);
                    if hostile {
                        match g::byte(self.u) % 3 {
                            0 => (a, l.wrapping_sub(1)),
                            1 => (a, l + 1),
                            _ => (self.mem.wrapping_sub(l).wrapping_add(1), l),
                        }
                    } else {
                        (a, l)
                    }
                } else {
                    let w = *g::choose(self.u, &[0u32, 16, 32, 40, 48]);
                    self.src_region(Some(w))
                };
                vec![c(tag), c(p), c(l)]
            }
            F::Upgrade => {
                self.invokes += 1;
                let p = if g::ratio(self.u, 1, 2) { DATA_BASE + 32 } else { self.dst_ptr(32) };
                vec![c(p)]
            }
            F::WriteOutput => {
                let (p, l) = match g::byte(self.u) % 16 {
                    // large writes to reach the 16 KiB limit of P4
                    0 => (0, 16384),
                    1 => (DATA_BASE, 16385u32.saturating_sub(self.rv_len)),
                    _ => self.src_region(None),
                };
                let cur = self.rv_len;
                let o = self.offset(cur);
                if o <= cur && (p as u64 + l as u64) <= self.mem as u64 {
                    let mut end = o as u64 + l as u64;
                    if self.proto.limit {
                        end = end.min(16384);
                    }
                    self.rv_len = cur.max(end as u32);
                }
                vec![c(p), c(l), c(o)]
            }
            F::StateLookupEntry | F::StateCreateEntry | F::StateDeleteEntry | F::StateDeletePrefix | F::StateIteratePrefix => {
                let (p, l) = self.key_region(f);
                vec![c(p), c(l)]
            }
            F::StateIteratorNext | F::StateIteratorDelete | F::StateIteratorKeySize => vec![self.iter_handle()],
            F::StateIteratorKeyRead => {
                let h = self.iter_handle();
                let (p, l) = self.dst_region(Some(12));
                let o = self.offset(3);
                vec![h, c(p), c(l), c(o)]
            }
            F::StateEntryRead => {
                let h = self.entry_handle();
                let (p, l) = self.dst_region(Some(40));
                let o = self.offset(8);
                vec![h, c(p), c(l), c(o)]
            }
            F::StateEntryWrite => {
                let h = self.entry_handle();
                let w = *g::choose(self.u, &[1u32, 8, 63, 64, 65, 200]);
                let (p, l) = self.src_region(Some(w));
                let o = self.offset(8);
                vec![h, c(p), c(l), c(o)]
            }
            F::StateEntrySize => vec![self.entry_handle()],
            F::StateEntryResize => {
                let n = *g::choose(self.u, &[0u32, 1, 8, 63, 64, 65, 300, 5000, (1 << 30) + 1, u32::MAX, 1 << 31]);
                vec![self.entry_handle(), c(n)]
            }
            F::VerifyEd25519 => {
                // public key, signature, message, message length
                if !self.hostile() {
                    let l = match g::byte(self.u) % 6 {
                        0 => 21,
                        1 => 19,
                        _ => 20,
                    };
                    let pk = SIG_BASE + if g::ratio(self.u, 1, 6) { 1 } else { 0 };
                    vec![c(pk), c(SIG_BASE + 32), c(SIG_BASE + 96), c(l)]
                } else {
                    let (m, l) = self.src_region(None);
                    vec![c(self.dst_ptr(32)), c(self.dst_ptr(64)), c(m), c(l)]
                }
            }
            F::VerifySecp256k1 => {
                if !self.hostile() {
                    vec![c(SIG_BASE + 128), c(SIG_BASE + 32), c(SIG_BASE + 96)]
                } else {
                    vec![c(self.dst_ptr(33)), c(self.dst_ptr(64)), c(self.dst_ptr(32))]
                }
            }
            F::HashSha2 | F::HashSha3 | F::HashKeccak => {
                let (p, l) = self.src_region(None);
                vec![c(p), c(l), c(self.dst_ptr(32))]
            }
            F::MemoryGrow => vec![c(*g::choose(self.u, &[0u32, 1, 1, 2, 3, 4, 65535, u32::MAX, 1 << 31]))],
        };
        let call = Call { f, args };
        self.scenario(&call, slot);
        self.register(f, slot);
        call
    }

    fn register(&mut self, f: F, slot: usize) {
        match f {
            F::StateLookupEntry | F::StateCreateEntry | F::StateIteratorNext => self.entry_slots.push(slot),
            F::StateIteratePrefix => self.iter_slots.push(slot),
            F::Accept | F::SimpleTransfer | F::Send | F::CombineAnd | F::CombineOr => self.action_slots.push(slot),
            _ => {}
        }
    }

    /// Queue the follow-up calls of a scenario after `call` (stored in `slot`).
    fn scenario(&mut self, call: &Call, slot: usize) {
        let c = Self::c32;
        let h = Arg::R(slot);
        let mk = |f: F, args: Vec<Arg>| Call { f, args };
        match call.f {
            F::StateIteratePrefix if g::ratio(self.u, 3, 4) => {
                let (Arg::C(p), Arg::C(l)) = (call.args[0], call.args[1]) else { return };
                let (p, l) = (p as u32, l as u32);
                if l > 400 {
                    return;
                }
                let n = g::range_usize(self.u, 1, 4);
                for i in 0..n {
                    self.pending.push_back(mk(F::StateIteratorNext, vec![h]));
                    if i == 0 && g::boolean(self.u) {
                        self.pending.push_back(mk(F::StateIteratorKeySize, vec![h]));
                        let o = self.offset(2);
                        self.pending.push_back(mk(F::StateIteratorKeyRead, vec![h, c(SCRATCH_BASE + 0x400), c(g::range_u64(self.u, 0, 20) as u32), c(o)]));
                    }
                }
                // modifications inside / overlapping the locked area
                match g::byte(self.u) % 6 {
                    0 => self.pending.push_back(mk(F::StateCreateEntry, vec![c(p), c(l + 1)])),
                    1 => self.pending.push_back(mk(F::StateDeleteEntry, vec![c(p), c(l)])),
                    2 => self.pending.push_back(mk(F::StateDeletePrefix, vec![c(p), c(l.saturating_sub(1))])),
                    3 => self.pending.push_back(mk(F::StateCreateEntry, vec![c(p), c(l)])),
                    _ => {}
                }
                if g::ratio(self.u, 2, 3) {
                    self.pending.push_back(mk(F::StateIteratorDelete, vec![h]));
                    match g::byte(self.u) % 4 {
                        0 => self.pending.push_back(mk(F::StateIteratorNext, vec![h])),
                        1 => self.pending.push_back(mk(F::StateIteratorDelete, vec![h])),
                        2 => self.pending.push_back(mk(F::StateDeleteEntry, vec![c(p), c(l)])),
                        _ => {}
                    }
                }
            }
            F::Invoke | F::Upgrade if g::ratio(self.u, 3, 4) => {
                // after the operation returns: use what was handed out before it (stays valid unless
                // the state was updated meanwhile)
                let iters: Vec<usize> = self.iter_slots.iter().rev().take(2).copied().collect();
                for s in iters {
                    match g::byte(self.u) % 4 {
                        0 | 1 => self.pending.push_back(mk(F::StateIteratorNext, vec![Arg::R(s)])),
                        2 => self.pending.push_back(mk(F::StateIteratorKeySize, vec![Arg::R(s)])),
                        _ => self.pending.push_back(mk(F::StateIteratorDelete, vec![Arg::R(s)])),
                    }
                }
                let entries: Vec<usize> = self.entry_slots.iter().rev().take(2).copied().collect();
                for s in entries {
                    match g::byte(self.u) % 4 {
                        0 => self.pending.push_back(mk(F::StateEntrySize, vec![Arg::R(s)])),
                        1 => self.pending.push_back(mk(F::StateEntryRead, vec![Arg::R(s), c(SCRATCH_BASE + 0x700), c(16), c(0)])),
                        2 => self.pending.push_back(mk(F::StateEntryWrite, vec![Arg::R(s), c(DATA_BASE), c(4), c(0)])),
                        _ => {}
                    }
                }
            }
            F::StateCreateEntry | F::StateLookupEntry if g::ratio(self.u, 1, 2) => {
                let n = g::range_usize(self.u, 1, 3);
                for _ in 0..n {
                    match g::byte(self.u) % 5 {
                        0 | 1 => {
                            let len = *g::choose(self.u, &[1u32, 8, 63, 64, 65, 200]);
                            let o = self.offset(4);
                            self.pending.push_back(mk(F::StateEntryWrite, vec![h, c(DATA_BASE + g::byte(self.u) as u32), c(len), c(o)]))
                        }
                        2 => self.pending.push_back(mk(F::StateEntrySize, vec![h])),
                        3 => {
                            let o = self.offset(4);
                            self.pending.push_back(mk(F::StateEntryRead, vec![h, c(SCRATCH_BASE + 0x600), c(g::range_u64(self.u, 0, 80) as u32), c(o)]))
                        }
                        _ => self.pending.push_back(mk(F::StateEntryResize, vec![h, c(*g::choose(self.u, &[0u32, 3, 64, 65, 500]))])),
                    }
                }
            }
            _ => {}
        }
    }

    fn param_idx(&mut self) -> Arg {
        let n = self.invokes as u64;
        Arg::C(match g::byte(self.u) % 8 {
            0..=2 => 0,
            3 | 4 => n,
            5 => n + 1,
            6 => u32::MAX as u64,
            _ => g::range_u64(self.u, 0, n + 1),
        })
    }
}

pub fn gen_key(u: &mut Unstructured) -> Vec<u8> {
    let n = match g::byte(u) % 8 {
        0 => 0,
        1 => 1,
        2 | 3 => 2,
        4 => 3,
        _ => g::range_usize(u, 0, KEY_SLOT as usize),
    };
    (0..n).map(|_| *g::choose(u, &ALPHABET)).collect()
}

fn gen_value(u: &mut Unstructured) -> Vec<u8> {
    let n = match g::byte(u) % 8 {
        0 => 0,
        1 => 1,
        2 => 63,
        3 => 64,
        4 => 65,
        5 => g::range_usize(u, 66, 400),
        _ => g::range_usize(u, 0, 12),
    };
    let b = g::byte(u);
    (0..n).map(|i| b.wrapping_add(i as u8)).collect()
}

/// Decode a case. `focus_invoke` biases v1 receive scripts towards `invoke`/`upgrade`.
pub fn decode(u: &mut Unstructured, ver: Ver) -> Case {
    let kind = if g::ratio(u, 2, 5) { Kind::Init } else { Kind::Receive };
    let proto = g::idx(u, 4);
    let cost_v1 = g::boolean(u);
    let seed = g::byte(u);
    let plen = match g::byte(u) % 10 {
        0 => 0,
        1 => 1,
        2 => 1024,
        3 => 1025,
        4 => 65535,
        _ => g::range_usize(u, 2, 80),
    };
    let param = pattern(seed ^ 0x5a, plen);
    let pol_len = match g::byte(u) % 4 {
        0 => 0,
        1 => 2,
        _ => g::range_usize(u, 3, 90),
    };
    let policy = pattern(seed ^ 0xa5, pol_len);
    let sender_contract = g::boolean(u);
    let init_pages = if g::ratio(u, 1, 8) { 2 } else { 1 };
    let max_pages = match g::byte(u) % 16 {
        0 => None,
        1..=3 => Some(init_pages),
        _ => Some(init_pages + g::range_u64(u, 1, 3) as u32),
    };
    let mem = init_pages * PAGE;

    // initial state
    let mut state0_v0 = Vec::new();
    let mut state0_v1 = Vec::new();
    if kind == Kind::Receive {
        match ver {
            Ver::V0 => {
                let n = match g::byte(u) % 8 {
                    0 => 0,
                    1 => 16384,
                    2 => 16383,
                    3 => 1,
                    _ => g::range_usize(u, 2, 300),
                };
                state0_v0 = pattern(seed ^ 0x33, n);
            }
            Ver::V1 => {}
        }
    }
    // key pool: families of keys that extend each other, so that prefixes, iterators and locks
    // relate to existing entries
    let mut pool: Vec<Vec<u8>> = Vec::new();
    for i in 0..NUM_KEYS {
        let k = match (i, g::byte(u) % 8) {
            (0, _) | (_, 0) => gen_key(u),
            (_, 1) => {
                let mut k = g::choose(u, &pool).clone();
                k.pop();
                k
            }
            _ => {
                let mut k = g::choose(u, &pool).clone();
                let ext = g::range_usize(u, 1, 2);
                for _ in 0..ext {
                    if k.len() < KEY_SLOT as usize {
                        k.push(*g::choose(u, &ALPHABET));
                    }
                }
                k
            }
        };
        pool.push(k);
    }
    let mut initial_keys: Vec<usize> = Vec::new();
    if kind == Kind::Receive && ver == Ver::V1 {
        let n = g::range_usize(u, 0, 7);
        for _ in 0..n {
            let i = g::idx(u, NUM_KEYS);
            if !initial_keys.contains(&i) && !state0_v1.iter().any(|(k, _): &(Vec<u8>, Vec<u8>)| *k == pool[i]) {
                initial_keys.push(i);
                state0_v1.push((pool[i].clone(), gen_value(u)));
            }
        }
    }

    // memory image
    let mut blobs: Vec<(u32, Vec<u8>)> = Vec::new();
    blobs.push((DATA_BASE, pattern(seed, DATA_LEN as usize)));
    let mut keys = Vec::new();
    for (i, k) in pool.iter().enumerate() {
        let addr = KEY_BASE + KEY_SLOT * i as u32;
        keys.push((addr, k.len() as u32));
        if !k.is_empty() {
            blobs.push((addr, k.clone()));
        }
    }
    {
        let b = *g::choose(u, &ALPHABET);
        let mut lk = vec![b; 300];
        lk[299] = *g::choose(u, &ALPHABET);
        lk[63] = *g::choose(u, &ALPHABET);
        blobs.push((LONGKEY_BASE, lk));
    }
    // receive names for `send`
    let mut names = Vec::new();
    let mut at = BLOB_BASE;
    for nm in [&b"c.r"[..], b"other.entry", b"nodot", b"bad\xffname.x", b"."] {
        names.push((at, nm.len() as u32));
        blobs.push((at, nm.to_vec()));
        at += 16;
    }
    {
        // a name of exactly 100 and one of 101 characters
        let mut long = vec![b'a'; 101];
        long[1] = b'.';
        names.push((at, 100));
        names.push((at, 101));
        blobs.push((at, long));
        at += 112;
    }
    // invoke payloads
    let mut payloads = Vec::new();
    let pr = PROTOS[proto];
    if ver == Ver::V1 {
        let addr32 = pattern(seed ^ 0x11, 32);
        // transfer: address + amount LE
        let mut t = addr32.clone();
        t.extend_from_slice(&g::boundary_u64(u).to_le_bytes());
        payloads.push((0u32, at, t.len() as u32));
        blobs.push((at, t));
        at += 48;
        // calls: address(16) plen(2) param name_len(2) name amount(8)
        for variant in 0..3 {
            let mut c = Vec::new();
            c.extend_from_slice(&(seed as u64 + 1).to_le_bytes());
            c.extend_from_slice(&g::boundary_u64(u).to_le_bytes());
            let plen: usize = match (variant, g::byte(u) % 6) {
                (0, _) => g::range_usize(u, 0, 20),
                (1, 0) => pr.max_param,
                (1, 1) => pr.max_param + 1,
                (1, 2) => 1024,
                (1, 3) => 1025,
                (1, _) => 300,
                _ => g::range_usize(u, 0, 6),
            };
            let plen = plen.min(65535);
            c.extend_from_slice(&(plen as u16).to_le_bytes());
            // large parameters are not materialised in the blob: the payload then extends over
            // whatever follows in memory (patterned data), which the model reads just the same
            let materialise = plen <= 64;
            if materialise {
                c.extend_from_slice(&pattern(seed ^ 0x77, plen));
                let name: &[u8] = match (variant, g::byte(u) % 6) {
                    (2, 0) => b"bad name",
                    (2, 1) => b"\xffx",
                    (2, 2) => &[b'n'; 99],
                    (2, 3) => &[b'n'; 100],
                    (_, 4) => b"",
                    _ => b"entry",
                };
                c.extend_from_slice(&(name.len() as u16).to_le_bytes());
                c.extend_from_slice(name);
                c.extend_from_slice(&g::boundary_u64(u).to_le_bytes());
                if g::ratio(u, 1, 8) {
                    c.truncate(c.len() - 1 - g::idx(u, 8));
                }
                payloads.push((1u32, at, c.len() as u32));
                let l = c.len() as u32;
                blobs.push((at, c));
                at += (l + 15) & !15;
            } else {
                // place the header right before the data area so that the parameter is read from it:
                // header(18 bytes) at DATA_BASE-18, then plen bytes of data, then name/amount from data
                let hdr_at = DATA_BASE - 18;
                let total = 18 + plen as u32 + 2 + 5 + 8;
                payloads.push((1u32, hdr_at, total));
                blobs.push((hdr_at, c));
                if DATA_BASE + plen as u32 + 15 < mem {
                    let mut tail = vec![5u8, 0];
                    tail.extend_from_slice(b"entry");
                    tail.extend_from_slice(&g::boundary_u64(u).to_le_bytes());
                    blobs.push((DATA_BASE + plen as u32, tail));
                }
            }
        }
        // queries
        payloads.push((2u32, at, 32));
        payloads.push((6u32, at, 32));
        blobs.push((at, addr32.clone()));
        at += 32;
        let mut ca = Vec::new();
        ca.extend_from_slice(&g::boundary_u64(u).to_le_bytes());
        ca.extend_from_slice(&g::boundary_u64(u).to_le_bytes());
        payloads.push((3u32, at, 16));
        payloads.push((7u32, at, 16));
        payloads.push((8u32, at, 16));
        blobs.push((at, ca));
        at += 16;
        payloads.push((4u32, at, 0));
        // signature check: address + payload
        let mut sc = addr32.clone();
        sc.extend_from_slice(&pattern(seed ^ 0x21, g::range_usize(u, 0, 70)));
        payloads.push((5u32, at, sc.len() as u32));
        blobs.push((at, sc));
        // ed25519 triple: pk(32) sig(64) msg(20), then a secp-style public key prefix byte
        {
            use ed25519_dalek::{Signer, SigningKey};
            let sk = SigningKey::from_bytes(&{
                let mut s = [0u8; 32];
                s[0] = seed;
                s[1] = 0x42;
                s
            });
            let msg = pattern(seed ^ 0x99, 20);
            let sig = sk.sign(&msg);
            let mut t = sk.verifying_key().to_bytes().to_vec();
            t.extend_from_slice(&sig.to_bytes());
            t.extend_from_slice(&msg);
            t.extend_from_slice(&[0u8; 12]);
            t.push(2); // SIG_BASE+128: compressed secp public key prefix
            t.extend_from_slice(&pattern(seed ^ 0x13, 32));
            if g::ratio(u, 1, 5) {
                let i = g::idx(u, 116);
                t[i] ^= 1 << (g::byte(u) % 8);
            }
            blobs.push((SIG_BASE, t));
        }
    }

    let level = match g::byte(u) % 16 {
        0..=2 => 0,
        3..=9 => 8,
        10..=13 => 32,
        _ => 110,
    };
    let mut gen = Gen {
        u,
        ver,
        kind,
        proto: &PROTOS[proto],
        mem,
        keys,
        payloads,
        names,
        entry_slots: Vec::new(),
        iter_slots: Vec::new(),
        action_slots: Vec::new(),
        param_len: plen as u32,
        invokes: 0,
        level,
        progress: 0,
        v0_len: state0_v0.len() as u32,
        rv_len: 0,
        policy_len: policy.len() as u32,
        created: initial_keys,
        pending: std::collections::VecDeque::new(),
    };
    let n = match g::byte(gen.u) % 8 {
        0 => g::range_usize(gen.u, 0, 3),
        7 => g::range_usize(gen.u, 20, 40),
        _ => g::range_usize(gen.u, 3, 20),
    };
    let mut calls = Vec::with_capacity(n + 1);
    // under the P4 limits only 64 log items are accepted: some scripts start with a burst of logs
    if PROTOS[proto].limit && g::ratio(gen.u, 1, 12) {
        let burst = g::range_usize(gen.u, 60, 66);
        for _ in 0..burst {
            calls.push(Call { f: F::LogEvent, args: vec![Arg::C(DATA_BASE as u64 + calls.len() as u64), Arg::C((calls.len() % 3) as u64)] });
        }
    }
    // scenario: only an iterator (no entry handle) is handed out, then an operation during which
    // the state may be updated, then the old iterator is used again
    let mut force_update_first = false;
    if ver == Ver::V1 && kind == Kind::Receive && !gen.created.is_empty() && g::ratio(gen.u, 1, 10) {
        let (a, l) = gen.keys[*g::choose(gen.u, &gen.created)];
        let l = if g::boolean(gen.u) { l } else { g::range_u64(gen.u, 0, l as u64) as u32 };
        calls.push(Call { f: F::StateIteratePrefix, args: vec![Arg::C(a as u64), Arg::C(l as u64)] });
        gen.iter_slots.push(0);
        let transfer = gen.payloads.iter().find(|p| p.0 == 0).copied();
        if let Some((_, pa, pl)) = transfer {
            calls.push(Call { f: F::Invoke, args: vec![Arg::C(0), Arg::C(pa as u64), Arg::C(pl as u64)] });
            gen.invokes += 1;
            force_update_first = g::ratio(gen.u, 2, 3);
            let follow = match g::byte(gen.u) % 4 {
                0 => F::StateIteratorKeySize,
                1 => F::StateIteratorDelete,
                _ => F::StateIteratorNext,
            };
            calls.push(Call { f: follow, args: vec![Arg::R(0)] });
            if follow == F::StateIteratorNext {
                gen.entry_slots.push(2);
            }
        }
    }
    let n = n.min(MAX_CALLS - 2 - calls.len());
    for i in 0..n {
        if gen.u.is_empty() {
            break;
        }
        gen.progress = (i * 256 / n.max(1)) as u32;
        let slot = calls.len();
        if let Some(c) = gen.pending.pop_front() {
            // unrelated calls are interleaved now and then
            if g::ratio(gen.u, 7, 8) {
                gen.register(c.f, slot);
                calls.push(c);
                continue;
            }
            gen.pending.push_front(c);
        }
        let c = gen.gen_call(slot);
        calls.push(c);
    }
    // a v0 receive function can only succeed by returning the index of an action
    let mut ret = match g::byte(gen.u) % 10 {
        0..=5 => Ret::Const(0),
        6 => Ret::Const(-1),
        7 => Ret::Const(*g::choose(gen.u, &[-42, i32::MIN, 1, 7, i32::MAX])),
        8 => Ret::Const(-(g::byte(gen.u) as i32) - 1),
        _ => {
            if calls.is_empty() {
                Ret::Const(0)
            } else {
                Ret::Slot(g::idx(gen.u, calls.len()))
            }
        }
    };
    if ver == Ver::V0 && kind == Kind::Receive && matches!(ret, Ret::Const(0)) && g::ratio(gen.u, 7, 8) {
        let slot = calls.len();
        calls.push(Call { f: F::Accept, args: vec![] });
        gen.action_slots.push(slot);
        ret = Ret::Slot(*g::choose(gen.u, &gen.action_slots));
    }
    // v1 receive functions only document 0 and negative return codes
    if ver == Ver::V1 && kind == Kind::Receive {
        if let Ret::Const(c) = ret {
            if c > 0 {
                ret = Ret::Const(-c);
            }
        }
    }
    let invokes = gen.invokes;
    let u = gen.u;
    let mut responses = Vec::new();
    for _ in 0..invokes {
        let kind = match g::byte(u) % 8 {
            0 | 1 => RespKind::Success { data: None, new_balance: g::boundary_u64(u) },
            2..=4 => {
                let n = match g::byte(u) % 4 {
                    0 => 0,
                    1 => 1,
                    _ => g::range_usize(u, 2, 50),
                };
                RespKind::Success { data: Some(pattern(g::byte(u), n)), new_balance: g::boundary_u64(u) }
            }
            5 => RespKind::Reject { code: -(g::range_u64(u, 1, 1 << 31) as i64) as i32, data: pattern(g::byte(u), g::range_usize(u, 0, 20)) },
            _ => RespKind::Env(g::range_u64(u, 1, 11) as u8),
        };
        let kind = if force_update_first && responses.is_empty() && !matches!(kind, RespKind::Success { .. }) {
            RespKind::Success { data: None, new_balance: 17 }
        } else {
            kind
        };
        let success = matches!(kind, RespKind::Success { .. });
        let state_updated = success && (g::ratio(u, 2, 5) || (force_update_first && responses.is_empty()));
        let mut mods = Vec::new();
        if state_updated {
            let n = g::range_usize(u, 0, 3);
            for _ in 0..n {
                let k = gen_key(u);
                if g::ratio(u, 2, 3) {
                    mods.push((k, Some(gen_value(u))));
                } else {
                    mods.push((k, None));
                }
            }
        }
        responses.push(Resp { kind, state_updated, mods });
    }
    let dump_q = match g::byte(u) % 8 {
        0..=4 => 0,
        5 | 6 => 3,
        _ => g::idx(u, 4) as u32,
    };
    let pick = g::byte(u);
    let amount = g::boundary_u64(u) & !1;
    Case {
        ver,
        kind,
        proto,
        cost_v1,
        param,
        policy,
        seed,
        sender_contract,
        init_pages,
        max_pages,
        state0_v0,
        state0_v1,
        blobs,
        calls,
        ret,
        responses,
        dump_q,
        pick,
        amount,
    }
}

pub fn describe(c: &Case) -> String {
    use std::fmt::Write;
    let mut s = String::new();
    let _ = writeln!(
        s,
        "{:?} {:?} {} cost={} param={}B policy={}B pages={}..{:?} sender_contract={} amount={} ret={:?} dump_q={} pick={}",
        c.ver,
        c.kind,
        c.proto().name,
        if c.cost_v1 { "V1" } else { "V0" },
        c.param.len(),
        c.policy.len(),
        c.init_pages,
        c.max_pages,
        c.sender_contract,
        c.amount,
        c.ret,
        c.dump_q,
        c.pick
    );
    if !c.state0_v0.is_empty() {
        let _ = writeln!(s, "initial v0 state: {} bytes", c.state0_v0.len());
    }
    for (k, v) in &c.state0_v1 {
        let _ = writeln!(s, "initial entry {} -> {} bytes", g::hex(k), v.len());
    }
    for (i, call) in c.calls.iter().enumerate() {
        let args: Vec<String> = call
            .args
            .iter()
            .map(|a| match a {
                Arg::C(v) => format!("{:#x}", v),
                Arg::R(j) => format!("r{}", j),
            })
            .collect();
        let _ = writeln!(s, "  r{} = {}({})", i, call.f.name(), args.join(", "));
    }
    for (i, r) in c.responses.iter().enumerate() {
        let _ = writeln!(s, "  response {}: {:?} state_updated={} mods={}", i, short_resp(&r.kind), r.state_updated, r.mods.len());
    }
    s
}

fn short_resp(k: &RespKind) -> String {
    match k {
        RespKind::Success { data, new_balance } => format!("Success(data={:?}B, balance={})", data.as_ref().map(|d| d.len()), new_balance),
        RespKind::Reject { code, data } => format!("Reject({}, {}B)", code, data.len()),
        RespKind::Env(e) => format!("Env({})", e),
    }
}
