// vcore::alloc::Counting wrapped with a per-thread cache for the engine's 32 MiB linear memory
// buffer (see src/alloc.rs).
#[global_allocator]
static A: c14::alloc::Alloc14 = c14::alloc::Alloc14;
fn main() {
    // Keep freed heap memory in the process: the per-case buffers of 64-256 KiB otherwise make
    // glibc grow and trim the per-thread heaps (mprotect/madvise) thousands of times per second,
    // which serialises the shard threads on the address-space lock.
    unsafe {
        libc::mallopt(libc::M_TRIM_THRESHOLD, 1 << 30);
        libc::mallopt(libc::M_TOP_PAD, 16 << 20);
        libc::mallopt(libc::M_MMAP_THRESHOLD, 8 << 20);
    }
    vcore::main(c14::property())
}
