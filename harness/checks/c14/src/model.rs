//! Reference model of the documented host interface of v0 and v1 contracts. Written from the doc
//! comments of the host functions, of `State`/`Logs`/`InstanceState`, of `constants.rs` and of the
//! `ReceiveParams` constructors. Shares no code with `/repo`.
use crate::script::*;
use sha2::Digest;
use statemodel::{keys_with_prefix, Map};
use std::collections::BTreeMap;

pub const MAX_STATE: usize = 16384;
pub const MAX_LOG: u32 = 512;
pub const MAX_LOGS: usize = 64;
pub const MAX_ENTRY: usize = 1 << 30;

// ---- the cost schedule, transcribed from the documentation in constants.rs ----
pub mod sched {
    pub fn copy_from_host(x: u32) -> u64 { 10 + x as u64 }
    pub fn copy_to_host(x: u32) -> u64 { 10 + x as u64 }
    pub fn copy_parameter(len: u32) -> u64 {
        if len <= 1024 {
            10 + len as u64
        } else {
            10 + 1000 * len as u64
        }
    }
    pub fn additional_state_size(x: u64) -> u64 { x / 100 }
    pub fn log_event(x: u32) -> u64 { 500 + 1000 * x as u64 }
    pub const BASE_ACTION: u64 = 1000;
    pub const SIMPLE_TRANSFER: u64 = BASE_ACTION + 40000;
    pub fn action_send(x: u32) -> u64 { BASE_ACTION + 72000 + 1000 * x as u64 }
    /// None = the documented cost does not fit 64 bits (documented as "u64::MAX")
    pub fn create_entry(len: u32) -> Option<u64> {
        let l = len as u64;
        if len <= 64 {
            Some(48 + 8 * copy_from_host(len) + 100 * l)
        } else {
            let q = 100u128 * (l as u128) * (l as u128);
            if q > u64::MAX as u128 {
                None
            } else {
                Some(48 + 8 * copy_from_host(len) + (q as u64) / 64)
            }
        }
    }
    pub fn lookup_entry(len: u32) -> u64 { 80 + 4 * copy_from_host(len) + 16 * len as u64 }
    pub fn delete_entry(len: u32) -> u64 { 80 + 4 * copy_from_host(len) + 16 * len as u64 }
    pub fn delete_prefix_find(len: u32) -> u64 { 10 * len as u64 }
    pub fn new_iterator(len: u32) -> u64 { 80 + 100 * len as u64 }
    pub const DELETE_ITERATOR_BASE: u64 = 10;
    pub fn delete_iterator(len: u32) -> u64 { 32 + 32 * len as u64 }
    pub const ITERATOR_KEY_SIZE: u64 = 10;
    pub const ITERATOR_NEXT: u64 = 32;
    pub const TRAVERSAL_STEP: u64 = 40;
    pub const RESIZE_ENTRY_BASE: u64 = 10;
    pub fn additional_entry_size(x: u64) -> u64 { 100 * x }
    pub const ENTRY_SIZE: u64 = 32;
    pub fn read_entry(x: u32) -> u64 { 32 + (x / 8) as u64 }
    pub fn write_entry(x: u32) -> u64 { 32 + (x / 8) as u64 }
    pub fn write_output(x: u32) -> u64 { 10 + x as u64 }
    pub fn additional_output_size(x: u64) -> u64 { 30 * x }
    pub fn verify_ed25519(len: u32) -> u64 { 100_000 + 100 * len as u64 }
    pub const VERIFY_SECP: u64 = 100_000;
    pub fn sha2(len: u32) -> u64 { 500 + 7 * len as u64 }
    pub fn sha3(len: u32) -> u64 { 500 + 5 * len as u64 }
    pub fn keccak(len: u32) -> u64 { 500 + 5 * len as u64 }
    pub const INVOKE_BASE: u64 = 500;
    pub const MEMORY_PAGE: u64 = 100;
}

#[derive(Debug, Clone, PartialEq, Eq)]
pub enum Act {
    Accept,
    Transfer { to: [u8; 32], amount: u64 },
    Send { index: u64, subindex: u64, name: String, amount: u64, parameter: Vec<u8> },
    And(u32, u32),
    Or(u32, u32),
}

#[derive(Debug, Clone, PartialEq, Eq)]
pub enum Intr {
    Transfer { to: [u8; 32], amount: u64 },
    Call { index: u64, subindex: u64, parameter: Vec<u8>, name: String, amount: u64 },
    Upgrade { module: [u8; 32] },
    QueryAccountBalance { address: [u8; 32] },
    QueryContractBalance { index: u64, subindex: u64 },
    QueryExchangeRates,
    CheckAccountSignature { address: [u8; 32], payload: Vec<u8> },
    QueryAccountKeys { address: [u8; 32] },
    QueryContractModuleReference { index: u64, subindex: u64 },
    QueryContractName { index: u64, subindex: u64 },
}

impl Intr {
    /// state-affecting operations hand the logs produced so far to the scheduler
    pub fn clears_logs(&self) -> bool { matches!(self, Intr::Transfer { .. } | Intr::Call { .. } | Intr::Upgrade { .. }) }
}

/// What a single call does.
#[derive(Debug, Clone, PartialEq, Eq)]
pub enum Step {
    /// returns to the contract with this value (None for functions without result)
    Ret(Option<u64>),
    /// runtime failure
    Trap,
    /// fails, either as a runtime failure or by exhausting any energy budget (the documented cost
    /// exceeds every budget); which of the two is not specified
    Fail,
    /// suspends with an operation for the scheduler
    Interrupt(Intr),
    /// the documentation does not determine what this call returns or writes (the script is cut
    /// before it)
    Unspecified,
}

#[derive(Debug, Clone)]
struct EntryM {
    key:   Vec<u8>,
    epoch: u64,
}

#[derive(Debug, Clone)]
struct IterM {
    prefix:   Vec<u8>,
    snapshot: Vec<Vec<u8>>,
    pos:      usize,
    /// key the iterator is positioned at (only defined after a successful `next`)
    at:       Option<Vec<u8>>,
}

/// Energy facts of one call, recomputed from its arguments and the model state.
#[derive(Debug, Clone, Copy, Default)]
pub struct Charge {
    /// what the call must have charged in total if it returned to the contract
    pub min_total: u64,
    /// the part that is charged before the call does anything else (first tick)
    pub first:     u64,
}

pub struct Model<'a> {
    pub c:        &'a Case,
    pub mem:      Vec<u8>,
    pub max_pages: u32,
    // v0
    pub state:    Vec<u8>,
    pub actions:  Vec<Act>,
    // both
    pub logs:     Vec<Vec<u8>>,
    // v1
    pub rv:       Vec<u8>,
    pub params:   Vec<Vec<u8>>,
    pub balance:  u64,
    pub map:      Map,
    locks:        BTreeMap<Vec<u8>, u32>,
    gen:          u32,
    entries:      Vec<EntryM>,
    iters:        Vec<Option<IterM>>,
    del_epoch:    BTreeMap<Vec<u8>, u64>,
    pub changed:  bool,
    // classification facts
    pub f_refused_lock: u32,
    pub f_stale_use:    u32,
    pub f_limit_hit:    u32,
    pub f_iter_yield:   u32,
    pub f_state_change: u32,
    /// a state-updating resume happened while iterators but no entry handles had been handed out
    pub f_iter_only_update: bool,
    /// ... and such an old iterator was used afterwards
    pub f_old_iter_used: u32,
}

pub struct Ctx {
    pub slot_time:    u64,
    pub init_origin:  [u8; 32],
    pub invoker:      [u8; 32],
    pub owner:        [u8; 32],
    pub self_index:   u64,
    pub self_subindex: u64,
    pub self_balance: u64,
    pub sender:       Vec<u8>,
    pub entrypoint:   &'static str,
}

pub fn ctx_of(c: &Case) -> Ctx {
    let a = |x: u8| -> [u8; 32] {
        let mut r = [0u8; 32];
        for (i, b) in r.iter_mut().enumerate() {
            *b = (i as u8).wrapping_mul(3).wrapping_add(x).wrapping_add(c.seed);
        }
        r
    };
    let sender_acc = a(0x40);
    let sender = if c.sender_contract {
        let mut s = vec![1u8];
        s.extend_from_slice(&(c.seed as u64 * 1000 + 7).to_le_bytes());
        s.extend_from_slice(&(c.seed as u64 + 1).to_le_bytes());
        s
    } else {
        let mut s = vec![0u8];
        s.extend_from_slice(&sender_acc);
        s
    };
    Ctx {
        slot_time: 1_600_000_000_000 + c.seed as u64 * 1_000_003,
        init_origin: a(0x10),
        invoker: a(0x20),
        owner: a(0x30),
        self_index: 1000 + c.seed as u64,
        self_subindex: c.seed as u64 % 3,
        self_balance: (c.seed as u64) << 33 | 5,
        sender,
        entrypoint: "r",
    }
}

fn valid_name_chars(s: &[u8]) -> bool { s.iter().all(|b| b.is_ascii_alphanumeric() || b.is_ascii_punctuation()) }

impl<'a> Model<'a> {
    pub fn new(c: &'a Case) -> Self {
        let mut mem = vec![0u8; (c.init_pages * PAGE) as usize];
        for (a, b) in &c.blobs {
            mem[*a as usize..*a as usize + b.len()].copy_from_slice(b);
        }
        let mut map = Map::new();
        for (k, v) in &c.state0_v1 {
            map.insert(k.clone(), v.clone());
        }
        Model {
            c,
            mem,
            // the engine documents a hard limit of 512 pages (32 MB) whatever the module declares
            max_pages: c.max_pages.unwrap_or(512).min(512),
            state: c.state0_v0.clone(),
            actions: Vec::new(),
            logs: Vec::new(),
            rv: Vec::new(),
            params: vec![c.param.clone()],
            balance: ctx_of(c).self_balance,
            map,
            locks: BTreeMap::new(),
            gen: 0,
            entries: Vec::new(),
            iters: Vec::new(),
            del_epoch: BTreeMap::new(),
            changed: false,
            f_refused_lock: 0,
            f_stale_use: 0,
            f_limit_hit: 0,
            f_iter_yield: 0,
            f_state_change: 0,
            f_iter_only_update: false,
            f_old_iter_used: 0,
        }
    }

    fn memlen(&self) -> u64 { self.mem.len() as u64 }

    /// [ptr, ptr+len) inside linear memory?
    fn inb(&self, ptr: u32, len: u64) -> bool { ptr as u64 + len <= self.memlen() }

    fn rd(&self, ptr: u32, len: u32) -> &[u8] { &self.mem[ptr as usize..ptr as usize + len as usize] }

    fn wr(&mut self, ptr: u32, data: &[u8]) { self.mem[ptr as usize..ptr as usize + data.len()].copy_from_slice(data) }

    fn slot_value(&self, j: usize, wide: bool) -> u64 {
        let a = (RES_BASE + 8 * j as u32) as usize;
        if wide {
            u64::from_le_bytes(self.mem[a..a + 8].try_into().unwrap())
        } else {
            u32::from_le_bytes(self.mem[a..a + 4].try_into().unwrap()) as u64
        }
    }

    pub fn arg_values(&self, call: &Call) -> Vec<u64> {
        let (params, _) = call.f.sig(self.c.ver);
        call.args
            .iter()
            .zip(params.iter())
            .map(|(a, t)| match a {
                Arg::C(v) => match t {
                    wasmgen::ast::ValType::I32 => *v as u32 as u64,
                    wasmgen::ast::ValType::I64 => *v,
                },
                Arg::R(j) => self.slot_value(*j, *t == wasmgen::ast::ValType::I64),
            })
            .collect()
    }

    fn locked_for_key(&self, key: &[u8]) -> bool { self.locks.keys().any(|p| key.starts_with(p)) }

    fn locked_for_prefix(&self, p: &[u8]) -> bool { self.locks.keys().any(|l| p.starts_with(l) || l.starts_with(p)) }

    fn epoch(&self, key: &[u8]) -> u64 { self.del_epoch.get(key).copied().unwrap_or(0) }

    fn new_entry(&mut self, key: &[u8]) -> u64 {
        let idx = self.entries.len() as u64;
        self.entries.push(EntryM { key: key.to_vec(), epoch: self.epoch(key) });
        ((self.gen as u64) << 32) | idx
    }

    /// The key of a live entry handle.
    fn entry_key(&mut self, h: u64) -> Option<Vec<u8>> {
        let gen = (h >> 32) as u32;
        let idx = (h & 0xffff_ffff) as usize;
        let r = if gen != self.gen {
            None
        } else {
            match self.entries.get(idx) {
                Some(e) if self.epoch(&e.key) == e.epoch && self.map.contains_key(&e.key) => Some(e.key.clone()),
                _ => None,
            }
        };
        if r.is_none() {
            self.f_stale_use += 1;
        }
        r
    }

    fn iter_index(&mut self, h: u64) -> Option<usize> {
        let gen = (h >> 32) as u32;
        let idx = (h & 0xffff_ffff) as usize;
        if gen == self.gen && idx < self.iters.len() {
            Some(idx)
        } else {
            self.f_stale_use += 1;
            if self.f_iter_only_update && gen.wrapping_add(1) == self.gen {
                self.f_old_iter_used += 1;
            }
            None
        }
    }

    /// Copy `min(len, src.len() - off)` bytes of `src[off..]` to memory (off clamped to src.len()).
    fn read_into(&mut self, ptr: u32, len: u32, src: &[u8], off: u32) -> u32 {
        let o = (off as usize).min(src.len());
        let n = (src.len() - o).min(len as usize);
        let data = src[o..o + n].to_vec();
        self.wr(ptr, &data);
        n as u32
    }

    /// Scheduled charges of a call, from its arguments (independent of success).
    pub fn charge(&mut self, call: &Call, a: &[u64]) -> Charge {
        use sched::*;
        let v = |i: usize| a[i] as u32;
        let one = |x: u64| Charge { min_total: x, first: x };
        match call.f {
            F::GetParameterSize | F::GetSlotTime | F::StateSize | F::GetReceiveSelfBalance | F::GetReceiveEntrypointSize => one(0),
            F::GetInitOrigin | F::GetReceiveInvoker | F::GetReceiveSelfAddress | F::GetReceiveSender | F::GetReceiveOwner | F::GetReceiveEntrypoint => one(0),
            F::GetParameterSection => match self.c.ver {
                Ver::V0 => one(copy_parameter(v(1))),
                Ver::V1 => one(copy_parameter(v(2))),
            },
            F::GetPolicySection | F::LoadState => one(copy_from_host(v(1))),
            F::WriteState => one(copy_to_host(v(1))),
            F::LogEvent => {
                if v(1) <= MAX_LOG {
                    one(log_event(v(1)))
                } else {
                    one(0)
                }
            }
            F::ResizeState => {
                let old = self.state.len() as u64;
                let new = v(0) as u64;
                if new > old && new <= MAX_STATE as u64 {
                    one(additional_state_size(new - old))
                } else {
                    one(0)
                }
            }
            F::Accept | F::CombineAnd | F::CombineOr => one(BASE_ACTION),
            F::SimpleTransfer => one(SIMPLE_TRANSFER),
            F::Send => one(action_send(v(6))),
            F::Invoke => {
                // base cost; copying the payload of calls and signature checks is charged on top
                let mut c = one(INVOKE_BASE);
                let (tag, ptr, len) = (v(0), v(1), v(2));
                if tag == 1 && len >= 18 && self.inb(ptr, len as u64) {
                    let pl = u16::from_le_bytes([self.mem[ptr as usize + 16], self.mem[ptr as usize + 17]]);
                    c.min_total += copy_parameter(pl as u32);
                }
                if tag == 5 && self.c.proto().sigs {
                    c.min_total += copy_to_host(len);
                }
                c
            }
            F::Upgrade => one(INVOKE_BASE),
            F::WriteOutput => {
                let mut c = one(write_output(v(1)));
                let (len, off) = (v(1) as u64, v(2) as u64);
                let mut end = off + len;
                if self.c.proto().limit {
                    end = end.min(MAX_STATE as u64);
                }
                if off <= self.rv.len() as u64 && end > self.rv.len() as u64 {
                    c.min_total += additional_output_size(end - self.rv.len() as u64);
                }
                c
            }
            F::StateLookupEntry => one(lookup_entry(v(1))),
            F::StateCreateEntry => one(create_entry(v(1)).unwrap_or(u64::MAX)),
            F::StateDeleteEntry => one(delete_entry(v(1))),
            F::StateDeletePrefix => one(delete_prefix_find(v(1))),
            F::StateIteratePrefix => one(new_iterator(v(1))),
            F::StateIteratorNext => one(ITERATOR_NEXT),
            F::StateIteratorDelete => {
                let mut c = one(DELETE_ITERATOR_BASE);
                if let Some(i) = self.iter_index_quiet(a[0]) {
                    if self.iters[i].is_some() {
                        c.min_total += delete_iterator(0);
                    }
                }
                c
            }
            F::StateIteratorKeySize => one(ITERATOR_KEY_SIZE),
            F::StateIteratorKeyRead => one(copy_from_host(v(2))),
            F::StateEntryRead => one(read_entry(v(2))),
            F::StateEntryWrite => {
                let mut c = one(write_entry(v(2)));
                if let Some(k) = self.entry_key_quiet(a[0]) {
                    let cur = self.map[&k].len() as u64;
                    let (len, off) = (v(2) as u64, v(3) as u64);
                    if off <= cur {
                        let end = (off + len).min(MAX_ENTRY as u64);
                        if end > cur {
                            c.min_total += additional_entry_size(end - cur);
                        }
                    }
                }
                c
            }
            F::StateEntrySize => one(ENTRY_SIZE),
            F::StateEntryResize => {
                let mut c = one(RESIZE_ENTRY_BASE);
                if let Some(k) = self.entry_key_quiet(a[0]) {
                    let cur = self.map[&k].len() as u64;
                    let new = v(1) as u64;
                    if new <= MAX_ENTRY as u64 && new > cur {
                        c.min_total += additional_entry_size(new - cur);
                    }
                }
                c
            }
            F::VerifyEd25519 => one(verify_ed25519(v(3))),
            F::VerifySecp256k1 => one(VERIFY_SECP),
            F::HashSha2 => one(sha2(v(1))),
            F::HashSha3 => one(sha3(v(1))),
            F::HashKeccak => one(keccak(v(1))),
            F::MemoryGrow => one(MEMORY_PAGE * v(0) as u64),
        }
    }

    fn entry_key_quiet(&mut self, h: u64) -> Option<Vec<u8>> {
        let s = self.f_stale_use;
        let r = self.entry_key(h);
        self.f_stale_use = s;
        r
    }

    fn iter_index_quiet(&mut self, h: u64) -> Option<usize> {
        let (s, o) = (self.f_stale_use, self.f_old_iter_used);
        let r = self.iter_index(h);
        self.f_stale_use = s;
        self.f_old_iter_used = o;
        r
    }

    /// Execute one call.
    pub fn step(&mut self, call: &Call, a: &[u64]) -> Step {
        let c = self.c;
        let ctx = ctx_of(c);
        let v = |i: usize| a[i] as u32;
        let init = c.kind == Kind::Init;
        // functions of the other entrypoint kind are not available
        let init_only = matches!(call.f, F::GetInitOrigin);
        let recv_only = matches!(
            call.f,
            F::Accept
                | F::SimpleTransfer
                | F::Send
                | F::CombineAnd
                | F::CombineOr
                | F::GetReceiveInvoker
                | F::GetReceiveSelfAddress
                | F::GetReceiveSelfBalance
                | F::GetReceiveSender
                | F::GetReceiveOwner
                | F::Invoke
                | F::Upgrade
                | F::GetReceiveEntrypointSize
                | F::GetReceiveEntrypoint
        );
        if (init && recv_only) || (!init && init_only) {
            return Step::Trap;
        }
        let ret32 = |x: u32| Step::Ret(Some(x as u64));
        match call.f {
            F::GetParameterSize => match c.ver {
                Ver::V0 => ret32(c.param.len() as u32),
                Ver::V1 => match self.params.get(v(0) as usize) {
                    Some(p) => ret32(p.len() as u32),
                    None => ret32(u32::MAX),
                },
            },
            F::GetParameterSection => {
                let (src, ptr, len, off): (Option<Vec<u8>>, u32, u32, u32) = match c.ver {
                    Ver::V0 => (Some(c.param.clone()), v(0), v(1), v(2)),
                    Ver::V1 => (self.params.get(v(0) as usize).cloned(), v(1), v(2), v(3)),
                };
                let Some(src) = src else { return ret32(u32::MAX) };
                if !self.inb(ptr, len as u64) || off as usize > src.len() {
                    return Step::Trap;
                }
                ret32(self.read_into(ptr, len, &src, off))
            }
            F::GetPolicySection => {
                let (ptr, len, off) = (v(0), v(1), v(2));
                if !self.inb(ptr, len as u64) || off as usize > c.policy.len() {
                    return Step::Trap;
                }
                let src = c.policy.clone();
                ret32(self.read_into(ptr, len, &src, off))
            }
            F::LogEvent => {
                let (ptr, len) = (v(0), v(1));
                if !self.inb(ptr, len as u64) {
                    return Step::Trap;
                }
                if len > MAX_LOG {
                    self.f_limit_hit += 1;
                    return ret32(u32::MAX); // -1
                }
                if c.proto().limit && self.logs.len() >= MAX_LOGS {
                    self.f_limit_hit += 1;
                    return ret32(0);
                }
                let d = self.rd(ptr, len).to_vec();
                self.logs.push(d);
                ret32(1)
            }
            F::GetSlotTime => Step::Ret(Some(ctx.slot_time)),
            F::GetInitOrigin | F::GetReceiveInvoker | F::GetReceiveOwner => {
                if !self.inb(v(0), 32) {
                    return Step::Trap;
                }
                let d = match call.f {
                    F::GetInitOrigin => ctx.init_origin,
                    F::GetReceiveInvoker => ctx.invoker,
                    _ => ctx.owner,
                };
                self.wr(v(0), &d);
                Step::Ret(None)
            }
            F::GetReceiveSelfAddress => {
                if !self.inb(v(0), 16) {
                    return Step::Trap;
                }
                let mut d = ctx.self_index.to_le_bytes().to_vec();
                d.extend_from_slice(&ctx.self_subindex.to_le_bytes());
                self.wr(v(0), &d);
                Step::Ret(None)
            }
            F::GetReceiveSelfBalance => Step::Ret(Some(self.balance)),
            F::GetReceiveSender => {
                if !self.inb(v(0), ctx.sender.len() as u64) {
                    return Step::Trap;
                }
                self.wr(v(0), &ctx.sender);
                Step::Ret(None)
            }
            F::GetReceiveEntrypointSize => ret32(ctx.entrypoint.len() as u32),
            F::GetReceiveEntrypoint => {
                if !self.inb(v(0), ctx.entrypoint.len() as u64) {
                    return Step::Trap;
                }
                self.wr(v(0), ctx.entrypoint.as_bytes());
                Step::Ret(None)
            }
            // ---------------- v0 state ----------------
            F::LoadState => {
                let (ptr, len, off) = (v(0), v(1), v(2));
                if !self.inb(ptr, len as u64) || off as usize > self.state.len() {
                    return Step::Trap;
                }
                let src = self.state.clone();
                ret32(self.read_into(ptr, len, &src, off))
            }
            F::WriteState => {
                let (ptr, len, off) = (v(0), v(1), v(2));
                if !self.inb(ptr, len as u64) || off as usize > self.state.len() {
                    return Step::Trap;
                }
                let end = (off as usize + len as usize).min(MAX_STATE);
                if end < off as usize + len as usize {
                    self.f_limit_hit += 1;
                }
                if self.state.len() < end {
                    self.state.resize(end, 0);
                }
                let n = end - off as usize;
                let d = self.rd(ptr, n as u32).to_vec();
                self.state[off as usize..end].copy_from_slice(&d);
                if n > 0 {
                    self.f_state_change += 1;
                }
                ret32(n as u32)
            }
            F::ResizeState => {
                if v(0) as usize > MAX_STATE {
                    self.f_limit_hit += 1;
                    ret32(0)
                } else {
                    self.state.resize(v(0) as usize, 0);
                    self.f_state_change += 1;
                    ret32(1)
                }
            }
            F::StateSize => ret32(self.state.len() as u32),
            F::Accept => {
                self.actions.push(Act::Accept);
                ret32(self.actions.len() as u32 - 1)
            }
            F::SimpleTransfer => {
                if !self.inb(v(0), 32) {
                    return Step::Trap;
                }
                let to: [u8; 32] = self.rd(v(0), 32).try_into().unwrap();
                self.actions.push(Act::Transfer { to, amount: a[1] });
                ret32(self.actions.len() as u32 - 1)
            }
            F::Send => {
                let (np, nl, pp, pl) = (v(2), v(3), v(5), v(6));
                if !self.inb(pp, pl as u64) || !self.inb(np, nl as u64) {
                    return Step::Trap;
                }
                let name = self.rd(np, nl).to_vec();
                // receive names: ASCII alphanumeric or punctuation, contain a '.', at most 100 bytes
                if !name.contains(&b'.') || name.len() > 100 || !valid_name_chars(&name) {
                    return Step::Trap;
                }
                if pl as usize > c.proto().max_param {
                    self.f_limit_hit += 1;
                    return Step::Trap;
                }
                let parameter = self.rd(pp, pl).to_vec();
                self.actions.push(Act::Send { index: a[0], subindex: a[1], name: String::from_utf8(name).unwrap(), amount: a[4], parameter });
                ret32(self.actions.len() as u32 - 1)
            }
            F::CombineAnd | F::CombineOr => {
                let n = self.actions.len() as u32;
                if v(0) >= n || v(1) >= n {
                    return Step::Trap;
                }
                self.actions.push(if call.f == F::CombineAnd { Act::And(v(0), v(1)) } else { Act::Or(v(0), v(1)) });
                ret32(n)
            }
            // ---------------- v1 ----------------
            F::WriteOutput => {
                let (ptr, len, off) = (v(0), v(1), v(2));
                if !self.inb(ptr, len as u64) || off as usize > self.rv.len() {
                    return Step::Trap;
                }
                let mut end = off as usize + len as usize;
                if c.proto().limit && end > MAX_STATE {
                    end = MAX_STATE;
                    self.f_limit_hit += 1;
                }
                if self.rv.len() < end {
                    self.rv.resize(end, 0);
                }
                let n = end - off as usize;
                let d = self.rd(ptr, n as u32).to_vec();
                self.rv[off as usize..end].copy_from_slice(&d);
                ret32(n as u32)
            }
            F::Invoke => self.invoke(v(0), v(1), v(2)),
            F::Upgrade => {
                if !self.inb(v(0), 32) {
                    return Step::Trap;
                }
                Step::Interrupt(Intr::Upgrade { module: self.rd(v(0), 32).try_into().unwrap() })
            }
            F::StateLookupEntry => {
                let (ptr, len) = (v(0), v(1));
                if !self.inb(ptr, len as u64) {
                    return Step::Trap;
                }
                let key = self.rd(ptr, len).to_vec();
                if self.map.contains_key(&key) {
                    Step::Ret(Some(self.new_entry(&key)))
                } else {
                    Step::Ret(Some(NONE64))
                }
            }
            F::StateCreateEntry => {
                let (ptr, len) = (v(0), v(1));
                match sched::create_entry(len) {
                    Some(x) if x < (1 << 57) => {}
                    // the documented cost exceeds any budget
                    _ => return Step::Fail,
                }
                if !self.inb(ptr, len as u64) {
                    return Step::Trap;
                }
                let key = self.rd(ptr, len).to_vec();
                self.changed = true;
                if self.locked_for_key(&key) {
                    self.f_refused_lock += 1;
                    return Step::Ret(Some(NONE64));
                }
                self.map.insert(key.clone(), Vec::new());
                self.f_state_change += 1;
                Step::Ret(Some(self.new_entry(&key)))
            }
            F::StateDeleteEntry => {
                let (ptr, len) = (v(0), v(1));
                if !self.inb(ptr, len as u64) {
                    return Step::Trap;
                }
                let key = self.rd(ptr, len).to_vec();
                self.changed = true;
                if self.locked_for_key(&key) {
                    self.f_refused_lock += 1;
                    return ret32(0);
                }
                if self.map.remove(&key).is_some() {
                    *self.del_epoch.entry(key).or_insert(0) += 1;
                    self.f_state_change += 1;
                    ret32(2)
                } else {
                    ret32(1)
                }
            }
            F::StateDeletePrefix => {
                let (ptr, len) = (v(0), v(1));
                if !self.inb(ptr, len as u64) {
                    return Step::Trap;
                }
                let p = self.rd(ptr, len).to_vec();
                self.changed = true;
                if self.locked_for_prefix(&p) {
                    self.f_refused_lock += 1;
                    return ret32(0);
                }
                let victims: Vec<Vec<u8>> = keys_with_prefix(&self.map, &p).into_iter().cloned().collect();
                if victims.is_empty() {
                    return ret32(1);
                }
                for k in victims {
                    self.map.remove(&k);
                    *self.del_epoch.entry(k).or_insert(0) += 1;
                }
                self.f_state_change += 1;
                ret32(2)
            }
            F::StateIteratePrefix => {
                let (ptr, len) = (v(0), v(1));
                if !self.inb(ptr, len as u64) {
                    return Step::Trap;
                }
                let p = self.rd(ptr, len).to_vec();
                let snapshot: Vec<Vec<u8>> = keys_with_prefix(&self.map, &p).into_iter().cloned().collect();
                if snapshot.is_empty() {
                    return Step::Ret(Some(NONE64));
                }
                *self.locks.entry(p.clone()).or_insert(0) += 1;
                let idx = self.iters.len() as u64;
                self.iters.push(Some(IterM { prefix: p, snapshot, pos: 0, at: None }));
                Step::Ret(Some(((self.gen as u64) << 32) | idx))
            }
            F::StateIteratorNext => {
                let Some(i) = self.iter_index(a[0]) else { return Step::Ret(Some(ERR64)) };
                let Some(it) = self.iters[i].as_mut() else {
                    self.f_stale_use += 1;
                    return Step::Ret(Some(ERR64));
                };
                if it.pos < it.snapshot.len() {
                    let k = it.snapshot[it.pos].clone();
                    it.pos += 1;
                    it.at = Some(k.clone());
                    self.f_iter_yield += 1;
                    Step::Ret(Some(self.new_entry(&k)))
                } else {
                    it.at = None;
                    Step::Ret(Some(NONE64))
                }
            }
            F::StateIteratorDelete => {
                let Some(i) = self.iter_index(a[0]) else { return ret32(u32::MAX) };
                match self.iters[i].take() {
                    None => ret32(0),
                    Some(it) => {
                        if let Some(n) = self.locks.get_mut(&it.prefix) {
                            *n -= 1;
                            if *n == 0 {
                                self.locks.remove(&it.prefix);
                            }
                        }
                        ret32(1)
                    }
                }
            }
            F::StateIteratorKeySize => {
                let Some(i) = self.iter_index(a[0]) else { return ret32(u32::MAX) };
                match &self.iters[i] {
                    None => {
                        self.f_stale_use += 1;
                        ret32(u32::MAX)
                    }
                    Some(it) => match &it.at {
                        Some(k) => ret32(k.len() as u32),
                        // before the first / after the last element the current key is not documented
                        None => Step::Unspecified,
                    },
                }
            }
            F::StateIteratorKeyRead => {
                let (ptr, len, off) = (v(1), v(2), v(3));
                if !self.inb(ptr, len as u64) {
                    return Step::Trap;
                }
                let Some(i) = self.iter_index(a[0]) else { return ret32(u32::MAX) };
                match &self.iters[i] {
                    None => {
                        self.f_stale_use += 1;
                        ret32(u32::MAX)
                    }
                    Some(it) => match it.at.clone() {
                        Some(k) => ret32(self.read_into(ptr, len, &k, off)),
                        None => Step::Unspecified,
                    },
                }
            }
            F::StateEntryRead => {
                let (ptr, len, off) = (v(1), v(2), v(3));
                if !self.inb(ptr, len as u64) {
                    return Step::Trap;
                }
                let Some(k) = self.entry_key(a[0]) else { return ret32(u32::MAX) };
                let val = self.map[&k].clone();
                ret32(self.read_into(ptr, len, &val, off))
            }
            F::StateEntryWrite => {
                let (ptr, len, off) = (v(1), v(2), v(3));
                if !self.inb(ptr, len as u64) {
                    return Step::Trap;
                }
                self.changed = true;
                let Some(k) = self.entry_key(a[0]) else { return ret32(u32::MAX) };
                let cur = self.map[&k].len();
                if off as usize > cur {
                    return ret32(0);
                }
                let end = (off as usize + len as usize).min(MAX_ENTRY);
                let n = end - off as usize;
                let d = self.rd(ptr, n as u32).to_vec();
                let val = self.map.get_mut(&k).unwrap();
                if val.len() < end {
                    val.resize(end, 0);
                }
                val[off as usize..end].copy_from_slice(&d);
                self.f_state_change += 1;
                ret32(n as u32)
            }
            F::StateEntrySize => {
                let Some(k) = self.entry_key(a[0]) else { return ret32(u32::MAX) };
                ret32(self.map[&k].len() as u32)
            }
            F::StateEntryResize => {
                self.changed = true;
                let new = v(1) as usize;
                let Some(k) = self.entry_key(a[0]) else {
                    if new > MAX_ENTRY {
                        // "0 if too big" and "u32::MAX if invalidated" both apply; precedence is not documented
                        return Step::Unspecified;
                    }
                    return ret32(u32::MAX);
                };
                if new > MAX_ENTRY {
                    self.f_limit_hit += 1;
                    return ret32(0);
                }
                self.map.get_mut(&k).unwrap().resize(new, 0);
                self.f_state_change += 1;
                ret32(1)
            }
            F::VerifyEd25519 => {
                let (pk, sig, msg, len) = (v(0), v(1), v(2), v(3));
                if !self.inb(msg, len as u64) || !self.inb(pk, 32) || !self.inb(sig, 64) {
                    return Step::Trap;
                }
                use ed25519_dalek::{Signature, Verifier, VerifyingKey};
                let pkb: [u8; 32] = self.rd(pk, 32).try_into().unwrap();
                let sgb: [u8; 64] = self.rd(sig, 64).try_into().unwrap();
                let ok = match VerifyingKey::from_bytes(&pkb) {
                    Ok(k) => k.verify(self.rd(msg, len), &Signature::from_bytes(&sgb)).is_ok(),
                    Err(_) => false,
                };
                ret32(ok as u32)
            }
            F::VerifySecp256k1 => {
                let (pk, sig, msg) = (v(0), v(1), v(2));
                if !self.inb(msg, 32) || !self.inb(pk, 33) || !self.inb(sig, 64) {
                    return Step::Trap;
                }
                // the stand-in library never verifies; only safety/charging/trapping is claimed
                ret32(0)
            }
            F::HashSha2 | F::HashSha3 | F::HashKeccak => {
                let (ptr, len, out) = (v(0), v(1), v(2));
                if !self.inb(ptr, len as u64) || !self.inb(out, 32) {
                    return Step::Trap;
                }
                let d = self.rd(ptr, len);
                let h: [u8; 32] = match call.f {
                    F::HashSha2 => sha2::Sha256::digest(d).into(),
                    F::HashSha3 => sha3::Sha3_256::digest(d).into(),
                    _ => sha3::Keccak256::digest(d).into(),
                };
                self.wr(out, &h);
                Step::Ret(None)
            }
            F::MemoryGrow => {
                let n = v(0) as u64;
                let pages = self.memlen() / PAGE as u64;
                if pages + n > self.max_pages as u64 {
                    ret32(u32::MAX)
                } else {
                    self.mem.resize(((pages + n) * PAGE as u64) as usize, 0);
                    ret32(pages as u32)
                }
            }
        }
    }

    fn invoke(&mut self, tag: u32, ptr: u32, len: u32) -> Step {
        let p = self.c.proto();
        let exact = |m: &Self, want: u32| -> bool { len == want && m.inb(ptr, len as u64) };
        let addr32 = |m: &Self| -> [u8; 32] { m.rd(ptr, 32).try_into().unwrap() };
        let caddr = |m: &Self| -> (u64, u64) {
            (u64::from_le_bytes(m.rd(ptr, 8).try_into().unwrap()), u64::from_le_bytes(m.rd(ptr + 8, 8).try_into().unwrap()))
        };
        match tag {
            0 => {
                if !exact(self, 40) {
                    return Step::Trap;
                }
                let amount = u64::from_le_bytes(self.rd(ptr + 32, 8).try_into().unwrap());
                Step::Interrupt(Intr::Transfer { to: addr32(self), amount })
            }
            1 => {
                if !self.inb(ptr, len as u64) {
                    return Step::Trap;
                }
                let d = self.rd(ptr, len).to_vec();
                let mut at = 0usize;
                let mut take = |n: usize| -> Option<&[u8]> {
                    if at + n <= d.len() {
                        let s = &d[at..at + n];
                        at += n;
                        Some(s)
                    } else {
                        None
                    }
                };
                let Some(ix) = take(8) else { return Step::Trap };
                let index = u64::from_le_bytes(ix.try_into().unwrap());
                let Some(sx) = take(8) else { return Step::Trap };
                let subindex = u64::from_le_bytes(sx.try_into().unwrap());
                let Some(pl) = take(2) else { return Step::Trap };
                let plen = u16::from_le_bytes(pl.try_into().unwrap()) as usize;
                if plen > p.max_param {
                    self.f_limit_hit += 1;
                    return Step::Trap;
                }
                let Some(par) = take(plen) else { return Step::Trap };
                let parameter = par.to_vec();
                let Some(nl) = take(2) else { return Step::Trap };
                let nlen = u16::from_le_bytes(nl.try_into().unwrap()) as usize;
                let Some(nm) = take(nlen) else { return Step::Trap };
                // entrypoint names: ASCII alphanumeric or punctuation, fewer than 100 bytes
                if nm.len() >= 100 || !valid_name_chars(nm) {
                    return Step::Trap;
                }
                let name = String::from_utf8(nm.to_vec()).unwrap();
                let Some(am) = take(8) else { return Step::Trap };
                let amount = u64::from_le_bytes(am.try_into().unwrap());
                Step::Interrupt(Intr::Call { index, subindex, parameter, name, amount })
            }
            2 if p.queries => {
                if !exact(self, 32) {
                    return Step::Trap;
                }
                Step::Interrupt(Intr::QueryAccountBalance { address: addr32(self) })
            }
            3 if p.queries => {
                if !exact(self, 16) {
                    return Step::Trap;
                }
                let (index, subindex) = caddr(self);
                Step::Interrupt(Intr::QueryContractBalance { index, subindex })
            }
            4 if p.queries => {
                if len != 0 {
                    return Step::Trap;
                }
                Step::Interrupt(Intr::QueryExchangeRates)
            }
            5 if p.sigs => {
                if len < 32 || !self.inb(ptr, len as u64) {
                    return Step::Trap;
                }
                Step::Interrupt(Intr::CheckAccountSignature { address: addr32(self), payload: self.rd(ptr + 32, len - 32).to_vec() })
            }
            6 if p.sigs => {
                if !exact(self, 32) {
                    return Step::Trap;
                }
                Step::Interrupt(Intr::QueryAccountKeys { address: addr32(self) })
            }
            7 if p.inspect => {
                if !exact(self, 16) {
                    return Step::Trap;
                }
                let (index, subindex) = caddr(self);
                Step::Interrupt(Intr::QueryContractModuleReference { index, subindex })
            }
            8 if p.inspect => {
                if !exact(self, 16) {
                    return Step::Trap;
                }
                let (index, subindex) = caddr(self);
                Step::Interrupt(Intr::QueryContractName { index, subindex })
            }
            _ => Step::Trap,
        }
    }

    /// Apply the scripted response to an interrupt; returns the value `invoke` evaluates to.
    pub fn resume(&mut self, r: &Resp) -> u64 {
        if r.state_updated {
            for (k, v) in &r.mods {
                match v {
                    Some(v) => {
                        self.map.insert(k.clone(), v.clone());
                    }
                    None => {
                        self.map.remove(k);
                    }
                }
            }
            // a state update invalidates everything handed out before
            self.f_iter_only_update = self.iters.iter().any(|i| i.is_some()) && self.entries.is_empty();
            self.gen += 1;
            self.entries.clear();
            self.iters.clear();
            self.locks.clear();
            self.del_epoch.clear();
        }
        self.changed = false;
        match &r.kind {
            RespKind::Success { data, new_balance } => {
                self.balance = *new_balance;
                let tag: u64 = if r.state_updated { 1 << 23 } else { 0 };
                match data {
                    Some(d) => {
                        let idx = self.params.len() as u64;
                        self.params.push(d.clone());
                        (idx | tag) << 40
                    }
                    None => tag << 40,
                }
            }
            RespKind::Reject { code, data } => {
                let idx = self.params.len() as u64;
                self.params.push(data.clone());
                (idx << 40) | (*code as u32 as u64)
            }
            RespKind::Env(e) => (*e as u64) << 32,
        }
    }
}
