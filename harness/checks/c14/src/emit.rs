//! Compile a host-call script into a Wasm module (our own AST + encoder) and compute, from the
//! independent cost tables, the instruction energy charged up to each call.
use crate::script::*;
use wasmgen::ast::*;
use wasmgen::cost::{static_costs, CostTable};

pub struct Emitted {
    pub module:    Module,
    pub bytes:     Vec<u8>,
    pub entry:     &'static str,
    /// position in the body of the call instruction of script call k (index calls.len() = the dump call)
    pub call_pc:   Vec<usize>,
    /// body positions [from, to) that are only executed in the dump run
    pub dump_body: (usize, usize),
    /// per-instruction scheduled cost of the body
    pub cost:      Vec<u64>,
    /// charged on function entry (declared locals) plus initial memory
    pub entry_cost: u64,
}

/// The extra call appended in the dump run: exposes linear memory through the state (v0) or the
/// return value (v1).
pub fn dump_call(c: &Case, mem_len_model: u32) -> Call {
    let k = |v: u32| Arg::C(v as u64);
    match c.ver {
        Ver::V0 => Call { f: F::WriteState, args: vec![k(c.dump_q * 16384), k(16384), k(0)] },
        Ver::V1 => {
            if c.proto().limit {
                Call { f: F::WriteOutput, args: vec![k(c.dump_q * 16384), k(16384), k(0)] }
            } else {
                Call { f: F::WriteOutput, args: vec![k(0), k(mem_len_model), k(0)] }
            }
        }
    }
}

fn intern(types: &mut Vec<FuncType>, t: FuncType) -> u32 {
    if let Some(i) = types.iter().position(|x| *x == t) {
        i as u32
    } else {
        types.push(t);
        (types.len() - 1) as u32
    }
}

fn slot_addr(k: usize) -> i32 { (RES_BASE + 8 * k as u32) as i32 }

fn push_arg(body: &mut Vec<Op>, a: &Arg, ty: ValType) {
    match (a, ty) {
        (Arg::C(v), ValType::I32) => body.push(Op::I32Const(*v as u32 as i32)),
        (Arg::C(v), ValType::I64) => body.push(Op::I64Const(*v as i64)),
        (Arg::R(j), ValType::I32) => {
            body.push(Op::I32Const(slot_addr(*j)));
            body.push(Op::Mem { op: MemOp::I32Load, align: 2, offset: 0 });
        }
        (Arg::R(j), ValType::I64) => {
            body.push(Op::I32Const(slot_addr(*j)));
            body.push(Op::Mem { op: MemOp::I64Load, align: 3, offset: 0 });
        }
    }
}

fn emit_call(body: &mut Vec<Op>, ver: Ver, call: &Call, slot: usize, func_index: &dyn Fn(F) -> u32) -> usize {
    let (params, result) = call.f.sig(ver);
    if result.is_some() {
        body.push(Op::I32Const(slot_addr(slot)));
    }
    for (a, t) in call.args.iter().zip(params.iter()) {
        push_arg(body, a, *t);
    }
    let pc = body.len();
    if call.f == F::MemoryGrow {
        body.push(Op::MemoryGrow);
    } else {
        body.push(Op::Call(func_index(call.f)));
    }
    match result {
        Some(ValType::I32) => body.push(Op::Mem { op: MemOp::I32Store, align: 2, offset: 0 }),
        Some(ValType::I64) => body.push(Op::Mem { op: MemOp::I64Store, align: 3, offset: 0 }),
        None => {}
    }
    pc
}

pub fn emit(c: &Case, dump: &Call) -> Emitted {
    let mut types: Vec<FuncType> = Vec::new();
    let mut imports: Vec<Import> = Vec::new();
    let mut used: Vec<F> = Vec::new();
    for call in c.calls.iter().chain(std::iter::once(dump)) {
        if call.f != F::MemoryGrow && !used.contains(&call.f) {
            used.push(call.f);
        }
    }
    for f in &used {
        let (p, r) = f.sig(c.ver);
        let ty = intern(&mut types, FuncType { params: p.to_vec(), result: r });
        imports.push(Import { module: "concordium".into(), name: f.name().into(), ty });
    }
    let entry_ty = intern(&mut types, FuncType { params: vec![ValType::I64], result: Some(ValType::I32) });
    let func_index = |f: F| used.iter().position(|x| *x == f).unwrap() as u32;

    let mut body: Vec<Op> = Vec::new();
    let mut call_pc = Vec::new();
    for (k, call) in c.calls.iter().enumerate() {
        call_pc.push(emit_call(&mut body, c.ver, call, k, &func_index));
    }
    // dump epilogue, executed only when the amount argument is 1
    body.push(Op::LocalGet(0));
    body.push(Op::I64Const(1));
    body.push(Op::Num(NumOp::I64Eq));
    body.push(Op::If(BlockType::Empty));
    let from = body.len();
    call_pc.push(emit_call(&mut body, c.ver, dump, c.calls.len(), &func_index));
    let to = body.len();
    body.push(Op::End);
    match c.ret {
        Ret::Const(v) => body.push(Op::I32Const(v)),
        Ret::Slot(j) => {
            body.push(Op::I32Const(slot_addr(j)));
            body.push(Op::Mem { op: MemOp::I32Load, align: 2, offset: 0 });
        }
    }
    body.push(Op::End);

    let entry = match c.kind {
        Kind::Init => "init_c",
        Kind::Receive => "c.r",
    };
    let nimports = imports.len() as u32;
    let module = Module {
        types,
        imports,
        funcs: vec![Func { ty: entry_ty, locals: vec![], body }],
        table: None,
        memory: Some(Limits { min: c.init_pages, max: c.max_pages }),
        globals: vec![],
        exports: vec![Export { name: entry.into(), kind: ExportKind::Func(nimports) }],
        start: None,
        elems: vec![],
        datas: c.blobs.iter().map(|(a, b)| Data { offset: ConstExpr::I32(*a as i32), bytes: b.clone() }).collect(),
        customs: vec![],
    };
    let table = if c.cost_v1 { CostTable::V1 } else { CostTable::V0 };
    let sc = static_costs(&module, table);
    let cost = sc.per_instr[0].clone();
    let entry_cost = sc.invoke_after[0] + 100 * c.init_pages as u64;
    let bytes = wasmgen::encode::encode(&module);
    Emitted { module, bytes, entry, call_pc, dump_body: (from, to), cost, entry_cost }
}

impl Emitted {
    /// Instruction energy charged when call `k` is entered (the metering charges a whole straight-line
    /// segment, which ends with the call instruction, before executing it).
    pub fn instr_cost_at_call(&self, k: usize) -> u64 { self.cost[..=self.call_pc[k]].iter().sum() }

    /// Instruction energy of a complete run.
    pub fn instr_cost_total(&self, dump: bool) -> u64 {
        let all: u64 = self.cost.iter().sum();
        if dump {
            all
        } else {
            all - self.cost[self.dump_body.0..self.dump_body.1].iter().sum::<u64>()
        }
    }
}
