//! C12: encrypted amounts conserve value and bind transfers to keys and balances.
//!
//! Targets
//!   * `chunks`     pure arithmetic: ChunkSize::{mask,u64_to_chunks,chunks_to_u64}, value_to_chunks /
//!                  chunks_to_value against an independent u128 / limb transcription.
//!   * `roundtrip`  encrypt_amount -> decrypt_amount (BabyStepGiantStep tables of several sizes),
//!                  fixed-randomness encryption, join(), elgamal-level chunked encryption.
//!   * `aggregate`  homomorphism of `aggregate`: ciphertext = component-wise sum, plaintext = sum
//!                  (group level always; through decrypt_amount when inside the table budget).
//!   * `transfer`   make_transfer_data / verify_transfer_data: completeness, conservation,
//!                  overdraft => None, lying balance claims and single-component perturbations
//!                  => verification fails.
//!   * `sec_to_pub` the same for make_sec_to_pub_transfer_data / verify_sec_to_pub_transfer_data.
#![allow(deprecated, non_snake_case, clippy::too_many_arguments)]

pub mod common;
mod perturb;
mod t_cheap;
mod t_transfer;

use vcore::{Property, Target};

pub fn property() -> Property {
    Property {
        id: "C12",
        rule: "Cases are decoded from a choice sequence: a global context (3 variants sharing the \
               chain's generators), ElGamal key pairs from a scalar table (1, 2, -1, 0, small, random; \
               chain generator or a custom one), amounts built per 32-bit chunk from a boundary table \
               (0, 1, 2, 2^16-1, 2^16, 2^31, 2^32-2, 2^32-1, multiples of the decryption-table size +-1, \
               random) so that 0, 1, 2^32-1, 2^32, 2^32+1, 2^64-1 all occur, lists of 1-8 amounts for \
               aggregation (with and without a carry out of the low chunk, inside and outside the \
               decryption budget), and (balance, transfer) pairs with transfer in {0, 1, balance-1, \
               balance, balance+1, half, random below, random above, low-chunk borrow} on an account \
               model (self amount + incoming amounts aggregated up to an index). All randomness of the \
               code under test is a ChaCha20 stream seeded from the case. A roundtrip/aggregate case is \
               non-trivial when a chunk is at a 32-bit or table boundary or the aggregation carries; a \
               transfer case is non-trivial when it produced a proof that verified and was then \
               perturbed, or when it is an overdraft/lying attempt. Distinct cases are counted by \
               (amounts, key kinds, table / relation, perturbation kinds).",
        assumptions: &[
            "Soundness is attacked only with concrete strategies: the honest prover run on a false \
             balance claim, and single-component perturbations of ciphertexts, keys, index, proof bytes \
             and global context; this is not a soundness proof.",
            "The aggregation index is not part of the proof transcript (documented: 'index is only \
             important for on-chain stuff, not for proofs'); it binds through the caller recomputing \
             the sender's aggregated amount up to that index, which is how the check models index \
             alterations. Altering only the index field while the verifier is handed the unchanged \
             before-amount is accepted by verify_transfer_data and is recorded as an observation class, \
             not as a violation.",
            "Verification sees the sender's amount only through EncryptedAmount::join(); perturbations \
             of the before-amount therefore change the joined ciphertext.",
            "decrypt_amount is exercised within a step budget (value/table size <= ~9000 giant steps); \
             beyond it decryption is decided at group level (sk.decrypt(c) == h^chunk), which is what \
             the discrete-log table inverts. Sums above u64::MAX are outside the claim.",
            "Key generators: both parties use the same ElGamal generator (the chain's, or one custom \
             generator per case), as the protocol assumes.",
        ],
        targets: vec![
            Target::new("chunks", t_cheap::t_chunks).len(0, 96).cases(200_000, 20_000_000),
            Target::new("roundtrip", t_cheap::t_roundtrip)
                .len(0, 160)
                .cases(30_000, 1_000_000)
                .floors(&[("nt-boundary", 0.25), ("bsgs-decrypt", 0.18)]),
            Target::new("aggregate", t_cheap::t_aggregate)
                .len(0, 320)
                .cases(10_000, 300_000)
                .floors(&[("nt", 0.3), ("bsgs-decrypt", 0.25), ("carry-low-chunk", 0.08)]),
            Target::new("transfer", t_transfer::t_transfer)
                .len(0, 400)
                .cases(1000, 30_000)
                .shrink_iters(40)
                .floors(&[("valid-verified", 0.2), ("overdraft-none", 0.02), ("lying-claim", 0.08)]),
            Target::new("sec_to_pub", t_transfer::t_sec_to_pub)
                .len(0, 400)
                .cases(1000, 30_000)
                .shrink_iters(40)
                .floors(&[("valid-verified", 0.2), ("overdraft-none", 0.02), ("lying-claim", 0.08)]),
        ],
    }
}
