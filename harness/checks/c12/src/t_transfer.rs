//! Expensive targets: encrypted transfers and secret-to-public transfers on an account model.
use crate::{common::*, perturb::*};
use concordium_base::{
    common::to_bytes,
    curve_arithmetic::Curve,
    elgamal::{Cipher, PublicKey},
    encrypted_transfers::{
        aggregate, decrypt_amount, encrypt_amount, encrypt_amount_with_fixed_randomness,
        make_sec_to_pub_transfer_data, make_transfer_data,
        types::{
            AggregatedDecryptedAmount, EncryptedAmount, EncryptedAmountTransferData,
            SecToPubAmountTransferData,
        },
        verify_sec_to_pub_transfer_data, verify_transfer_data,
    },
    id::types::GlobalContext,
};
use vcore::{gen, vensure, CheckResult, Ctx, Unstructured, Violation};

/// The sender's account as the chain sees it: a self amount and incoming amounts with consecutive
/// indices starting at `start`. A transfer with aggregation index `start + k` spends the aggregate of
/// the self amount and the first `k` incoming amounts.
pub struct Account {
    pub self_amount: EncryptedAmount<C>,
    pub incoming:    Vec<EncryptedAmount<C>>,
    /// plaintexts: parts[0] is the self amount, parts[1..] the incoming amounts
    pub parts:       Vec<u64>,
    pub start:       u64,
}

impl Account {
    pub fn agg(&self, k: usize) -> EncryptedAmount<C> {
        let mut a = self.self_amount.clone();
        for x in &self.incoming[..k] {
            a = aggregate(&a, x);
        }
        a
    }

    /// What the chain hands to the verifier for a transaction carrying aggregation index `index`.
    pub fn before_for_index(&self, index: u64) -> Option<EncryptedAmount<C>> {
        if index < self.start {
            return None;
        }
        let k = index - self.start;
        if k > self.incoming.len() as u64 {
            return None;
        }
        Some(self.agg(k as usize))
    }
}

struct Setup {
    ci:       usize,
    gctx:     &'static GlobalContext<C>,
    gkind:    &'static str,
    sender:   Key,
    receiver: Key,
    same_key: bool,
    balance:  u64,
    account:  Account,
    k:        usize,
    relation: &'static str,
    amount:   u64,
    claim:    u64,
    perturbs: Vec<[u8; 4]>,
    with_receiver: bool,
}

const N_PERTURB: usize = 4;

/// Perturbation selected by `p[0] % 32` in each target (names only; the match arms are authoritative).
const KINDS_TRANSFER: [&str; 32] = [
    "remaining-chunk", "remaining-chunk", "transfer-chunk", "transfer-chunk", "swap-chunks", "rerandomize", "sender-key",
    "sender-key", "receiver-key", "receiver-key", "swap-keys", "before-chunk", "before-chunk", "index", "index", "index",
    "proof-scalar", "proof-scalar", "proof-scalar", "proof-point", "proof-point", "proof-point", "proof-length",
    "proof-challenge", "proof-bitflip", "proof-bitflip", "proof-swap", "proof-swap", "context", "context", "context", "context",
];
const KINDS_SEC_TO_PUB: [&str; 32] = [
    "remaining-chunk", "remaining-chunk", "remaining-chunk", "swap-chunks", "rerandomize", "public-amount", "public-amount",
    "public-amount", "public-amount", "sender-key", "sender-key", "sender-key", "before-chunk", "before-chunk", "index", "index",
    "proof-scalar", "proof-scalar", "proof-scalar", "proof-point", "proof-point", "proof-point", "proof-length",
    "proof-challenge", "proof-bitflip", "proof-bitflip", "proof-swap", "proof-swap", "context", "context", "context", "context",
];

fn decode(u: &mut Unstructured, rng: &mut Rng, with_receiver: bool) -> Setup {
    let e = env();
    let ci = gen::idx(u, e.ctxs.len());
    let gctx = &e.ctxs[ci];
    let (g, gkind) = gen_generator(u, rng);
    let sender = gen_key(u, &g, rng);
    let same_key = with_receiver && (gen::byte(u) < 24);
    let receiver = if !with_receiver || same_key {
        Key { sk: sender.sk.clone(), pk: sender.pk, kind: sender.kind }
    } else {
        // an accidental key collision (e.g. both choice 0) is replaced by a distinct fixed key
        let mut k = gen_key(u, &g, rng);
        if k.pk == sender.pk {
            let sk = concordium_base::elgamal::SecretKey { generator: g, scalar: C::scalar_from_u64(7) };
            k = Key { pk: PublicKey::from(&sk), sk, kind: "sk=7" };
        }
        k
    };
    let balance = gen_balance(u);

    // account: how the balance is spread over self amount and incoming amounts
    let n_in = gen::idx(u, 4);
    let k = gen::idx(u, n_in + 1);
    let mut rem = balance;
    let mut parts = vec![0u64; n_in + 1];
    for p in parts.iter_mut().take(k + 1).skip(1) {
        let v = match gen::byte(u) % 6 {
            0 => 0,
            1 => 1,
            2 => rem & U32M,
            3 => U32M,
            4 => rem,
            _ => gen::range_u64(u, 0, rem),
        }
        .min(rem);
        *p = v;
        rem -= v;
    }
    parts[0] = rem;
    for p in parts.iter_mut().skip(k + 1) {
        *p = gen::byte(u) as u64;
    }
    let start = gen::boundary_u64(u) >> 1;
    let fixed_self = gen::byte(u) < 32;
    let self_amount = if fixed_self {
        encrypt_amount_with_fixed_randomness(gctx, amt(parts[0]))
    } else {
        encrypt_amount(gctx, &sender.pk, amt(parts[0]), rng).0
    };
    let incoming = parts[1..].iter().map(|p| encrypt_amount(gctx, &sender.pk, amt(*p), rng).0).collect();
    let account = Account { self_amount, incoming, parts, start };

    let (blo, bhi) = lo_hi(balance);
    let (relation, amount) = match gen::byte(u) % 20 {
        0 | 1 => ("t=balance-1", balance.saturating_sub(1)),
        2 | 3 => ("t=balance", balance),
        4 | 5 | 6 => ("t=balance+1", balance.checked_add(1).unwrap_or(balance)),
        7 => ("t=0", 0),
        8 | 9 => ("t=1", 1),
        10 => ("t=half", balance / 2),
        11 | 12 => ("t=random-below", gen::range_u64(u, 0, balance)),
        13 | 14 => ("t=random-above", if balance < u64::MAX { gen::range_u64(u, balance + 1, u64::MAX) } else { balance }),
        15 | 16 => {
            // low-chunk borrow: transfer's low chunk exceeds the balance's low chunk
            if bhi > 0 && blo < U32M {
                ("t=borrow", amount_of(gen::range_u64(u, blo + 1, U32M), gen::range_u64(u, 0, bhi - 1)))
            } else {
                ("t=balance", balance)
            }
        }
        17 => ("t=low-chunk", blo),
        18 => ("t=high-chunk", bhi << 32),
        _ => ("t=2^32", if balance > U32M { U32M + 1 } else { balance }),
    };
    // balance claim handed to the prover: honest, or a lie
    let lie = gen::byte(u);
    let claim = if amount > balance {
        if lie < 140 {
            match lie % 3 {
                0 => amount,
                1 => amount.saturating_add(1 + (lie as u64)),
                _ => u64::MAX,
            }
        } else {
            balance
        }
    } else if lie < 24 {
        match lie % 4 {
            0 => balance.checked_add(1).unwrap_or(balance),
            1 if balance > amount => balance - 1,
            2 => balance.checked_add(U32M + 1).unwrap_or(balance),
            _ => u64::MAX,
        }
    } else {
        balance
    };
    let mut perturbs = Vec::with_capacity(N_PERTURB);
    for _ in 0..N_PERTURB {
        perturbs.push(gen::array::<4>(u));
    }
    Setup { ci, gctx, gkind, sender, receiver, same_key, balance, account, k, relation, amount, claim, perturbs, with_receiver }
}

impl Setup {
    fn describe(&self, what: &str) -> String {
        let names: &[&str; 32] = if self.with_receiver { &KINDS_TRANSFER } else { &KINDS_SEC_TO_PUB };
        let perturbs: Vec<String> = self.perturbs.iter().map(|p| format!("{}{:?}", names[(p[0] % 32) as usize], &p[1..])).collect();
        format!(
            "{what}: ctx={} {} sender {}{}{} balance={:#x} parts(self,incoming..)={:x?} aggregated k={} start index={} {} amount={:#x} claim={:#x} perturbations={:?}",
            CTX_NAMES[self.ci],
            self.gkind,
            self.sender.kind,
            if self.with_receiver { format!(" receiver {}", self.receiver.kind) } else { String::new() },
            if self.same_key { " (same key)" } else { "" },
            self.balance,
            self.account.parts,
            self.k,
            self.account.start,
            self.relation,
            self.amount,
            self.claim,
            perturbs
        )
    }

    fn classes(&self, ctx: &mut Ctx) {
        ctx.class(CTX_NAMES[self.ci]);
        ctx.class(self.gkind);
        ctx.class(&format!("sender-{}", self.sender.kind));
        ctx.class(self.relation);
        ctx.class(&format!("aggregated-incoming={}", self.k));
        if self.same_key {
            ctx.class("self-transfer(same-key)");
        }
        let lo_sum: u64 = self.account.parts[..=self.k].iter().map(|p| p & U32M).sum();
        if lo_sum > U32M {
            ctx.class("balance-noncanonical-chunks");
        }
        let (blo, bhi) = lo_hi(self.balance);
        if is_chunk_boundary(blo) || is_chunk_boundary(bhi) {
            ctx.class("balance-at-chunk-boundary");
        }
    }

    fn input(&self) -> AggregatedDecryptedAmount<C> {
        AggregatedDecryptedAmount {
            agg_encrypted_amount: self.account.agg(self.k),
            agg_amount:           amt(self.claim),
            agg_index:            (self.account.start + self.k as u64).into(),
        }
    }

    fn key(&self) -> (u64, u64, u64, &'static str, &'static str, usize, Vec<u64>) {
        (self.balance, self.amount, self.claim, self.sender.kind, self.receiver.kind, self.ci, self.account.parts.clone())
    }
}

/// Conservation through the real decryption (big table) when within the step budget.
fn bsgs_budget(vals: &[u64]) -> bool {
    let m = TABLE_M[BIG];
    let cost: u64 = vals.iter().map(|v| steps(v & U32M, m) + steps(v >> 32, m)).sum();
    cost <= 4500
}

fn mutate_ctx(ci: usize, op: u8, p: u8) -> (GlobalContext<C>, String) {
    let e = env();
    let mut c = e.ctxs[ci].clone();
    let n = c.bulletproof_generators.G_H.len();
    let what = match op % 8 {
        0 => {
            c.genesis_string.push('x');
            "genesis_string + 'x'".to_string()
        }
        1 => {
            if c.genesis_string.is_empty() {
                c.genesis_string.push('\0');
                "genesis_string := \"\\0\"".to_string()
            } else {
                c.genesis_string.pop();
                "genesis_string shortened".to_string()
            }
        }
        2 => {
            c.on_chain_commitment_key.g = perturb_point(&c.on_chain_commitment_key.g, p).0;
            "on_chain_commitment_key.g altered".to_string()
        }
        3 => {
            c.on_chain_commitment_key.h = perturb_point(&c.on_chain_commitment_key.h, p).0;
            "on_chain_commitment_key.h (encryption generator) altered".to_string()
        }
        4 => {
            let i = p as usize % n.min(64);
            c.bulletproof_generators.G_H[i].0 = perturb_point(&c.bulletproof_generators.G_H[i].0, p >> 6).0;
            format!("bulletproof generator G[{i}] altered")
        }
        5 => {
            let i = p as usize % n;
            c.bulletproof_generators.G_H[i].1 = perturb_point(&c.bulletproof_generators.G_H[i].1, p >> 6).0;
            format!("bulletproof generator H[{i}] altered")
        }
        6 => {
            let keep = [63usize, 64, 32, 1, 0, n - 1][p as usize % 6].min(n - 1);
            c.bulletproof_generators.G_H.truncate(keep);
            format!("bulletproof generators truncated to {keep}")
        }
        _ => {
            let other = (ci + 1 + (p as usize % 2)) % e.ctxs.len();
            c = e.ctxs[other].clone();
            format!("global context {} instead of {}", CTX_NAMES[other], CTX_NAMES[ci])
        }
    };
    (c, what)
}

fn mutate_pk(pk: &PublicKey<C>, op: u8) -> (PublicKey<C>, &'static str) {
    let mut q = *pk;
    if op % 3 == 0 {
        q.generator = perturb_point(&pk.generator, op / 3).0;
        (q, "generator altered")
    } else {
        q.key = perturb_point(&pk.key, op / 3).0;
        (q, "key altered")
    }
}

fn mutate_amount_chunk(e: &EncryptedAmount<C>, sel: u8, op: u8) -> (EncryptedAmount<C>, String) {
    let mut q = e.clone();
    let j = (sel & 1) as usize;
    let (p, what) = if sel & 2 == 0 {
        let (p, w) = perturb_point(&e.encryptions[j].0, op);
        q.encryptions[j].0 = p;
        (0, w)
    } else {
        let (p, w) = perturb_point(&e.encryptions[j].1, op);
        q.encryptions[j].1 = p;
        (1, w)
    };
    (q, format!("{}.{} {}", ["lo", "hi"][j], p, what))
}

/// `proof.range_transfer.ip.L[3] +g` -> `proof.range_transfer.ip.L`
fn family(desc: &str) -> String {
    let name = desc.split(' ').next().unwrap_or("");
    let mut out = String::new();
    let mut skip = false;
    for ch in name.chars() {
        match ch {
            '[' => skip = true,
            ']' => skip = false,
            c if !skip => out.push(c),
            _ => {}
        }
    }
    out
}

enum Outcome {
    /// the perturbed input was accepted by verification
    Accepted,
    Rejected,
    /// the perturbation did not change anything (not counted)
    Noop,
}

// ---------------------------------------------------------------------------------------------

pub fn t_transfer(data: &[u8], ctx: &mut Ctx) -> CheckResult {
    let mut u = Unstructured::new(data);
    let mut rng = gen::rng(&mut u);
    let s = decode(&mut u, &mut rng, true);
    s.classes(ctx);
    ctx.class(&format!("receiver-{}", s.receiver.kind));
    ctx.describe(|| s.describe("transfer"));
    ctx.sample(|| s.describe("transfer"));

    let input = s.input();
    let before = input.agg_encrypted_amount.clone();
    let td = make_transfer_data(s.gctx, &s.receiver.pk, &s.sender.sk, &input, amt(s.amount), &mut rng);

    if s.amount > s.claim {
        // exceeds even the claimed balance: nothing may be produced
        ctx.class("overdraft-none");
        ctx.nontrivial(&s.key());
        vensure!(td.is_none(), "overdraft-produced", "make_transfer_data produced a transfer of {:#x} from balance {:#x}", s.amount, s.claim);
        return Ok(());
    }
    if s.claim != s.balance {
        // the honest prover algorithm on a false balance claim: whatever it outputs must not verify
        ctx.class("lying-claim");
        ctx.nontrivial(&s.key());
        if s.amount > s.balance {
            ctx.class("lying-claim-overdraft");
        }
        match td {
            None => ctx.class("lying-claim-no-output"),
            Some(td) => {
                let ok = verify_transfer_data(s.gctx, &s.receiver.pk, &s.sender.pk, &before, &td);
                vensure!(
                    !ok,
                    "false-claim-verifies",
                    "a transfer of {:#x} built on the false balance claim {:#x} (true balance {:#x}) verifies",
                    s.amount,
                    s.claim,
                    s.balance
                );
            }
        }
        return Ok(());
    }

    // honest, amount <= balance
    let Some(td) = td else {
        return Err(Violation::new("completeness-make", format!("make_transfer_data returned None for amount {:#x} <= balance {:#x}", s.amount, s.balance)));
    };
    vensure!(td.index.index == input.agg_index.index, "index-copied", "transfer data carries index {} instead of {}", td.index.index, input.agg_index.index);
    let chain_verify = |gctx: &GlobalContext<C>, rpk: &PublicKey<C>, spk: &PublicKey<C>, td: &EncryptedAmountTransferData<C>| -> bool {
        match s.account.before_for_index(td.index.index) {
            None => false,
            Some(b) => verify_transfer_data(gctx, rpk, spk, &b, td),
        }
    };
    vensure!(
        chain_verify(s.gctx, &s.receiver.pk, &s.sender.pk, &td),
        "completeness-verify",
        "verify_transfer_data rejects an honestly made transfer of {:#x} from {:#x}",
        s.amount,
        s.balance
    );
    ctx.class("valid-verified");
    ctx.nontrivial(&(s.key(), s.perturbs.iter().map(|p| p[0] % 32).collect::<Vec<_>>()));

    // conservation
    let remaining = s.balance - s.amount;
    vensure!(
        amount_decrypts_to(&s.sender.sk, &td.remaining_amount, remaining),
        "conservation-remaining",
        "remaining amount does not decrypt (sender key) to the chunks of {remaining:#x}"
    );
    vensure!(
        amount_decrypts_to(&s.receiver.sk, &td.transfer_amount, s.amount),
        "conservation-transfer",
        "transfer amount does not decrypt (receiver key) to the chunks of {:#x}",
        s.amount
    );
    if bsgs_budget(&[remaining, s.amount]) {
        ctx.class("conservation-bsgs");
        let t = table(BIG);
        let r = decrypt_amount(t, &s.sender.sk, &td.remaining_amount).micro_ccd();
        let a = decrypt_amount(t, &s.receiver.sk, &td.transfer_amount).micro_ccd();
        vensure!(
            r as u128 + a as u128 == s.balance as u128 && a == s.amount,
            "conservation-decrypt",
            "decrypt(remaining)={r:#x} + decrypt(transfer)={a:#x} != balance {:#x}",
            s.balance
        );
    } else {
        ctx.class("conservation-group-level-only");
    }

    // serialization round trip
    let bytes = to_bytes(&td);
    let layout = layout_transfer(&bytes).map_err(|e| Violation::new("harness-layout", e))?;
    {
        let td2: Option<EncryptedAmountTransferData<C>> = parse_exact(&bytes);
        let Some(td2) = td2 else { return Err(Violation::new("serialization", "serialized transfer data does not deserialize")) };
        vensure!(to_bytes(&td2) == bytes, "serialization", "transfer data re-serializes differently");
    }
    let proof_start = layout.iter().find(|c| c.name.starts_with("proof.")).map(|c| c.off).unwrap_or(0);

    // perturbations
    for p in &s.perturbs {
        let (what, outcome): (String, Outcome) = match p[0] % 32 {
            0 | 1 => {
                let (q, w) = mutate_amount_chunk(&td.remaining_amount, p[1], p[2]);
                let mut t = td.clone();
                t.remaining_amount = q;
                ("remaining-chunk", format!("remaining {w}"), t).into_outcome(|t| chain_verify(s.gctx, &s.receiver.pk, &s.sender.pk, t))
            }
            2 | 3 => {
                let (q, w) = mutate_amount_chunk(&td.transfer_amount, p[1], p[2]);
                let mut t = td.clone();
                t.transfer_amount = q;
                ("transfer-chunk", format!("transfer {w}"), t).into_outcome(|t| chain_verify(s.gctx, &s.receiver.pk, &s.sender.pk, t))
            }
            4 => {
                let mut t = td.clone();
                let w = match p[1] % 3 {
                    0 => {
                        t.remaining_amount.encryptions.swap(0, 1);
                        "remaining lo<->hi"
                    }
                    1 => {
                        t.transfer_amount.encryptions.swap(0, 1);
                        "transfer lo<->hi"
                    }
                    _ => {
                        std::mem::swap(&mut t.remaining_amount, &mut t.transfer_amount);
                        "remaining<->transfer"
                    }
                };
                if to_bytes(&t) == bytes {
                    ("swap-chunks".to_string(), Outcome::Noop)
                } else {
                    ("swap-chunks", w.to_string(), t).into_outcome(|t| chain_verify(s.gctx, &s.receiver.pk, &s.sender.pk, t))
                }
            }
            5 => {
                // a fresh encryption of zero added: same plaintext, other ciphertext
                let mut t = td.clone();
                let j = (p[1] & 1) as usize;
                let (z, w) = if p[1] & 2 == 0 {
                    let z = s.sender.pk.encrypt_exponent_given_generator(&concordium_base::curve_arithmetic::Value::<C>::from(0u64), &env().h, &mut rng);
                    t.remaining_amount.encryptions[j] = t.remaining_amount.encryptions[j].combine(&z);
                    (z, "remaining")
                } else {
                    let z = s.receiver.pk.encrypt_exponent_given_generator(&concordium_base::curve_arithmetic::Value::<C>::from(0u64), &env().h, &mut rng);
                    t.transfer_amount.encryptions[j] = t.transfer_amount.encryptions[j].combine(&z);
                    (z, "transfer")
                };
                if z == Cipher(C::zero_point(), C::zero_point()) {
                    ("rerandomize".to_string(), Outcome::Noop)
                } else {
                    ("rerandomize", format!("{w} chunk {j} re-randomized"), t).into_outcome(|t| chain_verify(s.gctx, &s.receiver.pk, &s.sender.pk, t))
                }
            }
            6 | 7 => {
                let (q, w) = mutate_pk(&s.sender.pk, p[1]);
                let ok = chain_verify(s.gctx, &s.receiver.pk, &q, &td);
                (format!("sender-key: sender public key {w}"), if ok { Outcome::Accepted } else { Outcome::Rejected })
            }
            8 | 9 => {
                let (q, w) = mutate_pk(&s.receiver.pk, p[1]);
                let ok = chain_verify(s.gctx, &q, &s.sender.pk, &td);
                (format!("receiver-key: receiver public key {w}"), if ok { Outcome::Accepted } else { Outcome::Rejected })
            }
            10 => {
                if s.receiver.pk == s.sender.pk {
                    ("swap-keys".to_string(), Outcome::Noop)
                } else {
                    let ok = chain_verify(s.gctx, &s.sender.pk, &s.receiver.pk, &td);
                    ("swap-keys: sender and receiver keys exchanged".to_string(), if ok { Outcome::Accepted } else { Outcome::Rejected })
                }
            }
            11 | 12 => {
                let (q, w) = mutate_amount_chunk(&before, p[1], p[2]);
                let ok = verify_transfer_data(s.gctx, &s.receiver.pk, &s.sender.pk, &q, &td);
                (format!("before-chunk: sender's amount before the transfer {w}"), if ok { Outcome::Accepted } else { Outcome::Rejected })
            }
            13 | 14 | 15 => {
                // the index: the chain aggregates up to the index carried by the transaction
                let n = s.account.incoming.len();
                if n == 0 {
                    let mut t = td.clone();
                    t.index.index = t.index.index.wrapping_add(1 + p[1] as u64);
                    let ok = chain_verify(s.gctx, &s.receiver.pk, &s.sender.pk, &t);
                    ("index: index outside the account's range".to_string(), if ok { Outcome::Accepted } else { Outcome::Rejected })
                } else {
                    let mut k2 = p[1] as usize % n;
                    if k2 >= s.k {
                        k2 += 1;
                    }
                    let mut t = td.clone();
                    t.index.index = s.account.start + k2 as u64;
                    // observation only: the field itself is not in the transcript
                    if verify_transfer_data(s.gctx, &s.receiver.pk, &s.sender.pk, &before, &t) {
                        ctx.class("obs-index-field-alone-accepted(documented)");
                    } else {
                        ctx.class("obs-index-field-alone-rejected");
                    }
                    let ok = chain_verify(s.gctx, &s.receiver.pk, &s.sender.pk, &t);
                    (format!("index: aggregation index {} -> {}", s.k, k2), if ok { Outcome::Accepted } else { Outcome::Rejected })
                }
            }
            16..=27 => {
                // proof components through the serialized form
                let mut b = bytes.clone();
                let sub = p[0] % 32;
                let r: Result<String, String> = match sub {
                    16..=18 => {
                        let cs: Vec<&Comp> = layout.iter().filter(|c| c.off >= proof_start && c.kind == Kind::Scalar).collect();
                        perturb_component(&mut b, cs[p[1] as usize % cs.len()], p[2], p[3], &mut rng)
                    }
                    19..=21 => {
                        let cs: Vec<&Comp> = layout.iter().filter(|c| c.off >= proof_start && c.kind == Kind::Point).collect();
                        perturb_component(&mut b, cs[p[1] as usize % cs.len()], p[2], p[3], &mut rng)
                    }
                    22 => {
                        let cs: Vec<&Comp> = layout.iter().filter(|c| c.kind == Kind::Len).collect();
                        perturb_length(&mut b, cs[p[1] as usize % cs.len()], p[2], &mut rng)
                    }
                    23 => {
                        let c = layout.iter().find(|c| c.kind == Kind::Challenge).unwrap();
                        perturb_component(&mut b, c, p[2], p[3], &mut rng)
                    }
                    24 | 25 => {
                        // any single bit of the proof
                        let nbits = (b.len() - proof_start) * 8;
                        let bit = (u32::from_le_bytes([p[1], p[2], p[3], 0]) as usize) % nbits;
                        b[proof_start + bit / 8] ^= 1 << (bit % 8);
                        Ok(format!("bit {} of the proof flipped", bit))
                    }
                    _ => {
                        // exchange two components of the same kind
                        let kind = if p[3] & 1 == 0 { Kind::Scalar } else { Kind::Point };
                        let cs: Vec<&Comp> = layout.iter().filter(|c| c.off >= proof_start && c.kind == kind).collect();
                        let i = p[1] as usize % cs.len();
                        let mut j = p[2] as usize % (cs.len() - 1);
                        if j >= i {
                            j += 1;
                        }
                        let (ci, cj) = (cs[i], cs[j]);
                        let tmp = b[ci.off..ci.off + ci.len].to_vec();
                        let tmp2 = b[cj.off..cj.off + cj.len].to_vec();
                        b[ci.off..ci.off + ci.len].copy_from_slice(&tmp2);
                        b[cj.off..cj.off + cj.len].copy_from_slice(&tmp);
                        Ok(format!("{} <-> {}", ci.name, cj.name))
                    }
                };
                let w = r.map_err(|e| Violation::new("harness-perturb", e))?;
                if sub <= 23 {
                    ctx.class(&format!("comp:{}", family(&w)));
                }
                let label = match sub {
                    16..=18 => "proof-scalar",
                    19..=21 => "proof-point",
                    22 => "proof-length",
                    23 => "proof-challenge",
                    24 | 25 => "proof-bitflip",
                    _ => "proof-swap",
                };
                if b == bytes {
                    (label.to_string(), Outcome::Noop)
                } else {
                    match parse_exact::<EncryptedAmountTransferData<C>>(&b) {
                        None => {
                            ctx.class("perturbed-undecodable(rejected)");
                            (format!("{label}: {w}"), Outcome::Rejected)
                        }
                        Some(t) => (label, w, t).into_outcome(|t| chain_verify(s.gctx, &s.receiver.pk, &s.sender.pk, t)),
                    }
                }
            }
            _ => {
                let (c, w) = mutate_ctx(s.ci, p[1], p[2]);
                if to_bytes(&c) == to_bytes(s.gctx) {
                    ("context".to_string(), Outcome::Noop)
                } else {
                    let ok = chain_verify(&c, &s.receiver.pk, &s.sender.pk, &td);
                    (format!("context: {w}"), if ok { Outcome::Accepted } else { Outcome::Rejected })
                }
            }
        };
        let label = what.split(':').next().unwrap_or("?").to_string();
        match outcome {
            Outcome::Noop => ctx.class("perturbation-noop"),
            Outcome::Rejected => ctx.class(&format!("perturb-{label}")),
            Outcome::Accepted => {
                return Err(Violation::new("perturbed-verifies", format!("verification accepts after perturbation [{what}]"))
                    .with_signature(format!("perturbed-verifies:{label}")));
            }
        }
    }
    Ok(())
}

trait IntoOutcome<T> {
    fn into_outcome(self, verify: impl FnOnce(&T) -> bool) -> (String, Outcome);
}

impl<T> IntoOutcome<T> for (&str, String, T) {
    fn into_outcome(self, verify: impl FnOnce(&T) -> bool) -> (String, Outcome) {
        let ok = verify(&self.2);
        (format!("{}: {}", self.0, self.1), if ok { Outcome::Accepted } else { Outcome::Rejected })
    }
}

// ---------------------------------------------------------------------------------------------

pub fn t_sec_to_pub(data: &[u8], ctx: &mut Ctx) -> CheckResult {
    let mut u = Unstructured::new(data);
    let mut rng = gen::rng(&mut u);
    let s = decode(&mut u, &mut rng, false);
    s.classes(ctx);
    ctx.describe(|| s.describe("sec-to-pub"));
    ctx.sample(|| s.describe("sec-to-pub"));

    let input = s.input();
    let before = input.agg_encrypted_amount.clone();
    let td = make_sec_to_pub_transfer_data(s.gctx, &s.sender.sk, &input, amt(s.amount), &mut rng);

    if s.amount > s.claim {
        ctx.class("overdraft-none");
        ctx.nontrivial(&s.key());
        vensure!(td.is_none(), "overdraft-produced", "make_sec_to_pub_transfer_data produced a transfer of {:#x} from balance {:#x}", s.amount, s.claim);
        return Ok(());
    }
    if s.claim != s.balance {
        ctx.class("lying-claim");
        ctx.nontrivial(&s.key());
        if s.amount > s.balance {
            ctx.class("lying-claim-overdraft");
        }
        match td {
            None => ctx.class("lying-claim-no-output"),
            Some(td) => {
                let ok = verify_sec_to_pub_transfer_data(s.gctx, &s.sender.pk, &before, &td);
                vensure!(
                    !ok,
                    "false-claim-verifies",
                    "a secret-to-public transfer of {:#x} built on the false balance claim {:#x} (true balance {:#x}) verifies",
                    s.amount,
                    s.claim,
                    s.balance
                );
            }
        }
        return Ok(());
    }

    let Some(td) = td else {
        return Err(Violation::new(
            "completeness-make",
            format!("make_sec_to_pub_transfer_data returned None for amount {:#x} <= balance {:#x}", s.amount, s.balance),
        ));
    };
    vensure!(td.index.index == input.agg_index.index, "index-copied", "transfer data carries index {} instead of {}", td.index.index, input.agg_index.index);
    vensure!(td.transfer_amount.micro_ccd() == s.amount, "public-amount", "transfer data carries public amount {:#x} instead of {:#x}", td.transfer_amount.micro_ccd(), s.amount);
    let chain_verify = |gctx: &GlobalContext<C>, pk: &PublicKey<C>, td: &SecToPubAmountTransferData<C>| -> bool {
        match s.account.before_for_index(td.index.index) {
            None => false,
            Some(b) => verify_sec_to_pub_transfer_data(gctx, pk, &b, td),
        }
    };
    vensure!(
        chain_verify(s.gctx, &s.sender.pk, &td),
        "completeness-verify",
        "verify_sec_to_pub_transfer_data rejects an honestly made transfer of {:#x} from {:#x}",
        s.amount,
        s.balance
    );
    ctx.class("valid-verified");
    ctx.nontrivial(&(s.key(), s.perturbs.iter().map(|p| p[0] % 32).collect::<Vec<_>>()));

    let remaining = s.balance - s.amount;
    vensure!(
        amount_decrypts_to(&s.sender.sk, &td.remaining_amount, remaining),
        "conservation-remaining",
        "remaining amount does not decrypt (sender key) to the chunks of {remaining:#x}"
    );
    if bsgs_budget(&[remaining]) {
        ctx.class("conservation-bsgs");
        let r = decrypt_amount(table(BIG), &s.sender.sk, &td.remaining_amount).micro_ccd();
        vensure!(
            r as u128 + td.transfer_amount.micro_ccd() as u128 == s.balance as u128,
            "conservation-decrypt",
            "decrypt(remaining)={r:#x} + public amount {:#x} != balance {:#x}",
            td.transfer_amount.micro_ccd(),
            s.balance
        );
    } else {
        ctx.class("conservation-group-level-only");
    }

    let bytes = to_bytes(&td);
    let layout = layout_sec_to_pub(&bytes).map_err(|e| Violation::new("harness-layout", e))?;
    {
        let td2: Option<SecToPubAmountTransferData<C>> = parse_exact(&bytes);
        let Some(td2) = td2 else { return Err(Violation::new("serialization", "serialized transfer data does not deserialize")) };
        vensure!(to_bytes(&td2) == bytes, "serialization", "transfer data re-serializes differently");
    }
    let proof_start = layout.iter().find(|c| c.name.starts_with("proof.")).map(|c| c.off).unwrap_or(0);

    for p in &s.perturbs {
        let (what, outcome): (String, Outcome) = match p[0] % 32 {
            0..=2 => {
                let (q, w) = mutate_amount_chunk(&td.remaining_amount, p[1], p[2]);
                let mut t = td.clone();
                t.remaining_amount = q;
                ("remaining-chunk", format!("remaining {w}"), t).into_outcome(|t| chain_verify(s.gctx, &s.sender.pk, t))
            }
            3 => {
                let mut t = td.clone();
                t.remaining_amount.encryptions.swap(0, 1);
                if to_bytes(&t) == bytes {
                    ("swap-chunks".to_string(), Outcome::Noop)
                } else {
                    ("swap-chunks", "remaining lo<->hi".to_string(), t).into_outcome(|t| chain_verify(s.gctx, &s.sender.pk, t))
                }
            }
            4 => {
                let mut t = td.clone();
                let j = (p[1] & 1) as usize;
                let z = s.sender.pk.encrypt_exponent_given_generator(&concordium_base::curve_arithmetic::Value::<C>::from(0u64), &env().h, &mut rng);
                t.remaining_amount.encryptions[j] = t.remaining_amount.encryptions[j].combine(&z);
                if z == Cipher(C::zero_point(), C::zero_point()) {
                    ("rerandomize".to_string(), Outcome::Noop)
                } else {
                    ("rerandomize", format!("remaining chunk {j} re-randomized"), t).into_outcome(|t| chain_verify(s.gctx, &s.sender.pk, t))
                }
            }
            5..=8 => {
                // the public amount
                let mut t = td.clone();
                let a = s.amount;
                let v = match p[1] % 6 {
                    0 => a.wrapping_add(1),
                    1 => a.wrapping_sub(1),
                    2 => a ^ (1 << (p[2] % 64)),
                    3 => s.balance.wrapping_add(1),
                    4 => a.wrapping_add(U32M + 1),
                    _ => remaining,
                };
                if v == a {
                    ("public-amount".to_string(), Outcome::Noop)
                } else {
                    t.transfer_amount = amt(v);
                    ("public-amount", format!("{a:#x} -> {v:#x}"), t).into_outcome(|t| chain_verify(s.gctx, &s.sender.pk, t))
                }
            }
            9..=11 => {
                let (q, w) = mutate_pk(&s.sender.pk, p[1]);
                let ok = chain_verify(s.gctx, &q, &td);
                (format!("sender-key: public key {w}"), if ok { Outcome::Accepted } else { Outcome::Rejected })
            }
            12 | 13 => {
                let (q, w) = mutate_amount_chunk(&before, p[1], p[2]);
                let ok = verify_sec_to_pub_transfer_data(s.gctx, &s.sender.pk, &q, &td);
                (format!("before-chunk: amount before the transfer {w}"), if ok { Outcome::Accepted } else { Outcome::Rejected })
            }
            14 | 15 => {
                let n = s.account.incoming.len();
                if n == 0 {
                    let mut t = td.clone();
                    t.index.index = t.index.index.wrapping_add(1 + p[1] as u64);
                    let ok = chain_verify(s.gctx, &s.sender.pk, &t);
                    ("index: index outside the account's range".to_string(), if ok { Outcome::Accepted } else { Outcome::Rejected })
                } else {
                    let mut k2 = p[1] as usize % n;
                    if k2 >= s.k {
                        k2 += 1;
                    }
                    let mut t = td.clone();
                    t.index.index = s.account.start + k2 as u64;
                    if verify_sec_to_pub_transfer_data(s.gctx, &s.sender.pk, &before, &t) {
                        ctx.class("obs-index-field-alone-accepted(documented)");
                    } else {
                        ctx.class("obs-index-field-alone-rejected");
                    }
                    let ok = chain_verify(s.gctx, &s.sender.pk, &t);
                    (format!("index: aggregation index {} -> {}", s.k, k2), if ok { Outcome::Accepted } else { Outcome::Rejected })
                }
            }
            16..=27 => {
                let mut b = bytes.clone();
                let sub = p[0] % 32;
                let r: Result<String, String> = match sub {
                    16..=18 => {
                        let cs: Vec<&Comp> = layout.iter().filter(|c| c.off >= proof_start && c.kind == Kind::Scalar).collect();
                        perturb_component(&mut b, cs[p[1] as usize % cs.len()], p[2], p[3], &mut rng)
                    }
                    19..=21 => {
                        let cs: Vec<&Comp> = layout.iter().filter(|c| c.off >= proof_start && c.kind == Kind::Point).collect();
                        perturb_component(&mut b, cs[p[1] as usize % cs.len()], p[2], p[3], &mut rng)
                    }
                    22 => {
                        let cs: Vec<&Comp> = layout.iter().filter(|c| c.kind == Kind::Len).collect();
                        perturb_length(&mut b, cs[p[1] as usize % cs.len()], p[2], &mut rng)
                    }
                    23 => {
                        let c = layout.iter().find(|c| c.kind == Kind::Challenge).unwrap();
                        perturb_component(&mut b, c, p[2], p[3], &mut rng)
                    }
                    24 | 25 => {
                        let nbits = (b.len() - proof_start) * 8;
                        let bit = (u32::from_le_bytes([p[1], p[2], p[3], 0]) as usize) % nbits;
                        b[proof_start + bit / 8] ^= 1 << (bit % 8);
                        Ok(format!("bit {} of the proof flipped", bit))
                    }
                    _ => {
                        let kind = if p[3] & 1 == 0 { Kind::Scalar } else { Kind::Point };
                        let cs: Vec<&Comp> = layout.iter().filter(|c| c.off >= proof_start && c.kind == kind).collect();
                        let i = p[1] as usize % cs.len();
                        let mut j = p[2] as usize % (cs.len() - 1);
                        if j >= i {
                            j += 1;
                        }
                        let (ci, cj) = (cs[i], cs[j]);
                        let tmp = b[ci.off..ci.off + ci.len].to_vec();
                        let tmp2 = b[cj.off..cj.off + cj.len].to_vec();
                        b[ci.off..ci.off + ci.len].copy_from_slice(&tmp2);
                        b[cj.off..cj.off + cj.len].copy_from_slice(&tmp);
                        Ok(format!("{} <-> {}", ci.name, cj.name))
                    }
                };
                let w = r.map_err(|e| Violation::new("harness-perturb", e))?;
                if sub <= 23 {
                    ctx.class(&format!("comp:{}", family(&w)));
                }
                let label = match sub {
                    16..=18 => "proof-scalar",
                    19..=21 => "proof-point",
                    22 => "proof-length",
                    23 => "proof-challenge",
                    24 | 25 => "proof-bitflip",
                    _ => "proof-swap",
                };
                if b == bytes {
                    (label.to_string(), Outcome::Noop)
                } else {
                    match parse_exact::<SecToPubAmountTransferData<C>>(&b) {
                        None => {
                            ctx.class("perturbed-undecodable(rejected)");
                            (format!("{label}: {w}"), Outcome::Rejected)
                        }
                        Some(t) => (label, w, t).into_outcome(|t| chain_verify(s.gctx, &s.sender.pk, t)),
                    }
                }
            }
            _ => {
                let (c, w) = mutate_ctx(s.ci, p[1], p[2]);
                if to_bytes(&c) == to_bytes(s.gctx) {
                    ("context".to_string(), Outcome::Noop)
                } else {
                    let ok = chain_verify(&c, &s.sender.pk, &td);
                    (format!("context: {w}"), if ok { Outcome::Accepted } else { Outcome::Rejected })
                }
            }
        };
        let label = what.split(':').next().unwrap_or("?").to_string();
        match outcome {
            Outcome::Noop => ctx.class("perturbation-noop"),
            Outcome::Rejected => ctx.class(&format!("perturb-{label}")),
            Outcome::Accepted => {
                return Err(Violation::new("perturbed-verifies", format!("verification accepts after perturbation [{what}]"))
                    .with_signature(format!("perturbed-verifies:{label}")));
            }
        }
    }
    Ok(())
}
