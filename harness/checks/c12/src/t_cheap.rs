//! Cheap targets: chunk arithmetic, encrypt/decrypt round trip, aggregation homomorphism.
use crate::common::*;
use concordium_base::{
    curve_arithmetic::{Curve, Field, PrimeField, Value},
    elgamal::{
        chunks_to_value, decrypt_from_chunks_given_table, encrypt_u64_in_chunks_given_generator,
        value_to_chunks, ChunkSize, Cipher,
    },
    encrypted_transfers::{
        aggregate, decrypt_amount, encrypt_amount, encrypt_amount_with_fixed_randomness,
        types::{EncryptedAmount, CHUNK_SIZE},
    },
};
use vcore::{gen, vensure, CheckResult, Ctx, Unstructured};

const ALL_CS: [(ChunkSize, u32, &str); 7] = [
    (ChunkSize::ThirtyTwo, 32, "ThirtyTwo"),
    (ChunkSize::One, 1, "One"),
    (ChunkSize::Two, 2, "Two"),
    (ChunkSize::Four, 4, "Four"),
    (ChunkSize::Eight, 8, "Eight"),
    (ChunkSize::Sixteen, 16, "Sixteen"),
    (ChunkSize::SixtyFour, 64, "SixtyFour"),
];

/// Independent transcription: little-endian limbs of `bits` bits each, via u128 arithmetic.
fn ref_chunks(x: u64, bits: u32) -> Vec<u64> {
    let n = 64 / bits;
    let mask: u128 = (1u128 << bits) - 1;
    (0..n).map(|i| (((x as u128) >> (i * bits)) & mask) as u64).collect()
}

fn gen_scalar_edge(u: &mut Unstructured) -> Scalar {
    match gen::byte(u) % 8 {
        0 => Scalar::zero(),
        1 => Scalar::one(),
        2 => minus_one(),
        3 => C::scalar_from_u64(u64::MAX),
        4 => {
            // 2^64
            let mut s = C::scalar_from_u64(u64::MAX);
            s.add_assign(&Scalar::one());
            s
        }
        5 => C::scalar_from_u64(gen::boundary_u64(u)),
        _ => {
            // product/sum of boundary words: spreads bits over all limbs deterministically
            let mut s = C::scalar_from_u64(gen::boundary_u64(u));
            for _ in 0..3 {
                let mut two64 = C::scalar_from_u64(u64::MAX);
                two64.add_assign(&Scalar::one());
                s.mul_assign(&two64);
                s.add_assign(&C::scalar_from_u64(gen::boundary_u64(u)));
            }
            s
        }
    }
}

pub fn t_chunks(data: &[u8], ctx: &mut Ctx) -> CheckResult {
    let mut u = Unstructured::new(data);
    let (cs, bits, name) = ALL_CS[gen::idx(&mut u, ALL_CS.len())];
    let x = gen::boundary_u64(&mut u);
    ctx.class(name);
    ctx.describe(|| format!("ChunkSize::{name} x={x:#x}"));
    ctx.sample(|| format!("ChunkSize::{name} x={x:#x} chunks={:x?}", ref_chunks(x, bits)));

    vensure!(u8::from(cs) as u32 == bits, "chunk-size-bits", "u8::from({name}) = {}", u8::from(cs));
    let exp_mask = ((1u128 << bits) - 1) as u64;
    vensure!(cs.mask() == exp_mask, "mask", "{name}.mask() = {:#x}, expected {:#x}", cs.mask(), exp_mask);

    let expected = ref_chunks(x, bits);
    let boundary = expected.iter().any(|&c| c == 0 || c == exp_mask) || x.count_ones() <= 2 || x.count_zeros() <= 2;
    if boundary {
        ctx.class("nt-boundary");
        ctx.nontrivial(&(bits, x));
    }

    // u64_to_chunks (for SixtyFour this used to shift by the full width: fixed in /repo 7a6ca7040)
    let got = cs.u64_to_chunks(x);
    vensure!(got == expected, "u64_to_chunks", "{name}.u64_to_chunks({x:#x}) = {got:x?}, expected {expected:x?}");
    if bits == 64 {
        ctx.class("sixtyfour-bit-chunks");
    }
    let back = cs.chunks_to_u64(expected.iter().copied());
    vensure!(back == x, "chunks_to_u64", "{name}.chunks_to_u64({expected:x?}) = {back:#x}, expected {x:#x}");

    // Non-canonical limbs as produced by aggregation (what decrypt_amount feeds in): the result is the
    // plain weighted sum whenever it fits in 64 bits.
    if bits == 32 {
        let lo = match gen::byte(&mut u) % 4 {
            0 => expected[0],
            1 => expected[0] + U32M,
            2 => gen::range_u64(&mut u, 0, 8 * U32M),
            _ => U32M + 1 + gen::byte(&mut u) as u64,
        };
        let hi = if gen::boolean(&mut u) { expected[1] } else { gen::range_u64(&mut u, 0, U32M) };
        let total = lo as u128 + ((hi as u128) << 32);
        if total <= u64::MAX as u128 {
            if lo > U32M {
                ctx.class("noncanonical-low-limb");
                ctx.nontrivial(&(lo, hi));
            }
            let got = CHUNK_SIZE.chunks_to_u64([lo, hi]);
            vensure!(
                got as u128 == total,
                "chunks_to_u64-carry",
                "chunks_to_u64([{lo:#x},{hi:#x}]) = {got:#x}, expected {total:#x}"
            );
        } else {
            ctx.class("noncanonical-overflow(skipped)");
        }
    }

    // Scalars <-> chunks (value_to_chunks splits every 64-bit limb).
    if bits != 64 {
        let s = gen_scalar_edge(&mut u);
        let limbs = s.into_repr();
        let chunks = value_to_chunks::<C>(&s, cs);
        let mut exp: Vec<u64> = Vec::new();
        for l in &limbs {
            exp.extend(ref_chunks(*l, bits));
        }
        vensure!(chunks.len() == exp.len(), "value_to_chunks-len", "{} chunks, expected {}", chunks.len(), exp.len());
        for (i, (c, e)) in chunks.iter().zip(exp.iter()).enumerate() {
            let cs_: &Scalar = c;
            vensure!(*cs_ == C::scalar_from_u64(*e), "value_to_chunks", "chunk {i} of {limbs:x?} with {name}: expected {e:#x}");
        }
        let back = chunks_to_value::<C>(&chunks, cs);
        let b: &Scalar = &back;
        vensure!(*b == s, "chunks_to_value", "round trip of scalar {limbs:x?} with {name} gives {:x?}", b.into_repr());
        ctx.class("scalar-roundtrip");
    }
    Ok(())
}

// ---------------------------------------------------------------------------------------------

pub fn t_roundtrip(data: &[u8], ctx: &mut Ctx) -> CheckResult {
    let mut u = Unstructured::new(data);
    let mut rng = gen::rng(&mut u);
    let e = env();
    let ci = gen::idx(&mut u, e.ctxs.len());
    let gctx = &e.ctxs[ci];
    let (g, gkind) = gen_generator(&mut u, &mut rng);
    let key = gen_key(&mut u, &g, &mut rng);
    let ti = gen::idx(&mut u, TABLE_M.len());
    let ti = if gen::byte(&mut u) < 96 { BIG } else { ti };
    let m = TABLE_M[ti];
    let lo = gen_chunk(&mut u, m);
    let hi = gen_chunk(&mut u, m);
    let a = amount_of(lo, hi);
    let ticket = gen::byte(&mut u) < 24;
    let extra = gen::byte(&mut u);

    ctx.class(CTX_NAMES[ci]);
    ctx.class(key.kind);
    ctx.class(gkind);
    ctx.class(&format!("table=2^{}", 63 - m.leading_zeros()));
    ctx.describe(|| format!("ctx={} {} {} table m={m} amount={a:#x} (lo={lo:#x}, hi={hi:#x}) ticket={ticket} extra={extra}", CTX_NAMES[ci], gkind, key.kind));
    ctx.sample(|| format!("ctx={} {} {} table m={m} amount={a:#x}", CTX_NAMES[ci], gkind, key.kind));
    let table_boundary = |c: u64| c >= m && m > 1 && (c % m == 0 || c % m == 1 || c % m == m - 1);
    if is_chunk_boundary(lo) || is_chunk_boundary(hi) || table_boundary(lo) || table_boundary(hi) {
        ctx.class("nt-boundary");
        ctx.nontrivial(&(a, m, key.kind, gkind));
    }
    for (v, n) in [(0u64, "amount=0"), (1, "amount=1"), (U32M, "amount=2^32-1"), (U32M + 1, "amount=2^32"), (U32M + 2, "amount=2^32+1"), (u64::MAX, "amount=2^64-1")] {
        if a == v {
            ctx.class(n);
        }
    }

    // encryption, with the returned randomness binding the ciphertext
    let (enc, rand) = encrypt_amount(gctx, &key.pk, amt(a), &mut rng);
    for (j, c) in [lo, hi].into_iter().enumerate() {
        let r: &Scalar = &rand.randomness[j];
        let exp0 = g.mul_by_scalar(r);
        let exp1 = key.pk.key.mul_by_scalar(r).plus_point(&h_pow(c));
        vensure!(
            enc.encryptions[j] == Cipher(exp0, exp1),
            "encrypt-structure",
            "chunk {j} of encrypt_amount({a:#x}) is not (g^r, pk^r h^chunk) for the returned randomness"
        );
    }
    vensure!(amount_decrypts_to(&key.sk, &enc, a), "decrypt-group", "sk.decrypt(chunks of encrypt({a:#x})) != h^chunk");

    // a different key does not decrypt it (randomness 0 has negligible probability)
    {
        let mut s2 = key.sk.scalar;
        s2.add_assign(&Scalar::one());
        let other = concordium_base::elgamal::SecretKey::<C> { generator: g, scalar: s2 };
        vensure!(
            !decrypts_to(&other, &enc.encryptions[0], lo),
            "wrong-key-decrypts",
            "key sk+1 decrypts the low chunk of an encryption under sk"
        );
    }

    let fixed = encrypt_amount_with_fixed_randomness(gctx, amt(a));
    vensure!(amount_decrypts_to(&key.sk, &fixed, a), "decrypt-group-fixed", "fixed-randomness encryption of {a:#x} does not decrypt (group level)");
    vensure!(
        fixed.encryptions[0].0 == C::zero_point() && fixed.encryptions[1].0 == C::zero_point(),
        "fixed-randomness",
        "fixed-randomness encryption has a non-zero randomness component"
    );

    // through the discrete-log table
    let cost = steps(lo, m) + steps(hi, m);
    if cost <= 64 || (ticket && cost <= 9000) {
        ctx.class("bsgs-decrypt");
        if cost > 64 {
            ctx.class("bsgs-heavy");
        }
        let t = table(ti);
        let d = decrypt_amount(t, &key.sk, &enc);
        vensure!(d.micro_ccd() == a, "roundtrip", "decrypt_amount(encrypt_amount({a:#x})) = {:#x} with table m={m}", d.micro_ccd());
        if extra % 4 == 0 {
            let d = decrypt_amount(t, &key.sk, &fixed);
            vensure!(d.micro_ccd() == a, "roundtrip-fixed", "decrypt_amount(fixed-randomness({a:#x})) = {:#x}", d.micro_ccd());
            ctx.class("bsgs-fixed-randomness");
        }
    } else {
        ctx.class("group-level-only");
    }

    // join(): one ciphertext of the whole amount in the exponent
    let joined = enc.join();
    {
        let whole = e.h.mul_by_scalar(&C::scalar_from_u64(a));
        vensure!(key.sk.decrypt(&joined).value == whole, "join-group", "join() of encrypt({a:#x}) does not decrypt to h^amount");
        if steps(a, m) <= 64 {
            let d = key.sk.decrypt_exponent(&joined, table(ti));
            vensure!(d == a, "join-bsgs", "decrypt_exponent(join()) = {d:#x}, expected {a:#x}");
            ctx.class("join-bsgs");
        }
    }
    if a <= 40 && extra % 8 == 1 {
        // the table-free slow path, base = the key's generator
        let c = key.pk.encrypt_exponent(&mut rng, &Value::<C>::from(a));
        let d = key.sk.decrypt_exponent_slow(&c);
        let dv: &Scalar = &d;
        vensure!(*dv == C::scalar_from_u64(a), "decrypt-slow", "decrypt_exponent_slow(encrypt_exponent({a})) differs");
        ctx.class("slow-decrypt");
    }

    // elgamal-level chunked encryption with the other chunk sizes
    if extra % 8 == 2 || extra % 8 == 3 {
        let (cs, bits, name) = match (extra >> 3) % 8 {
            0 | 1 => (ChunkSize::Sixteen, 16u32, "Sixteen"),
            2 | 3 => (ChunkSize::Eight, 8, "Eight"),
            4 => (ChunkSize::Four, 4, "Four"),
            5 => (ChunkSize::ThirtyTwo, 32, "ThirtyTwo"),
            6 => (ChunkSize::Two, 2, "Two"),
            _ => (ChunkSize::One, 1, "One"),
        };
        let n = 64 / bits;
        let mask = (1u128 << bits) as u64 - 1;
        let chunk_cost: u64 = (0..n).map(|i| steps((a >> (i * bits)) & mask, m)).sum();
        if chunk_cost <= 256 {
            let pairs = encrypt_u64_in_chunks_given_generator(&key.pk, a, cs, &e.h, &mut rng);
            vensure!(pairs.len() == n as usize, "chunked-encrypt-len", "{} ciphers for {name}", pairs.len());
            let ciphers: Vec<Cipher<C>> = pairs.into_iter().map(|p| p.0).collect();
            let v = decrypt_from_chunks_given_table(&key.sk, &ciphers, table(ti), cs);
            let vs: &Scalar = &v;
            vensure!(
                *vs == C::scalar_from_u64(a),
                "chunked-roundtrip",
                "decrypt_from_chunks(encrypt_u64_in_chunks({a:#x}, {name})) = {:x?}",
                vs.into_repr()
            );
            ctx.class(&format!("chunked-{name}"));
        }
    }
    Ok(())
}

// ---------------------------------------------------------------------------------------------

pub fn t_aggregate(data: &[u8], ctx: &mut Ctx) -> CheckResult {
    let mut u = Unstructured::new(data);
    let mut rng = gen::rng(&mut u);
    let e = env();
    let ci = gen::idx(&mut u, e.ctxs.len());
    let gctx = &e.ctxs[ci];
    let (g, gkind) = gen_generator(&mut u, &mut rng);
    let key = gen_key(&mut u, &g, &mut rng);
    let n = 1 + gen::idx(&mut u, 8);
    let mode = gen::byte(&mut u) % 16;
    // modes: 0..=7 light (any table), 8..=11 carry around 2^32 in the low chunk (big table),
    // 12 carry in the high chunk / overflow of u64, 13..=15 free boundary chunks (big table)
    let ti = if mode <= 7 { gen::idx(&mut u, TABLE_M.len()) } else { BIG };
    let m = TABLE_M[ti];
    let mut amounts: Vec<(u64, u64)> = Vec::with_capacity(n);
    for i in 0..n {
        let (lo, hi) = match mode {
            0..=7 => {
                let k = gen::range_u64(&mut u, 0, 3);
                let j = gen::range_u64(&mut u, 0, m - 1);
                let lo = (k * m + j).min(U32M);
                let hi = match gen::byte(&mut u) % 4 {
                    0 => 0,
                    1 => 1,
                    2 => m.min(U32M),
                    _ => gen::range_u64(&mut u, 0, (2 * m).min(U32M)),
                };
                (lo, hi)
            }
            8..=11 => {
                if i == 0 {
                    (U32M - gen::range_u64(&mut u, 0, 3), gen::range_u64(&mut u, 0, 2))
                } else {
                    (gen::range_u64(&mut u, 0, 4), gen::range_u64(&mut u, 0, 2))
                }
            }
            12 => {
                if i == 0 {
                    (gen_chunk(&mut u, m), U32M - gen::range_u64(&mut u, 0, 2))
                } else {
                    (gen::range_u64(&mut u, 0, 2), gen::range_u64(&mut u, 0, 2))
                }
            }
            _ => (gen_chunk(&mut u, m), gen_chunk(&mut u, m)),
        };
        amounts.push((lo, hi));
    }
    let fixed_mask = gen::byte(&mut u);
    let ticket = gen::byte(&mut u) < 64;

    let lo_sum: u64 = amounts.iter().map(|x| x.0).sum();
    let hi_sum: u64 = amounts.iter().map(|x| x.1).sum();
    let total: u128 = amounts.iter().map(|x| amount_of(x.0, x.1) as u128).sum();
    let vals: Vec<u64> = amounts.iter().map(|x| amount_of(x.0, x.1)).collect();
    ctx.class(&format!("n={n}"));
    ctx.class(key.kind);
    ctx.describe(|| format!("ctx={} {} {} table m={m} mode={mode} amounts={vals:x?} fixed_mask={fixed_mask:#x} ticket={ticket}", CTX_NAMES[ci], gkind, key.kind));
    ctx.sample(|| format!("ctx={} {} table m={m} amounts={vals:x?} lo_sum={lo_sum:#x} hi_sum={hi_sum:#x}", CTX_NAMES[ci], key.kind));

    let carry_lo = n >= 2 && lo_sum > U32M;
    let carry_hi = n >= 2 && (hi_sum > U32M || total > u64::MAX as u128);
    if carry_lo {
        ctx.class("carry-low-chunk");
    }
    if n >= 2 && lo_sum >= U32M - 4 && lo_sum <= U32M {
        ctx.class("just-below-carry");
    }
    let boundary = amounts.iter().any(|x| is_chunk_boundary(x.0) || is_chunk_boundary(x.1));
    if carry_lo || carry_hi || boundary {
        ctx.class("nt");
        ctx.nontrivial(&(&vals, m, key.kind, fixed_mask));
    }

    // encrypt each, aggregate left to right
    let mut encs: Vec<EncryptedAmount<C>> = Vec::with_capacity(n);
    for (i, v) in vals.iter().enumerate() {
        if fixed_mask >> i & 1 == 1 && i > 0 {
            ctx.class_n("item-fixed-randomness", 1);
            encs.push(encrypt_amount_with_fixed_randomness(gctx, amt(*v)));
        } else {
            encs.push(encrypt_amount(gctx, &key.pk, amt(*v), &mut rng).0);
        }
    }
    let mut agg = encs[0].clone();
    for x in &encs[1..] {
        agg = aggregate(&agg, x);
    }

    // (1) the ciphertext is the component-wise sum, regardless of the values
    for j in 0..2 {
        let mut s0 = C::zero_point();
        let mut s1 = C::zero_point();
        for x in &encs {
            s0 = s0.plus_point(&x.encryptions[j].0);
            s1 = s1.plus_point(&x.encryptions[j].1);
        }
        vensure!(
            agg.encryptions[j] == Cipher(s0, s1),
            "aggregate-componentwise",
            "chunk {j} of the aggregate of {vals:x?} is not the component-wise sum"
        );
    }
    // (2) it encrypts the per-chunk sums (group level)
    vensure!(
        decrypts_to(&key.sk, &agg.encryptions[0], lo_sum) && decrypts_to(&key.sk, &agg.encryptions[1], hi_sum),
        "aggregate-plaintext-group",
        "aggregate of {vals:x?} does not decrypt to the chunk sums ({lo_sum:#x}, {hi_sum:#x})"
    );
    // (3) inside the table budget and below 2^64, decrypt_amount gives the sum
    let cost = steps(lo_sum, m) + steps(hi_sum, m);
    if total > u64::MAX as u128 {
        ctx.class("sum-exceeds-u64(outside-claim)");
    } else if cost <= 64 || (cost <= 9000 && (ticket || (8..=11).contains(&mode))) {
        ctx.class("bsgs-decrypt");
        let d = decrypt_amount(table(ti), &key.sk, &agg);
        vensure!(
            d.micro_ccd() as u128 == total,
            "aggregate-decrypt",
            "decrypt_amount(aggregate({vals:x?})) = {:#x}, expected {total:#x} (table m={m})",
            d.micro_ccd()
        );
    } else {
        ctx.class("outside-table-budget(group-level-only)");
    }
    Ok(())
}
