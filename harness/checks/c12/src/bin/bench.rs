// Per-case CPU cost of each target (thread CPU time), independent of machine load.
use rand::{RngCore, SeedableRng};
fn cpu() -> f64 {
    let mut ts = libc::timespec { tv_sec: 0, tv_nsec: 0 };
    unsafe { libc::clock_gettime(libc::CLOCK_THREAD_CPUTIME_ID, &mut ts) };
    ts.tv_sec as f64 + ts.tv_nsec as f64 * 1e-9
}
fn main() {
    let prop = c12::property();
    let t0 = cpu();
    let _ = c12::common::table(c12::common::BIG);
    let _ = c12::common::table(6);
    println!("tables (this thread's share) {:.2}s", cpu() - t0);
    let mut rng = rand::rngs::StdRng::seed_from_u64(7);
    for t in &prop.targets {
        let n = match t.name { "chunks" => 20000, "roundtrip" => 600, "aggregate" => 300, _ => 40 };
        let t0 = cpu();
        for _ in 0..n {
            let mut b = vec![0u8; t.max_len];
            rng.fill_bytes(&mut b);
            vcore::fuzz_one("C12", t, &b);
        }
        let dt = cpu() - t0;
        println!("{:<10} {:>6} cases  {:.3} ms/case (thread cpu)", t.name, n, dt * 1000.0 / n as f64);
    }
}
