//! Byte-level layout of serialized transfer data and single-component perturbations.
use crate::common::*;
use concordium_base::{
    common::{to_bytes, Deserial},
    curve_arithmetic::{Curve, Field},
};
use std::io::Cursor;

#[derive(Clone, Copy, PartialEq, Eq, Debug)]
pub enum Kind {
    Point,
    Scalar,
    Len,
    U64,
    Challenge,
}

#[derive(Clone, Debug)]
pub struct Comp {
    pub name: String,
    pub off:  usize,
    pub len:  usize,
    pub kind: Kind,
}

struct Walker<'a> {
    b:     &'a [u8],
    off:   usize,
    comps: Vec<Comp>,
}

const POINT_LEN: usize = 48;
const SCALAR_LEN: usize = 32;

impl<'a> Walker<'a> {
    fn push(&mut self, name: String, len: usize, kind: Kind) -> Result<usize, String> {
        if self.off + len > self.b.len() {
            return Err(format!("layout: {name} at {} exceeds {} bytes", self.off, self.b.len()));
        }
        let off = self.off;
        self.comps.push(Comp { name, off, len, kind });
        self.off += len;
        Ok(off)
    }

    fn point(&mut self, name: impl Into<String>) -> Result<(), String> { self.push(name.into(), POINT_LEN, Kind::Point).map(|_| ()) }

    fn scalar(&mut self, name: impl Into<String>) -> Result<(), String> { self.push(name.into(), SCALAR_LEN, Kind::Scalar).map(|_| ()) }

    fn u64_(&mut self, name: impl Into<String>) -> Result<(), String> { self.push(name.into(), 8, Kind::U64).map(|_| ()) }

    fn challenge(&mut self, name: impl Into<String>) -> Result<(), String> { self.push(name.into(), 32, Kind::Challenge).map(|_| ()) }

    fn length(&mut self, name: impl Into<String>) -> Result<usize, String> {
        let off = self.push(name.into(), 4, Kind::Len)?;
        Ok(u32::from_be_bytes(self.b[off..off + 4].try_into().unwrap()) as usize)
    }

    fn encrypted_amount(&mut self, name: &str) -> Result<(), String> {
        for c in ["lo", "hi"] {
            self.point(format!("{name}.{c}.0"))?;
            self.point(format!("{name}.{c}.1"))?;
        }
        Ok(())
    }

    fn accounting(&mut self) -> Result<(), String> {
        self.challenge("proof.accounting.challenge")?;
        self.scalar("proof.accounting.response_common")?;
        for k in ["encexp1", "encexp2"] {
            let n = self.length(format!("proof.accounting.{k}.len"))?;
            if n > 8 {
                return Err(format!("layout: {k} length {n}"));
            }
            for i in 0..n {
                self.scalar(format!("proof.accounting.{k}[{i}].s"))?;
                self.scalar(format!("proof.accounting.{k}[{i}].t"))?;
            }
        }
        Ok(())
    }

    fn range_proof(&mut self, name: &str) -> Result<(), String> {
        for p in ["A", "S", "T_1", "T_2"] {
            self.point(format!("{name}.{p}"))?;
        }
        for s in ["tx", "tx_tilde", "e_tilde"] {
            self.scalar(format!("{name}.{s}"))?;
        }
        let n = self.length(format!("{name}.ip.len"))?;
        if n > 16 {
            return Err(format!("layout: lr_vec length {n}"));
        }
        for i in 0..n {
            self.point(format!("{name}.ip.L[{i}]"))?;
            self.point(format!("{name}.ip.R[{i}]"))?;
        }
        self.scalar(format!("{name}.ip.a"))?;
        self.scalar(format!("{name}.ip.b"))
    }

    fn finish(self) -> Result<Vec<Comp>, String> {
        if self.off != self.b.len() {
            return Err(format!("layout: walked {} of {} bytes", self.off, self.b.len()));
        }
        Ok(self.comps)
    }
}

/// Components of a serialized `EncryptedAmountTransferData`.
pub fn layout_transfer(b: &[u8]) -> Result<Vec<Comp>, String> {
    let mut w = Walker { b, off: 0, comps: Vec::new() };
    w.encrypted_amount("remaining")?;
    w.encrypted_amount("transfer")?;
    w.u64_("index")?;
    w.accounting()?;
    w.range_proof("proof.range_transfer")?;
    w.range_proof("proof.range_remaining")?;
    w.finish()
}

/// Components of a serialized `SecToPubAmountTransferData`.
pub fn layout_sec_to_pub(b: &[u8]) -> Result<Vec<Comp>, String> {
    let mut w = Walker { b, off: 0, comps: Vec::new() };
    w.encrypted_amount("remaining")?;
    w.u64_("transfer_amount")?;
    w.u64_("index")?;
    w.accounting()?;
    w.range_proof("proof.range_remaining")?;
    w.finish()
}

pub fn parse_exact<T: Deserial>(b: &[u8]) -> Option<T> {
    let mut c = Cursor::new(b);
    let v = T::deserial(&mut c).ok()?;
    if c.position() as usize == b.len() {
        Some(v)
    } else {
        None
    }
}

/// A different valid group element derived from `p`.
pub fn perturb_point(p: &C, op: u8) -> (C, &'static str) {
    let e = env();
    let (q, name) = match op % 6 {
        0 => (p.plus_point(&e.g), "+g"),
        1 => (p.plus_point(&e.h), "+h"),
        2 => (p.inverse_point(), "negated"),
        3 => (C::zero_point(), ":=identity"),
        4 => (p.double_point(), "doubled"),
        _ => (p.minus_point(&e.g), "-g"),
    };
    if q == *p {
        (p.plus_point(&e.g), "+g")
    } else {
        (q, name)
    }
}

pub fn perturb_scalar(s: &Scalar, op: u8, rng: &mut Rng) -> (Scalar, &'static str) {
    let (mut q, name) = match op % 5 {
        0 => {
            let mut q = *s;
            q.add_assign(&Scalar::one());
            (q, "+1")
        }
        1 => (Scalar::zero(), ":=0"),
        2 => {
            let mut q = *s;
            q.negate();
            (q, "negated")
        }
        3 => (C::generate_scalar(rng), ":=random"),
        _ => {
            let mut q = *s;
            q.sub_assign(&Scalar::one());
            (q, "-1")
        }
    };
    if q == *s {
        q.add_assign(&Scalar::one());
        return (q, "+1");
    }
    (q, name)
}

/// Perturb component `c` inside `bytes` (a valid encoding); returns a description.
pub fn perturb_component(bytes: &mut [u8], c: &Comp, op: u8, bit: u8, rng: &mut Rng) -> Result<String, String> {
    let slice = &mut bytes[c.off..c.off + c.len];
    match c.kind {
        Kind::Point => {
            let p: C = parse_exact(slice).ok_or_else(|| format!("harness: {} is not a point", c.name))?;
            let (q, what) = perturb_point(&p, op);
            slice.copy_from_slice(&to_bytes(&q));
            Ok(format!("{} {}", c.name, what))
        }
        Kind::Scalar => {
            let s: Scalar = parse_exact(slice).ok_or_else(|| format!("harness: {} is not a scalar", c.name))?;
            let (q, what) = perturb_scalar(&s, op, rng);
            slice.copy_from_slice(&to_bytes(&q));
            Ok(format!("{} {}", c.name, what))
        }
        Kind::Len => {
            let n = u32::from_be_bytes((&*slice).try_into().unwrap());
            let m = if op % 2 == 0 { n.wrapping_add(1) } else { n.wrapping_sub(1) };
            slice.copy_from_slice(&m.to_be_bytes());
            Ok(format!("{} {}->{}", c.name, n, m))
        }
        Kind::U64 | Kind::Challenge => {
            let nbits = c.len * 8;
            let b = (bit as usize * 7 + op as usize) % nbits;
            slice[b / 8] ^= 1 << (b % 8);
            Ok(format!("{} bit {} flipped", c.name, b))
        }
    }
}

/// Structural perturbation of a length prefix: besides the bare +-1 (which makes the encoding
/// undecodable) the vector is really lengthened / shortened by one element so that the altered
/// proof still decodes and the verifier itself has to reject it.
pub fn perturb_length(bytes: &mut Vec<u8>, c: &Comp, op: u8, rng: &mut Rng) -> Result<String, String> {
    assert!(c.kind == Kind::Len);
    let n = u32::from_be_bytes(bytes[c.off..c.off + 4].try_into().unwrap()) as usize;
    let (elem, scalars) = if c.name.starts_with("proof.accounting.") { (2 * SCALAR_LEN, true) } else { (2 * POINT_LEN, false) };
    let start = c.off + 4;
    let end = start + n * elem;
    if end > bytes.len() {
        return Err(format!("harness: vector after {} exceeds the encoding", c.name));
    }
    match op % 4 {
        0 => {
            let new: Vec<u8> = match (op / 4) % 3 {
                0 if n > 0 => bytes[end - elem..end].to_vec(),
                1 if n > 0 => bytes[start..start + elem].to_vec(),
                _ if scalars => {
                    let a = if (op / 16) % 2 == 0 { Scalar::zero() } else { C::generate_scalar(rng) };
                    let b = if (op / 32) % 2 == 0 { Scalar::zero() } else { C::generate_scalar(rng) };
                    let mut v = to_bytes(&a);
                    v.extend_from_slice(&to_bytes(&b));
                    v
                }
                _ => {
                    let mut v = to_bytes(&C::zero_point());
                    v.extend_from_slice(&to_bytes(&C::one_point()));
                    v
                }
            };
            let at = if (op / 64) % 2 == 0 || n == 0 { end } else { start };
            bytes.splice(at..at, new);
            bytes[c.off..c.off + 4].copy_from_slice(&((n + 1) as u32).to_be_bytes());
            Ok(format!("{} {}->{} (element {})", c.name, n, n + 1, if at == end { "appended" } else { "prepended" }))
        }
        1 if n > 0 => {
            let at = if (op / 64) % 2 == 0 { end - elem } else { start };
            bytes.drain(at..at + elem);
            bytes[c.off..c.off + 4].copy_from_slice(&((n - 1) as u32).to_be_bytes());
            Ok(format!("{} {}->{} (element removed)", c.name, n, n - 1))
        }
        k => {
            let m = if k == 2 { (n as u32).wrapping_add(1) } else { (n as u32).wrapping_sub(1) };
            bytes[c.off..c.off + 4].copy_from_slice(&m.to_be_bytes());
            Ok(format!("{} {}->{} (prefix only)", c.name, n, m))
        }
    }
}

#[allow(dead_code)]
pub fn scalar_is_zero(s: &Scalar) -> bool { s.is_zero() }
