//! Shared environment (global contexts, decryption tables), generators and group-level helpers.
use concordium_base::{
    common::types::Amount,
    curve_arithmetic::{Curve, Field},
    elgamal::{BabyStepGiantStep, Cipher, PublicKey, SecretKey},
    encrypted_transfers::types::EncryptedAmount,
    id::{constants::ArCurve, types::GlobalContext},
};
use std::sync::OnceLock;
use vcore::{gen, Unstructured};

pub type C = ArCurve;
pub type Scalar = <C as Curve>::Scalar;
pub type Rng = rand_chacha::ChaCha20Rng;

pub struct Env {
    /// Contexts share the chain's generators (same seed) and differ in genesis string and in the
    /// number of bulletproof generators, so one set of decryption tables serves all.
    pub ctxs: Vec<GlobalContext<C>>,
    pub g:    C,
    pub h:    C,
}

pub const CTX_NAMES: [&str; 3] = ["gs64", "mainnet256", "empty65"];

pub fn env() -> &'static Env {
    static ENV: OnceLock<Env> = OnceLock::new();
    ENV.get_or_init(|| {
        let ctxs = vec![
            GlobalContext::<C>::generate_size("genesis_string".to_string(), 64),
            GlobalContext::<C>::generate("Concordium Mainnet 2021-06-09".to_string()),
            GlobalContext::<C>::generate_size(String::new(), 65),
        ];
        let g = *ctxs[0].elgamal_generator();
        let h = *ctxs[0].encryption_in_exponent_generator();
        for c in &ctxs {
            assert!(*c.elgamal_generator() == g && *c.encryption_in_exponent_generator() == h);
        }
        Env { ctxs, g, h }
    })
}

/// Sizes `m` of the baby-step tables. The last one is the "big" table that makes every 32-bit chunk
/// (and small multiples of 2^32) reachable within a few thousand giant steps.
pub const TABLE_M: [u64; 8] = [1, 2, 3, 255, 256, 4096, 65536, 1 << 20];
pub const BIG: usize = 7;

pub fn table(i: usize) -> &'static BabyStepGiantStep<C> {
    static TABLES: [OnceLock<BabyStepGiantStep<C>>; 8] = [
        OnceLock::new(),
        OnceLock::new(),
        OnceLock::new(),
        OnceLock::new(),
        OnceLock::new(),
        OnceLock::new(),
        OnceLock::new(),
        OnceLock::new(),
    ];
    TABLES[i].get_or_init(|| {
        if i == BIG {
            // `BabyStepGiantStep::new` serialises one point per entry (one field inversion each):
            // ~25 s for 2^20 entries, single-threaded. The big table is therefore assembled by the
            // harness (parallel, batch-normalised) and loaded through `Deserial`; the construction is
            // cross-checked against `new` on the 4096-entry table every time.
            let check = build_table_fast(&env().h, TABLE_M[5]);
            assert!(check == *table(5), "harness: fast table construction disagrees with BabyStepGiantStep::new");
            build_table_fast(&env().h, TABLE_M[i])
        } else {
            BabyStepGiantStep::new(&env().h, TABLE_M[i])
        }
    })
}

/// Same content as `BabyStepGiantStep::new(base, m)`, computed with batch normalisation on several
/// threads and loaded through the type's `Deserial` implementation.
pub fn build_table_fast(base: &C, m: u64) -> BabyStepGiantStep<C> {
    use ark_ec::CurveGroup;
    use ark_serialize::CanonicalSerialize;
    type G = ark_bls12_381::G1Projective;
    let b: G = *base.into_ark();
    let threads = 16u64.min(m.max(1));
    let per = m.div_ceil(threads);
    let mut parts: Vec<Vec<u8>> = Vec::new();
    std::thread::scope(|sc| {
        let hs: Vec<_> = (0..threads)
            .map(|t| {
                sc.spawn(move || {
                    let lo = t * per;
                    let hi = ((t + 1) * per).min(m);
                    let mut out = Vec::with_capacity(((hi.saturating_sub(lo)) * 56) as usize);
                    let mut j = lo;
                    let mut cur: G = *base.mul_by_scalar(&C::scalar_from_u64(lo)).into_ark();
                    while j < hi {
                        let n = (hi - j).min(4096);
                        let mut pts = Vec::with_capacity(n as usize);
                        for _ in 0..n {
                            pts.push(cur);
                            cur += b;
                        }
                        for (k, a) in G::normalize_batch(&pts).iter().enumerate() {
                            a.serialize_compressed(&mut out).expect("serialize");
                            out.extend_from_slice(&(j + k as u64).to_be_bytes());
                        }
                        j += n;
                    }
                    out
                })
            })
            .collect();
        for h in hs {
            parts.push(h.join().expect("table thread"));
        }
    });
    let inverse_point = base.mul_by_scalar(&C::scalar_from_u64(m)).inverse_point();
    let mut bytes = Vec::with_capacity(8 + 48 + (m as usize) * 56);
    bytes.extend_from_slice(&m.to_be_bytes());
    bytes.extend_from_slice(&concordium_base::common::to_bytes(&inverse_point));
    for p in parts {
        bytes.extend_from_slice(&p);
    }
    let mut cur = std::io::Cursor::new(&bytes[..]);
    let t: BabyStepGiantStep<C> = concordium_base::common::from_bytes(&mut cur).expect("harness: table deserialization");
    assert_eq!(cur.position() as usize, bytes.len());
    t
}

/// Giant steps `discrete_log` performs for value `v` with table size `m`.
pub fn steps(v: u64, m: u64) -> u64 { v / m }

// ---------------------------------------------------------------------------------------------
// keys

pub struct Key {
    pub sk:   SecretKey<C>,
    pub pk:   PublicKey<C>,
    pub kind: &'static str,
}

pub fn minus_one() -> Scalar {
    let mut s = Scalar::one();
    s.negate();
    s
}

/// Secret scalar from the table; choice 0 (exhausted input) is the scalar 1.
pub fn gen_key(u: &mut Unstructured, generator: &C, rng: &mut Rng) -> Key {
    let (scalar, kind) = match gen::byte(u) % 16 {
        0 => (Scalar::one(), "sk=1"),
        1 => (C::scalar_from_u64(2), "sk=2"),
        2 => (minus_one(), "sk=-1"),
        3 => (Scalar::zero(), "sk=0"),
        4 | 5 => (C::scalar_from_u64(gen::u16v(u) as u64 + 3), "sk=small"),
        6 => (C::scalar_from_u64(u64::MAX), "sk=2^64-1"),
        _ => (C::generate_scalar(rng), "sk=random"),
    };
    let sk = SecretKey { generator: *generator, scalar };
    let pk = PublicKey::from(&sk);
    Key { sk, pk, kind }
}

/// The ElGamal generator both parties use: the chain's (choice 0) or a custom one.
pub fn gen_generator(u: &mut Unstructured, rng: &mut Rng) -> (C, &'static str) {
    if gen::byte(u) < 40 {
        let s = C::generate_non_zero_scalar(rng);
        (env().g.mul_by_scalar(&s), "gen=custom")
    } else {
        (env().g, "gen=chain")
    }
}

// ---------------------------------------------------------------------------------------------
// amounts

pub const U32M: u64 = u32::MAX as u64;

/// A 32-bit chunk from the boundary table (global boundaries and boundaries of table size `m`).
pub fn gen_chunk(u: &mut Unstructured, m: u64) -> u64 {
    let v = match gen::byte(u) % 20 {
        0 => 0,
        1 => 1,
        2 => 2,
        3 => m - 1,
        4 => m,
        5 => m + 1,
        6 => 2 * m - 1,
        7 => 2 * m,
        8 => {
            let k = gen::range_u64(u, 0, 16);
            let j = gen::range_u64(u, 0, m - 1);
            k * m + j
        }
        9 => 0xFFFF,
        10 => 0x1_0000,
        11 => 0x8000_0000,
        12 => U32M,
        13 => U32M - 1,
        14 => U32M - gen::byte(u) as u64,
        15 => gen::byte(u) as u64,
        16 => gen::u16v(u) as u64,
        17 => 17 * m.min(1 << 24),
        _ => gen::u32v(u) as u64,
    };
    v.min(U32M)
}

pub fn amount_of(lo: u64, hi: u64) -> u64 { (hi << 32) | lo }

pub fn lo_hi(a: u64) -> (u64, u64) { (a & U32M, a >> 32) }

pub fn is_chunk_boundary(c: u64) -> bool { c <= 1 || c >= U32M - 1 }

/// A 64-bit balance from the boundary table of the property (0, 1, 2^32-1, 2^32, 2^32+1, 2^64-1, random...).
pub fn gen_balance(u: &mut Unstructured) -> u64 {
    match gen::byte(u) % 20 {
        0 => 0,
        1 => 1,
        2 => 2,
        3 => U32M,
        4 => U32M + 1,
        5 => U32M + 2,
        6 => u64::MAX,
        7 => u64::MAX - 1,
        8 => 1 << 63,
        9 => (1 << 63) - 1,
        10 => U32M - 1,
        11 => 2 * (U32M + 1),
        12 => 2 * (U32M + 1) - 1,
        13 => gen::byte(u) as u64,
        14 => gen::u32v(u) as u64,
        15 => (gen::u32v(u) as u64) << 32,
        16 => amount_of(gen::byte(u) as u64, gen::byte(u) as u64),
        17 => u64::MAX - gen::byte(u) as u64,
        _ => gen::u64v(u),
    }
}

// ---------------------------------------------------------------------------------------------
// group-level helpers (independent of the table / discrete log)

pub fn h_pow(v: u64) -> C { env().h.mul_by_scalar(&C::scalar_from_u64(v)) }

/// `sk.decrypt(c)` must be the message h^v.
pub fn decrypts_to(sk: &SecretKey<C>, c: &Cipher<C>, v: u64) -> bool { sk.decrypt(c).value == h_pow(v) }

/// Both chunks of `e` decrypt (group level) to the canonical 32-bit chunks of `a`.
pub fn amount_decrypts_to(sk: &SecretKey<C>, e: &EncryptedAmount<C>, a: u64) -> bool {
    let (lo, hi) = lo_hi(a);
    decrypts_to(sk, &e.encryptions[0], lo) && decrypts_to(sk, &e.encryptions[1], hi)
}

pub fn amt(a: u64) -> Amount { Amount::from_micro_ccd(a) }

