//! C10: schema-directed JSON <-> binary conversion is faithful and total.
//!
//! Targets
//!  * `roundtrip`  three-way agreement on generated (schema type, conforming value) pairs between the
//!                 code under test and an independent renderer (Val -> JSON) and encoder (Val -> bytes).
//!  * `reject`     JSON that violates the schema at exactly one node must be refused.
//!  * `totality`   `to_json` on (type, bytes) with hostile types and mutated / random bytes: no panic,
//!                 and exact agreement with an independent decoder.
//!  * `schema`     binary round trips of schemas in every version, with / without version prefix and
//!                 in base64, against an independent encoder and parser, also on mutated bytes.
//!  * `amplify`    work of `to_json` on a byte list must be justified by the input size.
pub mod codec;
pub mod model;
pub mod mutate;
pub mod render;
pub mod schemas;

use codec::{Dec, Stop};
use concordium_contracts_common::schema::{SizeLength, Type, VersionedModuleSchema, VersionedSchemaError};
use concordium_contracts_common::{from_bytes, to_bytes, Cursor};
use model::*;
use render::{brief, Mismatch, Mode};
use serde_json::Value;
use std::hash::{Hash, Hasher};
use vcore::{gen, vensure, CheckResult, Ctx, Property, Target, Unstructured, Violation};

fn hex(b: &[u8]) -> String {
    if b.len() > 200 {
        format!("{}… ({} bytes)", gen::hex(&b[..200]), b.len())
    } else {
        gen::hex(b)
    }
}

fn short<T: std::fmt::Debug>(x: &T) -> String {
    let s = format!("{x:?}");
    if s.len() > 1200 {
        let mut cut = 1200;
        while !s.is_char_boundary(cut) {
            cut -= 1;
        }
        format!("{} …", &s[..cut])
    } else {
        s
    }
}

fn viol(oracle: &str, sig: impl Into<String>, detail: String) -> Violation { Violation::new(oracle, detail).with_signature(sig) }

fn classify_type(ty: &Type, ctx: &mut Ctx) {
    let mut seen: Vec<&'static str> = Vec::new();
    walk_types(ty, &mut |t| {
        let n = ctor_name(t);
        if !seen.contains(&n) {
            seen.push(n);
        }
        let sl = match t {
            Type::List(s, _) | Type::Set(s, _) | Type::Map(s, _, _) | Type::String(s) | Type::ByteList(s) | Type::ContractName(s) | Type::ReceiveName(s) => Some(*s),
            _ => None,
        };
        if let Some(s) = sl {
            let n = match s {
                SizeLength::U8 => "len:U8",
                SizeLength::U16 => "len:U16",
                SizeLength::U32 => "len:U32",
                SizeLength::U64 => "len:U64",
            };
            if !seen.contains(&n) {
                seen.push(n);
            }
        }
    });
    for n in seen {
        ctx.class(n);
    }
    let d = depth(ty);
    ctx.class(match d {
        1 => "depth:1",
        2 => "depth:2",
        3..=6 => "depth:3-6",
        7..=16 => "depth:7-16",
        _ => "depth:17-32",
    });
}

fn case_key(ty: &Type, bytes: &[u8]) -> u64 {
    let mut tb = Vec::new();
    schemas::e_type(ty, &mut tb);
    let mut h = std::collections::hash_map::DefaultHasher::new();
    tb.hash(&mut h);
    bytes.hash(&mut h);
    h.finish()
}

/// Observations made while matching (behaviour ruled outside the claim, counted, never an alarm).
#[derive(Default)]
struct Obs {
    /// A1: the text produced for a timestamp from year 10000 on is not accepted back.
    ts_output_rejected:    std::cell::Cell<u64>,
    /// A2: a timestamp whose i64 cast is negative was shown as a date before 1970.
    ts_wrapped:            std::cell::Cell<u64>,
    /// any other timestamp / duration text that is not accepted back
    other_output_rejected: std::cell::Cell<u64>,
}

impl Obs {
    fn report(&self, ctx: &mut Ctx) {
        ctx.class_n("obs:A1-timestamp-text-not-accepted-back", self.ts_output_rejected.get());
        ctx.class_n("obs:A2-timestamp-shown-before-1970", self.ts_wrapped.get());
        ctx.class_n("obs:other-leaf-text-not-accepted-back", self.other_output_rejected.get());
    }

    /// Leaf-level check used while matching `to_json` output: if the text produced for a timestamp
    /// / duration is accepted back by the same schema type, it must give the same bytes.
    fn leaf(&self, ty: &Type, v: &Val, j: &Value) -> Result<(), Mismatch> {
        let Val::U(x) = v else { return Ok(()) };
        if j.is_null() {
            self.ts_wrapped.set(self.ts_wrapped.get() + 1);
            return Ok(());
        }
        let want = (*x as u64).to_le_bytes().to_vec();
        match ty.serial_value(j) {
            Ok(b) if b == want => Ok(()),
            Ok(b) => Err((
                format!("{}-text-reads-back-differently", ctor_name(ty).to_lowercase()),
                format!("to_json rendered the {} of {x} ms as {j}, but serial_value of that text gives different bytes {}", ctor_name(ty), hex(&b)),
            )),
            Err(_) => {
                let c = if matches!(ty, Type::Timestamp) && *x as u64 >= YEAR_10000_MS { &self.ts_output_rejected } else { &self.other_output_rejected };
                c.set(c.get() + 1);
                Ok(())
            }
        }
    }
}

// ------------------------------------------------------------------------------------------
// roundtrip

fn t_roundtrip(data: &[u8], ctx: &mut Ctx) -> CheckResult {
    let mut u = Unstructured::new(data);
    let flags = gen::byte(&mut u);
    let ts_edge = flags & 7 == 7;
    let allow_big = (flags >> 3) & 7 == 7;
    let big_budget = (flags >> 6) == 3;
    let mut tg = TypeGen { opts: TypeOpts { hostile: false }, budget: 48, dup_names: false, uninhabited: false, force_composite: false };
    let ty = gen_type(&mut u, &mut tg);
    let mut vg = ValGen { budget: if big_budget { 2500 } else { 160 }, ts_edge, ts_wrap: false, allow_big };
    let val = gen_val(&mut u, &ty, &mut vg);
    let input = render::render(&ty, &val, &mut Mode::Input(&mut u));
    let mut bytes = Vec::new();
    codec::enc(&ty, &val, &mut bytes);

    classify_type(&ty, ctx);
    if ts_edge {
        ctx.class("opt:timestamp-edge-values");
    }
    if bytes.len() > 4096 {
        ctx.class("bytes>4KiB");
    }
    let nontrivial = depth(&ty) >= 2 && has_collection_or_enum(&ty) && bytes.iter().any(|b| *b != 0);
    if nontrivial {
        ctx.nontrivial(&case_key(&ty, &bytes));
    }
    if nontrivial || ctx.tier == vcore::Tier::Thorough {
        ctx.sample(|| format!("type {} | input JSON {} | bytes {}", short(&ty), brief(&input), hex(&bytes)));
    }
    ctx.describe(|| format!("type: {}\nvalue: {}\ninput JSON: {}\nexpected bytes: {}", short(&ty), short(&val), brief(&input), hex(&bytes)));

    // O1: JSON -> bytes equals the independent contract-side encoding
    match ty.serial_value(&input) {
        Ok(b) => vensure!(b == bytes, "json-to-bytes", "serial_value gave {} but the contract-side encoding of the value is {}", hex(&b), hex(&bytes)),
        Err(e) => return Err(viol("json-to-bytes", "conforming-json-rejected", format!("serial_value rejected conforming JSON {}: {e}", brief(&input)))),
    }
    // O2: bytes -> JSON equals the normalised JSON, consuming exactly the encoding
    let mut cur = Cursor::new(&bytes[..]);
    let j = match ty.to_json(&mut cur) {
        Ok(j) => j,
        Err(e) => return Err(viol("bytes-to-json", "valid-encoding-rejected", format!("to_json failed on the encoding of a conforming value: {}", short(&format!("{e}"))))),
    };
    vensure!(cur.offset == bytes.len(), "bytes-to-json", "to_json consumed {} of {} bytes", cur.offset, bytes.len());
    let obs = Obs::default();
    let m = render::matches(&ty, &val, &j, &mut |t, v, j| obs.leaf(t, v, j));
    obs.report(ctx);
    if let Err((sig, msg)) = m {
        return Err(viol("bytes-to-json", sig, msg));
    }
    // O1b: the documented normal notation of the value is conforming JSON too
    let normal = render::render(&ty, &val, &mut Mode::Normal);
    if normal != input {
        match ty.serial_value(&normal) {
            Ok(b) => vensure!(b == bytes, "json-to-bytes", "serial_value of the normal notation gave {} but the contract-side encoding is {}", hex(&b), hex(&bytes)),
            Err(e) => return Err(viol("json-to-bytes", "conforming-json-rejected", format!("serial_value rejected conforming JSON {}: {e}", brief(&normal)))),
        }
    }
    // O3: if the JSON produced by to_json is accepted back, it gives the same bytes
    match ty.serial_value(&j) {
        Ok(b) => vensure!(b == bytes, "json-fixpoint", "serial_value(to_json(bytes)) gave {} instead of {}", hex(&b), hex(&bytes)),
        Err(_) if obs.ts_output_rejected.get() > 0 => ctx.class("obs:to_json-output-not-accepted-back"),
        Err(_) => ctx.class("obs:to_json-output-not-accepted-back(no-A1-timestamp)"),
    }
    // the string form is the same JSON
    if bytes.len() <= 512 {
        match ty.to_json_string_pretty(&bytes) {
            Ok(s) => {
                let parsed: Result<Value, _> = serde_json::from_str(&s);
                vensure!(parsed.as_ref().ok() == Some(&j), "pretty-string", "to_json_string_pretty gave {s:?}, which is not the JSON of to_json {}", brief(&j));
            }
            Err(e) => return Err(viol("pretty-string", "pretty-string-failed", format!("to_json_string_pretty failed where to_json succeeded: {e}"))),
        }
    }
    Ok(())
}

// ------------------------------------------------------------------------------------------
// reject

fn t_reject(data: &[u8], ctx: &mut Ctx) -> CheckResult {
    let mut u = Unstructured::new(data);
    let mut tg = TypeGen { opts: TypeOpts { hostile: false }, budget: 32, dup_names: false, uninhabited: false, force_composite: false };
    let ty = gen_type(&mut u, &mut tg);
    let mut vg = ValGen { budget: 60, ts_edge: false, ts_wrap: false, allow_big: false };
    let val = gen_val(&mut u, &ty, &mut vg);
    let sites = mutate::count_sites(&ty, &val);
    if sites == 0 {
        ctx.class("no-mutable-node");
        return Ok(());
    }
    // bias towards the root and the last node, otherwise uniform
    let k = match gen::idx(&mut u, 4) {
        0 => 0,
        1 => sites - 1,
        _ => gen::idx(&mut u, sites),
    };
    let mut kk = k as isize;
    let mut applied = None;
    let j = mutate::render_mut(&ty, &val, &mut kk, &mut u, &mut applied);
    let applied = applied.expect("harness bug: a mutation site was counted but not reached");
    ctx.class(applied.kind);
    ctx.class(&format!("at:{}", applied.at));
    if depth(&ty) >= 2 && k > 0 {
        let mut h = std::collections::hash_map::DefaultHasher::new();
        j.to_string().hash(&mut h);
        ctx.nontrivial(&(case_key(&ty, &[]), h.finish()));
    }
    ctx.sample(|| format!("type {} | {} at a {} node (site {k} of {sites}) | JSON {}", short(&ty), applied.kind, applied.at, brief(&j)));
    ctx.describe(|| format!("type: {}\nvalue: {}\nviolation: {} at a {} node (site {k} of {sites})\nJSON: {}", short(&ty), short(&val), applied.kind, applied.at, brief(&j)));

    // baseline: without the mutation the JSON is accepted (so the mutation is the only violation)
    let base = render::render(&ty, &val, &mut Mode::Normal);
    if let Err(e) = ty.serial_value(&base) {
        return Err(viol("reject-baseline", "conforming-json-rejected", format!("serial_value rejected conforming JSON {}: {e}", brief(&base))));
    }
    match ty.serial_value(&j) {
        Err(_) => Ok(()),
        Ok(b) => {
            let sig = format!("violation-accepted:{}@{}", applied.kind, applied.at);
            Err(viol(
                "reject",
                sig,
                format!("serial_value accepted JSON that violates the schema ({} at a {} node) and produced bytes {}; JSON: {}", applied.kind, applied.at, hex(&b), brief(&j)),
            ))
        }
    }
}

// ------------------------------------------------------------------------------------------
// totality

fn mutate_bytes(u: &mut Unstructured, b: &mut Vec<u8>) -> &'static str {
    const VALS: [u8; 8] = [0, 1, 2, 0x7f, 0x80, 0xff, 0xfe, 0x40];
    match gen::idx(u, 8) {
        0 if !b.is_empty() => {
            let n = gen::idx(u, b.len());
            b.truncate(n);
            "truncate"
        }
        1 if !b.is_empty() => {
            let i = gen::idx(u, b.len());
            b[i] ^= 1 << (gen::byte(u) % 8);
            "bitflip"
        }
        2 if !b.is_empty() => {
            let i = gen::idx(u, b.len());
            b[i] = VALS[gen::idx(u, VALS.len())];
            "set-byte"
        }
        3 if !b.is_empty() => {
            let i = gen::idx(u, b.len());
            b.remove(i);
            "delete-byte"
        }
        4 => {
            let i = gen::idx(u, b.len() + 1);
            b.insert(i, VALS[gen::idx(u, VALS.len())]);
            "insert-byte"
        }
        5 if !b.is_empty() => {
            let i = gen::idx(u, b.len());
            b[i] = b[i].wrapping_add(if gen::boolean(u) { 1 } else { 0xff });
            "inc-dec"
        }
        6 => {
            let extra = gen::short_bytes(u, 24);
            b.extend_from_slice(&extra);
            "append"
        }
        _ => {
            if b.is_empty() {
                b.push(gen::byte(u));
            } else {
                let i = gen::idx(u, b.len());
                b[i] = gen::byte(u);
            }
            "random-byte"
        }
    }
}

fn t_totality(data: &[u8], ctx: &mut Ctx) -> CheckResult {
    let mut u = Unstructured::new(data);
    let mut tg = TypeGen { opts: TypeOpts { hostile: true }, budget: 40, dup_names: false, uninhabited: false, force_composite: false };
    let ty = gen_type(&mut u, &mut tg);
    let mut bytes = Vec::new();
    let source = match gen::idx(&mut u, 8) {
        0 => {
            bytes = gen::short_bytes(&mut u, 64);
            "src:random"
        }
        s => {
            let mut vg = ValGen { budget: 80, ts_edge: true, ts_wrap: true, allow_big: false };
            let val = gen_val(&mut u, &ty, &mut vg);
            codec::enc(&ty, &val, &mut bytes);
            match s {
                1 | 2 => "src:valid",
                3..=5 => {
                    mutate_bytes(&mut u, &mut bytes);
                    "src:valid+1-mutation"
                }
                _ => {
                    for _ in 0..gen::range_usize(&mut u, 2, 4) {
                        mutate_bytes(&mut u, &mut bytes);
                    }
                    "src:valid+n-mutations"
                }
            }
        }
    };
    ctx.class(source);
    classify_type(&ty, ctx);
    if tg.dup_names {
        ctx.class("opt:duplicate-names");
    }
    if tg.uninhabited {
        ctx.class("opt:uninhabited-type");
    }
    ctx.describe(|| format!("type: {}\nbytes: {}", short(&ty), hex(&bytes)));

    let mut d = Dec::new(&bytes);
    let mine = d.dec(&ty);
    let (consumed, lenient) = (d.pos, d.lenient);
    if let Err(Stop::Excluded(why)) = &mine {
        ctx.class(&format!("excluded:{why}"));
        return Ok(());
    }
    let mut cur = Cursor::new(&bytes[..]);
    let real = ty.to_json(&mut cur);
    match (&mine, &real) {
        (Err(Stop::Excluded(_)), _) => unreachable!(),
        (Err(Stop::Invalid(why)), Ok(j)) => {
            return Err(viol("totality-differential", "invalid-encoding-accepted", format!("to_json accepted bytes that are not an encoding of the type ({why}); it returned {}", brief(j))));
        }
        (Err(_), Err(e)) => {
            ctx.class("outcome:both-reject");
            // rendering the error must not panic either
            let _ = format!("{e}");
            let _ = e.display(true);
        }
        (Ok(_), Err(e)) => {
            if lenient {
                ctx.class("outcome:lenient-rejected");
            } else {
                return Err(viol("totality-differential", "valid-encoding-rejected", format!("to_json failed on bytes that encode a value of the type: {}", short(&format!("{e}")))));
            }
        }
        (Ok(val), Ok(j)) => {
            ctx.class(if lenient { "outcome:both-accept-lenient" } else { "outcome:both-accept" });
            vensure!(cur.offset == consumed, "totality-differential", "to_json consumed {} bytes, the independent decoder {}", cur.offset, consumed);
            let obs = Obs::default();
            let m = render::matches(&ty, val, j, &mut |t, v, j| obs.leaf(t, v, j));
            obs.report(ctx);
            if let Err((sig, msg)) = m {
                return Err(viol("totality-differential", sig, msg));
            }
            if !lenient && !tg.dup_names && obs.ts_wrapped.get() == 0 {
                // if the produced JSON is accepted back it must give the bytes that were consumed
                match ty.serial_value(j) {
                    Ok(b) => vensure!(b == bytes[..consumed], "totality-reserialise", "serial_value(to_json(bytes)) gave {} instead of the consumed prefix {}", hex(&b), hex(&bytes[..consumed])),
                    Err(_) => ctx.class("obs:to_json-output-not-accepted-back"),
                }
            }
            if depth(&ty) >= 2 && has_collection_or_enum(&ty) && source != "src:valid" {
                ctx.nontrivial(&case_key(&ty, &bytes));
            }
            ctx.sample(|| format!("type {} | bytes {} ({source}) | to_json {}", short(&ty), hex(&bytes), brief(j)));
        }
    }
    if mine.is_err() && depth(&ty) >= 2 && has_collection_or_enum(&ty) {
        ctx.nontrivial(&case_key(&ty, &bytes));
    }
    Ok(())
}

// ------------------------------------------------------------------------------------------
// amplify

fn t_amplify(data: &[u8], ctx: &mut Ctx) -> CheckResult {
    let mut u = Unstructured::new(data);
    let declared = gen::range_usize(&mut u, 1 << 12, 1 << 13);
    let present = gen::range_usize(&mut u, 0, 16);
    let (ty, mut bytes) = match gen::idx(&mut u, 4) {
        0 => (Type::ByteList(SizeLength::U16), (declared as u16).to_le_bytes().to_vec()),
        1 => (Type::ByteList(SizeLength::U32), (declared as u32).to_le_bytes().to_vec()),
        2 => (Type::ByteList(SizeLength::U64), (declared as u64).to_le_bytes().to_vec()),
        _ => (Type::ByteArray(declared as u32), Vec::new()),
    };
    bytes.extend(gen::bytes(&mut u, present));
    let (ty, bytes) = if gen::boolean(&mut u) {
        let mut b = vec![7u8];
        b.extend_from_slice(&bytes);
        (Type::Pair(Box::new(Type::U8), Box::new(ty)), b)
    } else {
        (ty, bytes)
    };
    ctx.class(ctor_name(&ty));
    ctx.nontrivial(&(declared, present, ctor_name(&ty)));
    ctx.sample(|| format!("type {ty:?} | {} bytes of input declaring {declared} bytes", bytes.len()));
    ctx.describe(|| format!("type: {ty:?}\nbytes: {}\ndeclared length {declared}, {present} bytes present", hex(&bytes)));
    let (r, rep) = vcore::alloc::measure(|| {
        let mut cur = Cursor::new(&bytes[..]);
        ty.to_json(&mut cur).map(|j| j.to_string().len())
    });
    vensure!(r.is_err(), "amplify", "to_json accepted a byte list of {declared} bytes from {} bytes of input", bytes.len());
    const LIMIT: usize = 128 << 10;
    if rep.peak > LIMIT {
        return Err(viol(
            "amplify",
            "to_json-bytes-length-amplification",
            format!(
                "to_json on {} bytes of input that declare a byte list of {declared} bytes allocated {} bytes at peak (limit {LIMIT}): the work follows the declared length, not the input size",
                bytes.len(),
                rep.peak
            ),
        ));
    }
    Ok(())
}

// ------------------------------------------------------------------------------------------
// schema

fn veq(a: &VersionedModuleSchema, m: &schemas::Module) -> bool { &schemas::Module::of(a) == m }

fn check_part<T: concordium_contracts_common::Serial + concordium_contracts_common::Deserial + PartialEq + std::fmt::Debug>(
    what: &str,
    x: &T,
    mine: Vec<u8>,
) -> CheckResult {
    let real = to_bytes(x);
    vensure!(real == mine, "schema-encoding", "{what}: to_bytes gave {} but the documented layout gives {}", hex(&real), hex(&mine));
    match from_bytes::<T>(&real) {
        Ok(y) => vensure!(&y == x, "schema-roundtrip", "{what}: from_bytes(to_bytes(x)) = {} differs from x = {}", short(&y), short(x)),
        Err(_) => return Err(viol("schema-roundtrip", format!("schema-roundtrip-parse-error:{what}"), format!("{what}: from_bytes failed on to_bytes(x), x = {}", short(x)))),
    }
    Ok(())
}

fn t_schema(data: &[u8], ctx: &mut Ctx) -> CheckResult {
    use schemas::*;
    let mut u = Unstructured::new(data);
    let version = gen::idx(&mut u, 4) as u8;
    let m = gen_module(&mut u, version);
    ctx.class(match version {
        0 => "ModuleV0",
        1 => "ModuleV1",
        2 => "ModuleV2",
        _ => "ModuleV3",
    });
    let mut plain = Vec::new();
    e_module(&m, &mut plain);
    let mut versioned = Vec::new();
    e_versioned(&m, &mut versioned);
    ctx.describe(|| format!("module: {}\nversioned bytes: {}", short(&m), hex(&versioned)));
    let n_contracts = match &m {
        Module::V0(x) => x.contracts.len(),
        Module::V1(x) => x.contracts.len(),
        Module::V2(x) => x.contracts.len(),
        Module::V3(x) => x.contracts.len(),
    };
    if n_contracts > 0 && plain.len() > 16 {
        let mut h = std::collections::hash_map::DefaultHasher::new();
        versioned.hash(&mut h);
        ctx.nontrivial(&h.finish());
        ctx.sample(|| format!("{} | versioned bytes {}", short(&m), hex(&versioned)));
    }

    // (a) the module and its parts: layout and round trip
    match &m {
        Module::V0(x) => {
            check_part("ModuleV0", x, plain.clone())?;
            for c in x.contracts.values() {
                let mut o = Vec::new();
                e_c0(c, &mut o);
                check_part("ContractV0", c, o)?;
                ctx.class("ContractV0");
            }
        }
        Module::V1(x) => {
            check_part("ModuleV1", x, plain.clone())?;
            for c in x.contracts.values() {
                let mut o = Vec::new();
                e_c1(c, &mut o);
                check_part("ContractV1", c, o)?;
                ctx.class("ContractV1");
                for f in c.init.iter().chain(c.receive.values()) {
                    let mut o = Vec::new();
                    e_fn1(f, &mut o);
                    check_part("FunctionV1", f, o)?;
                    ctx.class("FunctionV1");
                }
            }
        }
        Module::V2(x) => {
            check_part("ModuleV2", x, plain.clone())?;
            for c in x.contracts.values() {
                let mut o = Vec::new();
                e_c2(c, &mut o);
                check_part("ContractV2", c, o)?;
                ctx.class("ContractV2");
                for f in c.init.iter().chain(c.receive.values()) {
                    let mut o = Vec::new();
                    e_fn2(f, &mut o);
                    check_part("FunctionV2", f, o)?;
                    ctx.class("FunctionV2");
                }
            }
        }
        Module::V3(x) => {
            check_part("ModuleV3", x, plain.clone())?;
            for c in x.contracts.values() {
                let mut o = Vec::new();
                e_c3(c, &mut o);
                check_part("ContractV3", c, o)?;
                ctx.class("ContractV3");
                for f in c.init.iter().chain(c.receive.values()) {
                    let mut o = Vec::new();
                    e_fn2(f, &mut o);
                    check_part("FunctionV2", f, o)?;
                    ctx.class("FunctionV2");
                }
            }
        }
    }
    // a type and a fields value on their own
    {
        let t = gen_schema_type(&mut u);
        let mut o = Vec::new();
        e_type(&t, &mut o);
        check_part("Type", &t, o)?;
        classify_type(&t, ctx);
        if let Type::Struct(f) = &t {
            let mut o = Vec::new();
            e_fields(f, &mut o);
            check_part("Fields", f, o)?;
        }
    }

    // (b) the versioned schema: prefix, explicit version, base64
    let vm = m.versioned();
    let real_versioned = to_bytes(&vm);
    vensure!(real_versioned == versioned, "schema-encoding", "VersionedModuleSchema: to_bytes gave {} but the documented layout gives {}", hex(&real_versioned), hex(&versioned));
    let wrong = (version + 1 + gen::idx(&mut u, 3) as u8) % 4;
    for hint in [None, Some(version), Some(wrong), Some(200)] {
        match VersionedModuleSchema::new(&versioned, &hint) {
            Ok(x) => vensure!(veq(&x, &m), "schema-versioned", "new(versioned bytes, {hint:?}) gave a different schema: {}", short(&x)),
            Err(e) => return Err(viol("schema-versioned", "versioned-parse-error", format!("new(versioned bytes, {hint:?}) failed: {e}"))),
        }
    }
    match VersionedModuleSchema::new(&plain, &Some(version)) {
        Ok(x) => vensure!(veq(&x, &m), "schema-versioned", "new(unversioned bytes, Some({version})) gave a different schema: {}", short(&x)),
        Err(e) => return Err(viol("schema-versioned", "unversioned-parse-error", format!("new(unversioned bytes, Some({version})) failed: {e}"))),
    }
    vensure!(
        matches!(VersionedModuleSchema::new(&plain, &None), Err(VersionedSchemaError::MissingSchemaVersion)),
        "schema-versioned",
        "new(unversioned bytes, None) must report a missing schema version"
    );
    vensure!(
        matches!(VersionedModuleSchema::new(&plain, &Some(4 + gen::byte(&mut u) % 200)), Err(VersionedSchemaError::InvalidSchemaVersion)),
        "schema-versioned",
        "new(unversioned bytes, Some(v >= 4)) must report an invalid schema version"
    );
    let b64 = base64_nopad(&versioned);
    match VersionedModuleSchema::from_base64_str(&b64) {
        Ok(x) => vensure!(veq(&x, &m), "schema-base64", "from_base64_str gave a different schema: {}", short(&x)),
        Err(e) => return Err(viol("schema-base64", "base64-parse-error", format!("from_base64_str failed on {b64:?}: {e}"))),
    }

    // (c) mutated bytes: parsing is total and agrees with the independent parser
    let rounds = gen::range_usize(&mut u, 1, 3);
    for _ in 0..rounds {
        let (mut b, kind) = match gen::idx(&mut u, 3) {
            0 => (versioned.clone(), 0),
            1 => (plain.clone(), 1),
            _ => {
                let t = gen_schema_type(&mut u);
                let mut o = Vec::new();
                e_type(&t, &mut o);
                (o, 2)
            }
        };
        for _ in 0..gen::range_usize(&mut u, 1, 3) {
            mutate_bytes(&mut u, &mut b);
        }
        let mut p = P::new(&b);
        match kind {
            0 => {
                let mine = p.versioned();
                if p.max_depth > 32 {
                    ctx.class("excluded:depth>32");
                    continue;
                }
                let real = VersionedModuleSchema::new(&b, &None);
                cmp_parse("VersionedModuleSchema::new(mutated, None)", &b, mine.as_ref().ok(), real.as_ref().ok().map(Module::of).as_ref(), ctx)?;
                if let Ok(s) = VersionedModuleSchema::from_base64_str(&base64_nopad(&b)) {
                    vensure!(mine.as_ref().ok() == Some(&Module::of(&s)), "schema-mutated", "from_base64_str and the independent parser disagree on {}", hex(&b));
                } else {
                    vensure!(mine.is_err(), "schema-mutated", "from_base64_str rejects {} which the independent parser accepts", hex(&b));
                }
            }
            1 => {
                let mut pv = P::new(&b);
                let mine = match pv.versioned() {
                    Ok(x) => Ok(x),
                    Err(()) => p.module(version),
                };
                if p.max_depth.max(pv.max_depth) > 32 {
                    ctx.class("excluded:depth>32");
                    continue;
                }
                let real = VersionedModuleSchema::new(&b, &Some(version));
                cmp_parse("VersionedModuleSchema::new(mutated, Some(v))", &b, mine.as_ref().ok(), real.as_ref().ok().map(Module::of).as_ref(), ctx)?;
            }
            _ => {
                let mine = p.ty(1);
                if p.max_depth > 32 {
                    ctx.class("excluded:depth>32");
                    continue;
                }
                let real = from_bytes::<Type>(&b);
                cmp_parse("from_bytes::<Type>(mutated)", &b, mine.as_ref().ok(), real.as_ref().ok(), ctx)?;
                if let Ok(t) = &real {
                    // what parses survives another round trip (the bytes themselves need not be
                    // reproduced: map entries may come in any order, see the docs of BTreeMap's Deserial)
                    vensure!(from_bytes::<Type>(&to_bytes(t)).as_ref() == Ok(t), "schema-mutated", "from_bytes(to_bytes(t)) != t for t parsed from {}", hex(&b));
                }
            }
        }
    }
    Ok(())
}

fn cmp_parse<T: PartialEq + std::fmt::Debug>(what: &str, b: &[u8], mine: Option<&T>, real: Option<&T>, ctx: &mut Ctx) -> CheckResult {
    match (mine, real) {
        (None, None) => ctx.class("mutated:both-reject"),
        (Some(a), Some(r)) => {
            ctx.class("mutated:both-accept");
            vensure!(a == r, "schema-mutated", "{what}: parsed {} but the documented layout reads {} from {}", short(r), short(a), hex(b));
        }
        (Some(a), None) => {
            return Err(viol("schema-mutated", "schema-valid-bytes-rejected", format!("{what} failed on {} which the documented layout reads as {}", hex(b), short(a))));
        }
        (None, Some(r)) => {
            return Err(viol("schema-mutated", "schema-invalid-bytes-accepted", format!("{what} accepted {} (as {}), which the documented layout does not allow", hex(b), short(r))));
        }
    }
    Ok(())
}

pub fn property() -> Property {
    Property {
        id: "C10",
        rule: "Cases are decoded from a choice sequence. roundtrip/reject/totality draw a schema Type over all 32 constructors (all four size lengths, named/unnamed/no fields, enums with 1..300 variants, tagged enums with sparse tags, LEB128 constraints 1..37), most of depth <= 6 and about 1 in 8 with a forced spine up to depth 32, and a conforming value in an own value model (boundary integers, empty / 255 / 256 / 65535-element collections, non-ASCII strings, timestamps at calendar boundaries). A case is non-trivial when the type has depth >= 2, contains a collection or enum and the encoding has a non-zero byte (roundtrip); when a violation is injected below the root of such a type (reject); when mutated or random bytes are decoded under such a type (totality); when a module has at least one contract (schema). Distinct cases are counted by a hash of (type encoding, value encoding / injected JSON / bytes).",
        assumptions: &[
            "The expected JSON and the expected bytes come from an independent renderer, encoder and decoder written from the documentation of schema::Type and of the JSON conventions; timestamps and durations produced by to_json are compared by the instant / time span they denote, not textually.",
            "Set and map inputs are generated without duplicates; element order is not prescribed by the schema and is not checked.",
            "Inside the claim only: type nesting <= 32; collections of zero-width elements never declare more than 2^16 elements (such inputs are counted as excluded:zero-width-count, observation O2); timestamps whose millisecond value cast to i64 is negative (>= 2^64 - 8.4e15) are not generated JSON-first and their rendering is not checked bytes-first (observation A2).",
            "JSON produced by to_json that serial_value refuses is counted (obs:...), not reported: the property covers JSON that the schema accepts; if it is accepted, it must give the same bytes.",
            "Duplicate set elements / map keys and non-minimal LEB128 encodings may be rejected or accepted by to_json (no assertion on acceptance).",
            "Account address checks rely on SHA-256 collisions of 4-byte checksums not occurring (probability 2^-32 per corrupted address).",
        ],
        targets: vec![
            // first: a regression of the byte-list reader (fixed finding B) must be reported here,
            // at a small scale, before the totality target would run into it at full scale
            Target::new("amplify", t_amplify).len(0, 64).cases(64, 1024),
            Target::new("roundtrip", t_roundtrip).len(0, 640).cases(1_600_000, 32_000_000).floors(&[
                ("List", 0.05),
                ("Set", 0.05),
                ("Map", 0.05),
                ("Array", 0.05),
                ("Pair", 0.05),
                ("Enum", 0.05),
                ("Enum-u16", 0.004),
                ("TaggedEnum", 0.05),
                ("Struct-named", 0.03),
                ("Struct-unnamed", 0.02),
                ("Struct-none", 0.01),
                ("String", 0.03),
                ("ContractName", 0.03),
                ("ReceiveName", 0.03),
                ("ByteList", 0.03),
                ("ByteArray", 0.03),
                ("ULeb128", 0.03),
                ("ILeb128", 0.03),
                ("U128", 0.03),
                ("I128", 0.03),
                ("Amount", 0.03),
                ("AccountAddress", 0.03),
                ("ContractAddress", 0.03),
                ("Timestamp", 0.03),
                ("Duration", 0.03),
                ("len:U8", 0.08),
                ("len:U16", 0.08),
                ("len:U32", 0.08),
                ("len:U64", 0.08),
                ("depth:17-32", 0.02),
            ]),
            Target::new("reject", t_reject).len(0, 512).cases(1_000_000, 20_000_000).floors(&[
                ("wrong-json-type", 0.05),
                ("out-of-range", 0.03),
                ("missing-field", 0.005),
                ("extra-field", 0.004),
                ("wrong-variant", 0.008),
                ("too-long", 0.008),
                ("bad-length", 0.015),
                ("leb-constraint-exceeded", 0.003),
            ]),
            Target::new("totality", t_totality).len(0, 512).cases(1_600_000, 32_000_000).floors(&[
                ("outcome:both-accept", 0.15),
                ("outcome:both-reject", 0.15),
                ("src:random", 0.05),
                ("src:valid+1-mutation", 0.1),
                ("depth:17-32", 0.015),
            ]),
            Target::new("schema", t_schema).len(0, 1024).cases(400_000, 8_000_000).floors(&[
                ("ModuleV0", 0.07),
                ("ModuleV1", 0.07),
                ("ModuleV2", 0.07),
                ("ModuleV3", 0.07),
                ("FunctionV1", 0.1),
                ("FunctionV2", 0.1),
                ("mutated:both-accept", 0.08),
                ("mutated:both-reject", 0.3),
            ]),
        ],
    }
}
