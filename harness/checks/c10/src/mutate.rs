//! One-step schema violations: given a conforming (type, value), render its JSON with exactly one
//! node replaced by JSON that the documented format does not allow at that node.
use crate::codec::{ileb_groups, uleb_groups};
use crate::model::*;
use crate::render::*;
use concordium_contracts_common::schema::{Fields, SizeLength, Type};
use num_bigint::BigInt;
use serde_json::{json, Map, Number, Value};
use vcore::{gen, Unstructured};

pub struct Applied {
    /// Class of the violation (evidence counters).
    pub kind: &'static str,
    pub at:   &'static str,
}

pub fn has_mutation(ty: &Type) -> bool { !matches!(ty, Type::Unit | Type::Struct(Fields::None)) }

pub fn count_sites(ty: &Type, v: &Val) -> usize {
    let own = has_mutation(ty) as usize;
    let fields = |f: &Fields, xs: &[Val]| -> usize { fields_types(f).into_iter().zip(xs).map(|(t, x)| count_sites(t, x)).sum() };
    own + match (ty, v) {
        (Type::Pair(a, b), Val::Pair(x, y)) => count_sites(a, x) + count_sites(b, y),
        (Type::List(_, t) | Type::Set(_, t) | Type::Array(_, t), Val::Seq(xs)) => xs.iter().map(|x| count_sites(t, x)).sum(),
        (Type::Map(_, k, vt), Val::Map(xs)) => xs.iter().map(|(a, b)| count_sites(k, a) + count_sites(vt, b)).sum(),
        (Type::Struct(f), Val::Fields(xs)) => fields(f, xs),
        (Type::Enum(vs), Val::Variant(i, xs)) => fields(&vs[*i as usize].1, xs),
        (Type::TaggedEnum(vs), Val::Variant(t, xs)) => fields(&vs[&(*t as u8)].1, xs),
        _ => 0,
    }
}

fn norm(ty: &Type, v: &Val) -> Value { render(ty, v, &mut Mode::Normal) }

fn fields_mut(f: &Fields, xs: &[Val], k: &mut isize, u: &mut Unstructured, ap: &mut Option<Applied>) -> Value {
    match f {
        Fields::Named(fs) => {
            let mut m = Map::new();
            for ((name, t), x) in fs.iter().zip(xs) {
                m.insert(name.clone(), render_mut(t, x, k, u, ap));
            }
            Value::Object(m)
        }
        Fields::Unnamed(fs) => Value::Array(fs.iter().zip(xs).map(|(t, x)| render_mut(t, x, k, u, ap)).collect()),
        Fields::None => Value::Array(vec![]),
    }
}

/// Render `v` normally, except that the `k`-th mutable node (pre-order) is replaced by a violation.
pub fn render_mut(ty: &Type, v: &Val, k: &mut isize, u: &mut Unstructured, ap: &mut Option<Applied>) -> Value {
    if has_mutation(ty) {
        if *k == 0 {
            *k -= 1;
            let (j, a) = mutate_node(ty, v, u);
            *ap = Some(a);
            return j;
        }
        *k -= 1;
    }
    if *k < 0 {
        return norm(ty, v);
    }
    match (ty, v) {
        (Type::Pair(a, b), Val::Pair(x, y)) => {
            let l = render_mut(a, x, k, u, ap);
            let r = render_mut(b, y, k, u, ap);
            Value::Array(vec![l, r])
        }
        (Type::List(_, t) | Type::Set(_, t) | Type::Array(_, t), Val::Seq(xs)) => Value::Array(xs.iter().map(|x| render_mut(t, x, k, u, ap)).collect()),
        (Type::Map(_, kt, vt), Val::Map(xs)) => Value::Array(
            xs.iter()
                .map(|(a, b)| {
                    let l = render_mut(kt, a, k, u, ap);
                    let r = render_mut(vt, b, k, u, ap);
                    Value::Array(vec![l, r])
                })
                .collect(),
        ),
        (Type::Struct(f), Val::Fields(xs)) => fields_mut(f, xs, k, u, ap),
        (Type::Enum(vs), Val::Variant(i, xs)) => {
            let (name, f) = &vs[*i as usize];
            let mut m = Map::new();
            m.insert(name.clone(), fields_mut(f, xs, k, u, ap));
            Value::Object(m)
        }
        (Type::TaggedEnum(vs), Val::Variant(t, xs)) => {
            let (name, f) = &vs[&(*t as u8)];
            let mut m = Map::new();
            m.insert(name.clone(), fields_mut(f, xs, k, u, ap));
            Value::Object(m)
        }
        _ => norm(ty, v),
    }
}

fn fresh_name(taken: &mut dyn Iterator<Item = &String>) -> String {
    let names: Vec<&String> = taken.collect();
    let mut n = "zz_unknown".to_string();
    while names.iter().any(|x| **x == n) {
        n.push('_');
    }
    n
}

fn ok(kind: &'static str, at: &'static str, j: Value) -> (Value, Applied) { (j, Applied { kind, at }) }

fn wrong_type(ty: &Type, u: &mut Unstructured) -> Value {
    // JSON types by what the node expects
    let expects_number = matches!(ty, Type::U8 | Type::U16 | Type::U32 | Type::U64 | Type::I8 | Type::I16 | Type::I32 | Type::I64);
    let expects_string = matches!(
        ty,
        Type::U128
            | Type::I128
            | Type::Amount
            | Type::AccountAddress
            | Type::Timestamp
            | Type::Duration
            | Type::String(_)
            | Type::ULeb128(_)
            | Type::ILeb128(_)
            | Type::ByteList(_)
            | Type::ByteArray(_)
    );
    let expects_array =
        matches!(ty, Type::Pair(..) | Type::List(..) | Type::Set(..) | Type::Map(..) | Type::Array(..) | Type::Struct(Fields::Unnamed(_)));
    let expects_bool = matches!(ty, Type::Bool);
    let mut cands: Vec<Value> = vec![Value::Null];
    if !expects_bool {
        cands.push(json!(true));
    }
    if !expects_number {
        cands.push(json!(0));
        cands.push(json!(7));
    }
    if !expects_string {
        cands.push(json!("0"));
        cands.push(json!(""));
    }
    if !expects_array {
        cands.push(json!([]));
    }
    if expects_number || expects_string || expects_array || expects_bool {
        cands.push(json!({}));
    }
    cands.swap_remove(gen::idx(u, cands.len()))
}

fn repeat_json(j: Value, n: usize) -> Value { Value::Array(vec![j; n]) }

/// The over-long collection for a size length, if it can be built cheaply.
fn too_long_count(sl: SizeLength, elem_cheap: bool) -> Option<usize> {
    match sl {
        SizeLength::U8 => Some(256),
        SizeLength::U16 if elem_cheap => Some(65536),
        _ => None,
    }
}

fn cheap(t: &Type) -> bool { matches!(t, Type::Unit | Type::Bool | Type::U8 | Type::U16 | Type::I8 | Type::Struct(Fields::None)) }

fn mutate_node(ty: &Type, v: &Val, u: &mut Unstructured) -> (Value, Applied) {
    let at = ctor_name(ty);
    // One time in eight: the wrong JSON type altogether.
    if gen::ratio(u, 1, 8) {
        return ok("wrong-json-type", at, wrong_type(ty, u));
    }
    let num = |x: i128| -> Value {
        if x >= 0 {
            Value::Number(Number::from(x as u64))
        } else {
            Value::Number(Number::from(x as i64))
        }
    };
    match (ty, v) {
        (Type::Bool, _) => ok("wrong-json-type", at, if gen::boolean(u) { json!(1) } else { json!("true") }),
        (Type::U8 | Type::U16 | Type::U32 | Type::U64, _) => {
            let bits = match ty {
                Type::U8 => 8,
                Type::U16 => 16,
                Type::U32 => 32,
                _ => 64,
            };
            match gen::idx(u, 4) {
                0 if bits < 64 => ok("out-of-range", at, num(1i128 << bits)),
                1 if bits < 64 => ok("out-of-range", at, num(u64::MAX as i128)),
                2 => ok("out-of-range", at, num(-1)),
                _ => ok("not-an-integer", at, json!(1.5)),
            }
        }
        (Type::I8 | Type::I16 | Type::I32 | Type::I64, _) => {
            let bits = match ty {
                Type::I8 => 8,
                Type::I16 => 16,
                Type::I32 => 32,
                _ => 64,
            };
            match gen::idx(u, 4) {
                0 if bits < 64 => ok("out-of-range", at, num(1i128 << (bits - 1))),
                1 if bits < 64 => ok("out-of-range", at, num(-(1i128 << (bits - 1)) - 1)),
                2 => ok("out-of-range", at, num(i64::MAX as i128 + 1)),
                _ => ok("not-an-integer", at, json!(-0.5)),
            }
        }
        (Type::U128, _) => match gen::idx(u, 5) {
            0 => ok("out-of-range", at, json!("340282366920938463463374607431768211456")),
            1 => ok("out-of-range", at, json!("-1")),
            2 => ok("bad-number-syntax", at, json!("12x")),
            3 => ok("bad-number-syntax", at, json!("1.0")),
            _ => ok("bad-number-syntax", at, json!(" 5")),
        },
        (Type::I128, _) => match gen::idx(u, 4) {
            0 => ok("out-of-range", at, json!("170141183460469231731687303715884105728")),
            1 => ok("out-of-range", at, json!("-170141183460469231731687303715884105729")),
            2 => ok("bad-number-syntax", at, json!("abc")),
            _ => ok("bad-number-syntax", at, json!("")),
        },
        (Type::Amount, _) => match gen::idx(u, 5) {
            0 => ok("out-of-range", at, json!("18446744073709551616")),
            1 => ok("out-of-range", at, json!("-1")),
            2 => ok("bad-number-syntax", at, json!("1.5")),
            3 => ok("bad-number-syntax", at, json!("")),
            _ => ok("wrong-json-type", at, json!(5)),
        },
        (Type::AccountAddress, Val::Account(a)) => {
            let good = account_string(a, 1);
            match gen::idx(u, 5) {
                0 => ok("bad-address", at, json!(good[1..].to_string())),
                1 => {
                    let mut cs: Vec<char> = good.chars().collect();
                    let i = gen::idx(u, cs.len());
                    cs[i] = if cs[i] == '2' { '3' } else { '2' };
                    ok("bad-address", at, json!(cs.into_iter().collect::<String>()))
                }
                2 => ok("bad-address", at, json!(account_string(a, 2))),
                3 => ok("bad-address", at, json!(format!("{}0", &good[..good.len() - 1]))),
                _ => ok("bad-address", at, json!("")),
            }
        }
        (Type::ContractAddress, Val::Contract(i, s)) => match gen::idx(u, 10) {
            0 => ok("missing-field", at, json!({})),
            1 => ok("missing-field", at, json!({ "subindex": s })),
            2 => ok("wrong-json-type", at, json!({"index": i.to_string(), "subindex": s})),
            3 => ok("out-of-range", at, json!({"index": -1, "subindex": s})),
            4 => ok("extra-field", at, json!({"index": i, "subindex": s, "zz_unknown": 0})),
            5 => ok("not-an-integer", at, json!({"index": 1.5})),
            6 => ok("subindex-wrong-type", at, json!({"index": i, "subindex": s.to_string()})),
            7 => ok("subindex-negative", at, json!({"index": i, "subindex": -1})),
            8 => ok("unknown-field", at, json!({"index": i, "zz_unknown": 0})),
            _ => ok("missing-field", at, json!({"Index": i, "subindex": s})),
        },
        (Type::Timestamp, _) => {
            let c = ["yesterday", "1969-12-31T23:59:59Z", "2020-13-01T00:00:00Z", "-5", "2020-01-01", "18446744073709551616", "2020-01-01T00:00:00", "1.5"];
            ok("bad-timestamp", at, json!(c[gen::idx(u, c.len())]))
        }
        (Type::Duration, _) => {
            let c = ["10", "10x", "-5s", "5 s", "s", "1.5s", "1d 2", "5S"];
            ok("bad-duration", at, json!(c[gen::idx(u, c.len())]))
        }
        (Type::Pair(a, _), Val::Pair(x, _)) => {
            let e = norm(a, x);
            let full = norm(ty, v);
            match gen::idx(u, 3) {
                0 => ok("bad-length", at, json!([e])),
                1 => {
                    let Value::Array(mut xs) = full else { unreachable!() };
                    xs.push(e);
                    ok("bad-length", at, Value::Array(xs))
                }
                _ => ok("bad-length", at, json!([])),
            }
        }
        (Type::List(sl, t) | Type::Set(sl, t), Val::Seq(_)) => match too_long_count(*sl, cheap(t)) {
            Some(n) => ok("too-long", at, repeat_json(norm(t, &default_val(t)), n)),
            None => ok("wrong-json-type", at, json!({})),
        },
        (Type::Map(sl, kt, vt), Val::Map(xs)) => {
            let dk = norm(kt, &default_val(kt));
            let dv = norm(vt, &default_val(vt));
            let Value::Array(mut entries) = norm(ty, v) else { unreachable!() };
            let pos = if xs.is_empty() { 0 } else { gen::idx(u, xs.len()) };
            let bad = match gen::idx(u, 4) {
                0 => Some(json!([dk])),
                1 => Some(json!([dk, dv, dv])),
                2 => Some(json!({"key": dk, "value": dv})),
                _ => None,
            };
            match (bad, too_long_count(*sl, cheap(kt) && cheap(vt))) {
                (None, Some(n)) => ok("too-long", at, repeat_json(json!([dk, dv]), n)),
                (bad, _) => {
                    let bad = bad.unwrap_or(json!([]));
                    if entries.is_empty() {
                        entries.push(bad);
                    } else {
                        entries[pos] = bad;
                    }
                    ok("bad-map-entry", at, Value::Array(entries))
                }
            }
        }
        (Type::Array(n, t), Val::Seq(_)) => {
            let Value::Array(mut xs) = norm(ty, v) else { unreachable!() };
            if *n > 0 && gen::boolean(u) {
                xs.pop();
            } else {
                xs.push(norm(t, &default_val(t)));
            }
            ok("bad-length", at, Value::Array(xs))
        }
        (Type::Struct(Fields::Named(fs)), _) => {
            let Value::Object(mut m) = norm(ty, v) else { unreachable!() };
            let extra = fresh_name(&mut fs.iter().map(|x| &x.0));
            match gen::idx(u, 3) {
                0 if !fs.is_empty() => {
                    let name = &fs[gen::idx(u, fs.len())].0;
                    m.remove(name);
                    ok("missing-field", at, Value::Object(m))
                }
                1 if !fs.is_empty() => {
                    let name = &fs[gen::idx(u, fs.len())].0;
                    let x = m.remove(name).unwrap();
                    m.insert(extra, x);
                    ok("misnamed-field", at, Value::Object(m))
                }
                _ => {
                    m.insert(extra, Value::Null);
                    ok("extra-field", at, Value::Object(m))
                }
            }
        }
        (Type::Struct(Fields::Unnamed(fs)), _) => {
            let Value::Array(mut xs) = norm(ty, v) else { unreachable!() };
            if !fs.is_empty() && gen::boolean(u) {
                xs.pop();
                ok("missing-field", at, Value::Array(xs))
            } else {
                xs.push(Value::Null);
                ok("extra-field", at, Value::Array(xs))
            }
        }
        (Type::Enum(_) | Type::TaggedEnum(_), _) => {
            let Value::Object(mut m) = norm(ty, v) else { unreachable!() };
            let unknown = match ty {
                Type::Enum(vs) => fresh_name(&mut vs.iter().map(|x| &x.0)),
                Type::TaggedEnum(vs) => fresh_name(&mut vs.values().map(|x| &x.0)),
                _ => unreachable!(),
            };
            match gen::idx(u, 3) {
                0 => {
                    let payload = m.into_iter().next().map(|x| x.1).unwrap_or(json!([]));
                    let mut m2 = Map::new();
                    m2.insert(unknown, payload);
                    ok("wrong-variant", at, Value::Object(m2))
                }
                1 => {
                    m.insert(unknown, json!([]));
                    ok("two-variants", at, Value::Object(m))
                }
                _ => ok("no-variant", at, json!({})),
            }
        }
        (Type::String(sl), _) => match sl {
            SizeLength::U8 => ok("too-long", at, json!("s".repeat(256))),
            SizeLength::U16 => ok("too-long", at, json!("ö".repeat(32768))),
            _ => ok("wrong-json-type", at, json!(["s"])),
        },
        (Type::ContractName(sl), Val::CName(n)) => match gen::idx(u, 9) {
            0 => ok("missing-field", at, json!({})),
            1 => ok("wrong-json-type", at, json!({"contract": 5})),
            2 => ok("extra-field", at, json!({"contract": n, "zz_unknown": 1})),
            3 => ok("missing-field", at, json!({ "name": n })),
            4 if *sl == SizeLength::U8 => ok("too-long", at, json!({"contract": "c".repeat(251)})),
            5 => ok("name-with-dot", at, json!({"contract": format!("{n}.x")})),
            6 => ok("name-non-ascii", at, json!({"contract": format!("{n}é")})),
            7 => ok("name-over-100-bytes", at, json!({"contract": "c".repeat(96)})),
            _ => ok("name-with-space", at, json!({"contract": "a b"})),
        },
        (Type::ReceiveName(sl), Val::RName(c, f)) => match gen::idx(u, 9) {
            0 => ok("missing-field", at, json!({ "contract": c })),
            1 => ok("missing-field", at, json!({ "func": f })),
            2 => ok("extra-field", at, json!({"contract": c, "func": f, "zz_unknown": 1})),
            3 => ok("wrong-json-type", at, json!({"contract": c, "func": 1})),
            4 => ok("wrong-json-type", at, json!({"contract": null, "func": f})),
            5 if *sl == SizeLength::U8 => ok("too-long", at, json!({"contract": "c".repeat(200), "func": "f".repeat(55)})),
            6 => ok("name-with-space", at, json!({"contract": c, "func": format!("{f} x")})),
            7 => ok("name-non-ascii", at, json!({"contract": format!("{c}ü"), "func": f})),
            _ => ok("name-over-100-bytes", at, json!({"contract": "c".repeat(60), "func": "f".repeat(40)})),
        },
        (Type::ULeb128(c), _) => match gen::idx(u, 4) {
            0 | 1 => {
                let x: BigInt = if gen::boolean(u) { pow2(7 * *c) } else { pow2(7 * *c + 3) + 5 };
                debug_assert!(uleb_groups(&x) > *c);
                ok("leb-constraint-exceeded", at, json!(x.to_string()))
            }
            2 => ok("out-of-range", at, json!("-1")),
            _ => ok("bad-number-syntax", at, json!("12x")),
        },
        (Type::ILeb128(c), _) => match gen::idx(u, 4) {
            0 => {
                let x = pow2(7 * *c - 1);
                debug_assert!(ileb_groups(&x) > *c);
                ok("leb-constraint-exceeded", at, json!(x.to_string()))
            }
            1 => {
                let x = -pow2(7 * *c - 1) - 1;
                debug_assert!(ileb_groups(&x) > *c);
                ok("leb-constraint-exceeded", at, json!(x.to_string()))
            }
            2 => ok("bad-number-syntax", at, json!("")),
            _ => ok("bad-number-syntax", at, json!("0x10")),
        },
        (Type::ByteList(sl), Val::Bytes(b)) => match gen::idx(u, 4) {
            0 => ok("bad-hex", at, json!(format!("{}a", hex_lower(b)))),
            1 => ok("bad-hex", at, json!(format!("{}zz", hex_lower(b)))),
            _ => match sl {
                SizeLength::U8 => ok("too-long", at, json!("ab".repeat(256))),
                SizeLength::U16 => ok("too-long", at, json!("00".repeat(65536))),
                _ => ok("bad-hex", at, json!("0x")),
            },
        },
        (Type::ByteArray(n), Val::Bytes(b)) => match gen::idx(u, 4) {
            0 => ok("bad-hex", at, json!(format!("{}a", hex_lower(b)))),
            1 if *n > 0 => ok("bad-length", at, json!(hex_lower(&b[1..]))),
            2 => ok("bad-hex", at, json!(format!("{}zz", hex_lower(b)))),
            _ => ok("bad-length", at, json!(format!("{}00", hex_lower(b)))),
        },
        (t, v) => panic!("harness bug: no mutation for {t:?} / {v:?}"),
    }
}
