//! Independent transcription of the binary format of schemas (types, fields, functions,
//! contracts, modules, versioned modules): an encoder and a prefix parser that also reports the
//! nesting depth of the types it read. Plus generators of module schemas.
use crate::model::*;
use concordium_contracts_common::schema::*;
use std::collections::BTreeMap;
use vcore::{gen, Unstructured};

// ---------------------------------------------------------------------------------- encoder

fn e_u32(x: u32, o: &mut Vec<u8>) { o.extend_from_slice(&x.to_le_bytes()) }

fn e_str(s: &str, o: &mut Vec<u8>) {
    e_u32(s.len() as u32, o);
    o.extend_from_slice(s.as_bytes());
}

fn e_sl(sl: SizeLength, o: &mut Vec<u8>) {
    o.push(match sl {
        SizeLength::U8 => 0,
        SizeLength::U16 => 1,
        SizeLength::U32 => 2,
        SizeLength::U64 => 3,
    })
}

pub fn e_fields(f: &Fields, o: &mut Vec<u8>) {
    match f {
        Fields::Named(fs) => {
            o.push(0);
            e_u32(fs.len() as u32, o);
            for (n, t) in fs {
                e_str(n, o);
                e_type(t, o);
            }
        }
        Fields::Unnamed(fs) => {
            o.push(1);
            e_u32(fs.len() as u32, o);
            for t in fs {
                e_type(t, o);
            }
        }
        Fields::None => o.push(2),
    }
}

pub fn e_type(t: &Type, o: &mut Vec<u8>) {
    match t {
        Type::Unit => o.push(0),
        Type::Bool => o.push(1),
        Type::U8 => o.push(2),
        Type::U16 => o.push(3),
        Type::U32 => o.push(4),
        Type::U64 => o.push(5),
        Type::I8 => o.push(6),
        Type::I16 => o.push(7),
        Type::I32 => o.push(8),
        Type::I64 => o.push(9),
        Type::Amount => o.push(10),
        Type::AccountAddress => o.push(11),
        Type::ContractAddress => o.push(12),
        Type::Timestamp => o.push(13),
        Type::Duration => o.push(14),
        Type::Pair(a, b) => {
            o.push(15);
            e_type(a, o);
            e_type(b, o);
        }
        Type::List(sl, t) => {
            o.push(16);
            e_sl(*sl, o);
            e_type(t, o);
        }
        Type::Set(sl, t) => {
            o.push(17);
            e_sl(*sl, o);
            e_type(t, o);
        }
        Type::Map(sl, k, v) => {
            o.push(18);
            e_sl(*sl, o);
            e_type(k, o);
            e_type(v, o);
        }
        Type::Array(n, t) => {
            o.push(19);
            e_u32(*n, o);
            e_type(t, o);
        }
        Type::Struct(f) => {
            o.push(20);
            e_fields(f, o);
        }
        Type::Enum(vs) => {
            o.push(21);
            e_u32(vs.len() as u32, o);
            for (n, f) in vs {
                e_str(n, o);
                e_fields(f, o);
            }
        }
        Type::String(sl) => {
            o.push(22);
            e_sl(*sl, o);
        }
        Type::U128 => o.push(23),
        Type::I128 => o.push(24),
        Type::ContractName(sl) => {
            o.push(25);
            e_sl(*sl, o);
        }
        Type::ReceiveName(sl) => {
            o.push(26);
            e_sl(*sl, o);
        }
        Type::ULeb128(c) => {
            o.push(27);
            e_u32(*c, o);
        }
        Type::ILeb128(c) => {
            o.push(28);
            e_u32(*c, o);
        }
        Type::ByteList(sl) => {
            o.push(29);
            e_sl(*sl, o);
        }
        Type::ByteArray(n) => {
            o.push(30);
            e_u32(*n, o);
        }
        Type::TaggedEnum(vs) => {
            o.push(31);
            e_u32(vs.len() as u32, o);
            for (tag, (n, f)) in vs {
                o.push(*tag);
                e_str(n, o);
                e_fields(f, o);
            }
        }
    }
}

fn e_opt<T>(x: &Option<T>, o: &mut Vec<u8>, f: impl Fn(&T, &mut Vec<u8>)) {
    match x {
        None => o.push(0),
        Some(v) => {
            o.push(1);
            f(v, o)
        }
    }
}

fn e_map<T>(m: &BTreeMap<String, T>, o: &mut Vec<u8>, f: impl Fn(&T, &mut Vec<u8>)) {
    e_u32(m.len() as u32, o);
    for (k, v) in m {
        e_str(k, o);
        f(v, o);
    }
}

pub fn e_fn1(x: &FunctionV1, o: &mut Vec<u8>) {
    match x {
        FunctionV1::Parameter(p) => {
            o.push(0);
            e_type(p, o)
        }
        FunctionV1::ReturnValue(r) => {
            o.push(1);
            e_type(r, o)
        }
        FunctionV1::Both { parameter, return_value } => {
            o.push(2);
            e_type(parameter, o);
            e_type(return_value, o)
        }
    }
}

pub fn e_fn2(x: &FunctionV2, o: &mut Vec<u8>) {
    // tag: which of (parameter, return value, error) are present
    let tag = match (x.parameter.is_some(), x.return_value.is_some(), x.error.is_some()) {
        (true, false, false) => 0,
        (false, true, false) => 1,
        (true, true, false) => 2,
        (false, false, true) => 3,
        (true, false, true) => 4,
        (false, true, true) => 5,
        (true, true, true) => 6,
        (false, false, false) => 7,
    };
    o.push(tag);
    for t in [&x.parameter, &x.return_value, &x.error].into_iter().flatten() {
        e_type(t, o);
    }
}

pub fn e_c0(c: &ContractV0, o: &mut Vec<u8>) {
    e_opt(&c.state, o, e_type);
    e_opt(&c.init, o, e_type);
    e_map(&c.receive, o, e_type);
}
pub fn e_c1(c: &ContractV1, o: &mut Vec<u8>) {
    e_opt(&c.init, o, e_fn1);
    e_map(&c.receive, o, e_fn1);
}
pub fn e_c2(c: &ContractV2, o: &mut Vec<u8>) {
    e_opt(&c.init, o, e_fn2);
    e_map(&c.receive, o, e_fn2);
}
pub fn e_c3(c: &ContractV3, o: &mut Vec<u8>) {
    e_opt(&c.init, o, e_fn2);
    e_map(&c.receive, o, e_fn2);
    e_opt(&c.event, o, e_type);
}

#[derive(Debug, Clone, PartialEq, Eq)]
pub enum Module {
    V0(ModuleV0),
    V1(ModuleV1),
    V2(ModuleV2),
    V3(ModuleV3),
}

impl Module {
    pub fn version(&self) -> u8 {
        match self {
            Module::V0(_) => 0,
            Module::V1(_) => 1,
            Module::V2(_) => 2,
            Module::V3(_) => 3,
        }
    }

    pub fn versioned(&self) -> VersionedModuleSchema {
        match self.clone() {
            Module::V0(m) => VersionedModuleSchema::V0(m),
            Module::V1(m) => VersionedModuleSchema::V1(m),
            Module::V2(m) => VersionedModuleSchema::V2(m),
            Module::V3(m) => VersionedModuleSchema::V3(m),
        }
    }

    pub fn of(v: &VersionedModuleSchema) -> Module {
        match v.clone() {
            VersionedModuleSchema::V0(m) => Module::V0(m),
            VersionedModuleSchema::V1(m) => Module::V1(m),
            VersionedModuleSchema::V2(m) => Module::V2(m),
            VersionedModuleSchema::V3(m) => Module::V3(m),
        }
    }
}

/// Unversioned encoding.
pub fn e_module(m: &Module, o: &mut Vec<u8>) {
    match m {
        Module::V0(m) => e_map(&m.contracts, o, e_c0),
        Module::V1(m) => e_map(&m.contracts, o, e_c1),
        Module::V2(m) => e_map(&m.contracts, o, e_c2),
        Module::V3(m) => e_map(&m.contracts, o, e_c3),
    }
}

pub fn e_versioned(m: &Module, o: &mut Vec<u8>) {
    o.extend_from_slice(&[0xff, 0xff, m.version()]);
    e_module(m, o);
}

/// Standard base64 alphabet, no padding.
pub fn base64_nopad(data: &[u8]) -> String {
    const A: &[u8; 64] = b"ABCDEFGHIJKLMNOPQRSTUVWXYZabcdefghijklmnopqrstuvwxyz0123456789+/";
    let mut s = String::with_capacity(data.len() * 4 / 3 + 3);
    for ch in data.chunks(3) {
        let b = [ch[0], *ch.get(1).unwrap_or(&0), *ch.get(2).unwrap_or(&0)];
        let n = (b[0] as u32) << 16 | (b[1] as u32) << 8 | b[2] as u32;
        s.push(A[(n >> 18) as usize & 63] as char);
        s.push(A[(n >> 12) as usize & 63] as char);
        if ch.len() > 1 {
            s.push(A[(n >> 6) as usize & 63] as char);
        }
        if ch.len() > 2 {
            s.push(A[n as usize & 63] as char);
        }
    }
    s
}

// ----------------------------------------------------------------------------------- parser

pub struct P<'a> {
    pub data:      &'a [u8],
    pub pos:       usize,
    /// Deepest nesting of type constructors seen (a leaf type has depth 1).
    pub max_depth: usize,
    /// Total number of type nodes / entries parsed (to bound work).
    pub nodes:     usize,
}

pub type R<T> = Result<T, ()>;

impl<'a> P<'a> {
    pub fn new(data: &'a [u8]) -> Self { P { data, pos: 0, max_depth: 0, nodes: 0 } }

    fn u8(&mut self) -> R<u8> {
        let b = *self.data.get(self.pos).ok_or(())?;
        self.pos += 1;
        Ok(b)
    }

    fn u32(&mut self) -> R<u32> {
        if self.data.len() - self.pos < 4 {
            return Err(());
        }
        let v = u32::from_le_bytes(self.data[self.pos..self.pos + 4].try_into().unwrap());
        self.pos += 4;
        Ok(v)
    }

    fn str(&mut self) -> R<String> {
        let n = self.u32()? as usize;
        if self.data.len() - self.pos < n {
            return Err(());
        }
        let s = std::str::from_utf8(&self.data[self.pos..self.pos + n]).map_err(|_| ())?.to_string();
        self.pos += n;
        Ok(s)
    }

    fn sl(&mut self) -> R<SizeLength> {
        Ok(match self.u8()? {
            0 => SizeLength::U8,
            1 => SizeLength::U16,
            2 => SizeLength::U32,
            3 => SizeLength::U64,
            _ => return Err(()),
        })
    }

    pub fn fields(&mut self, d: usize) -> R<Fields> {
        Ok(match self.u8()? {
            0 => {
                let n = self.u32()?;
                let mut v = Vec::new();
                for _ in 0..n {
                    let name = self.str()?;
                    v.push((name, self.ty(d)?));
                }
                Fields::Named(v)
            }
            1 => {
                let n = self.u32()?;
                let mut v = Vec::new();
                for _ in 0..n {
                    v.push(self.ty(d)?);
                }
                Fields::Unnamed(v)
            }
            2 => Fields::None,
            _ => return Err(()),
        })
    }

    /// Parse a type whose own depth is `d`.
    pub fn ty(&mut self, d: usize) -> R<Type> {
        self.max_depth = self.max_depth.max(d);
        self.nodes += 1;
        let b = |t: Type| Box::new(t);
        Ok(match self.u8()? {
            0 => Type::Unit,
            1 => Type::Bool,
            2 => Type::U8,
            3 => Type::U16,
            4 => Type::U32,
            5 => Type::U64,
            6 => Type::I8,
            7 => Type::I16,
            8 => Type::I32,
            9 => Type::I64,
            10 => Type::Amount,
            11 => Type::AccountAddress,
            12 => Type::ContractAddress,
            13 => Type::Timestamp,
            14 => Type::Duration,
            15 => {
                let l = self.ty(d + 1)?;
                let r = self.ty(d + 1)?;
                Type::Pair(b(l), b(r))
            }
            16 => {
                let s = self.sl()?;
                Type::List(s, b(self.ty(d + 1)?))
            }
            17 => {
                let s = self.sl()?;
                Type::Set(s, b(self.ty(d + 1)?))
            }
            18 => {
                let s = self.sl()?;
                let k = self.ty(d + 1)?;
                let v = self.ty(d + 1)?;
                Type::Map(s, b(k), b(v))
            }
            19 => {
                let n = self.u32()?;
                Type::Array(n, b(self.ty(d + 1)?))
            }
            20 => Type::Struct(self.fields(d + 1)?),
            21 => {
                let n = self.u32()?;
                let mut v = Vec::new();
                for _ in 0..n {
                    let name = self.str()?;
                    v.push((name, self.fields(d + 1)?));
                }
                Type::Enum(v)
            }
            22 => Type::String(self.sl()?),
            23 => Type::U128,
            24 => Type::I128,
            25 => Type::ContractName(self.sl()?),
            26 => Type::ReceiveName(self.sl()?),
            27 => Type::ULeb128(self.u32()?),
            28 => Type::ILeb128(self.u32()?),
            29 => Type::ByteList(self.sl()?),
            30 => Type::ByteArray(self.u32()?),
            31 => {
                let n = self.u32()?;
                let mut m = BTreeMap::new();
                for _ in 0..n {
                    let tag = self.u8()?;
                    let name = self.str()?;
                    let f = self.fields(d + 1)?;
                    if m.insert(tag, (name, f)).is_some() {
                        return Err(());
                    }
                }
                Type::TaggedEnum(m)
            }
            _ => return Err(()),
        })
    }

    fn opt<T>(&mut self, f: impl Fn(&mut Self) -> R<T>) -> R<Option<T>> {
        Ok(match self.u8()? {
            0 => None,
            1 => Some(f(self)?),
            _ => return Err(()),
        })
    }

    fn map<T>(&mut self, f: impl Fn(&mut Self) -> R<T>) -> R<BTreeMap<String, T>> {
        let n = self.u32()?;
        let mut m = BTreeMap::new();
        for _ in 0..n {
            self.nodes += 1;
            let k = self.str()?;
            let v = f(self)?;
            if m.insert(k, v).is_some() {
                return Err(());
            }
        }
        Ok(m)
    }

    pub fn fn1(&mut self) -> R<FunctionV1> {
        Ok(match self.u8()? {
            0 => FunctionV1::Parameter(self.ty(1)?),
            1 => FunctionV1::ReturnValue(self.ty(1)?),
            2 => {
                let parameter = self.ty(1)?;
                let return_value = self.ty(1)?;
                FunctionV1::Both { parameter, return_value }
            }
            _ => return Err(()),
        })
    }

    pub fn fn2(&mut self) -> R<FunctionV2> {
        let tag = self.u8()?;
        if tag > 7 {
            return Err(());
        }
        let (p, r, e) = match tag {
            0 => (true, false, false),
            1 => (false, true, false),
            2 => (true, true, false),
            3 => (false, false, true),
            4 => (true, false, true),
            5 => (false, true, true),
            6 => (true, true, true),
            _ => (false, false, false),
        };
        let parameter = if p { Some(self.ty(1)?) } else { None };
        let return_value = if r { Some(self.ty(1)?) } else { None };
        let error = if e { Some(self.ty(1)?) } else { None };
        Ok(FunctionV2 { parameter, return_value, error })
    }

    pub fn c0(&mut self) -> R<ContractV0> {
        let state = self.opt(|p| p.ty(1))?;
        let init = self.opt(|p| p.ty(1))?;
        let receive = self.map(|p| p.ty(1))?;
        Ok(ContractV0 { state, init, receive })
    }
    pub fn c1(&mut self) -> R<ContractV1> {
        let init = self.opt(|p| p.fn1())?;
        let receive = self.map(|p| p.fn1())?;
        Ok(ContractV1 { init, receive })
    }
    pub fn c2(&mut self) -> R<ContractV2> {
        let init = self.opt(|p| p.fn2())?;
        let receive = self.map(|p| p.fn2())?;
        Ok(ContractV2 { init, receive })
    }
    pub fn c3(&mut self) -> R<ContractV3> {
        let init = self.opt(|p| p.fn2())?;
        let receive = self.map(|p| p.fn2())?;
        let event = self.opt(|p| p.ty(1))?;
        Ok(ContractV3 { init, receive, event })
    }

    pub fn module(&mut self, version: u8) -> R<Module> {
        Ok(match version {
            0 => Module::V0(ModuleV0 { contracts: self.map(|p| p.c0())? }),
            1 => Module::V1(ModuleV1 { contracts: self.map(|p| p.c1())? }),
            2 => Module::V2(ModuleV2 { contracts: self.map(|p| p.c2())? }),
            3 => Module::V3(ModuleV3 { contracts: self.map(|p| p.c3())? }),
            _ => return Err(()),
        })
    }

    pub fn versioned(&mut self) -> R<Module> {
        if self.u8()? != 0xff || self.u8()? != 0xff {
            return Err(());
        }
        let v = self.u8()?;
        self.module(v)
    }
}

// ------------------------------------------------------------------------------- generators

fn gen_key(u: &mut Unstructured, i: usize) -> String {
    match gen::idx(u, 6) {
        0 => format!("c{i}"),
        1 => "".to_string(),
        2 => "init_contract".to_string(),
        3 => "é漢😀".to_string(),
        4 => "contract.receive".to_string(),
        _ => {
            let n = gen::range_usize(u, 0, 12);
            gen_string_of_len(u, n)
        }
    }
}

pub fn gen_schema_type(u: &mut Unstructured) -> Type {
    let mut g = TypeGen { opts: TypeOpts { hostile: true }, budget: 60, dup_names: false, uninhabited: false, force_composite: false };
    gen_type(u, &mut g)
}

fn gen_opt_type(u: &mut Unstructured) -> Option<Type> {
    if gen::boolean(u) {
        Some(gen_schema_type(u))
    } else {
        None
    }
}

pub fn gen_fn1(u: &mut Unstructured) -> FunctionV1 {
    match gen::idx(u, 3) {
        0 => FunctionV1::Parameter(gen_schema_type(u)),
        1 => FunctionV1::ReturnValue(gen_schema_type(u)),
        _ => FunctionV1::Both { parameter: gen_schema_type(u), return_value: gen_schema_type(u) },
    }
}

pub fn gen_fn2(u: &mut Unstructured) -> FunctionV2 {
    let parameter = gen_opt_type(u);
    let return_value = gen_opt_type(u);
    let error = gen_opt_type(u);
    FunctionV2 { parameter, return_value, error }
}

fn gen_map<T>(u: &mut Unstructured, max: usize, mut f: impl FnMut(&mut Unstructured) -> T) -> BTreeMap<String, T> {
    let n = gen::range_usize(u, 0, max);
    let mut m = BTreeMap::new();
    for i in 0..n {
        let k = gen_key(u, i);
        let v = f(u);
        m.insert(k, v);
    }
    m
}

fn gen_opt<T>(u: &mut Unstructured, f: impl FnOnce(&mut Unstructured) -> T) -> Option<T> {
    if gen::boolean(u) {
        Some(f(u))
    } else {
        None
    }
}

pub fn gen_module(u: &mut Unstructured, version: u8) -> Module {
    match version {
        0 => Module::V0(ModuleV0 {
            contracts: gen_map(u, 3, |u| ContractV0 { state: gen_opt_type(u), init: gen_opt_type(u), receive: gen_map(u, 3, gen_schema_type) }),
        }),
        1 => Module::V1(ModuleV1 { contracts: gen_map(u, 3, |u| ContractV1 { init: gen_opt(u, gen_fn1), receive: gen_map(u, 3, gen_fn1) }) }),
        2 => Module::V2(ModuleV2 { contracts: gen_map(u, 3, |u| ContractV2 { init: gen_opt(u, gen_fn2), receive: gen_map(u, 3, gen_fn2) }) }),
        _ => Module::V3(ModuleV3 {
            contracts: gen_map(u, 3, |u| ContractV3 { init: gen_opt(u, gen_fn2), receive: gen_map(u, 3, gen_fn2), event: gen_opt_type(u) }),
        }),
    }
}
