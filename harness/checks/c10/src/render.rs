//! Independent renderer Val -> JSON following the documented conventions of the schema JSON
//! format, and a matcher that compares the JSON produced by `Type::to_json` with the model value.
//!
//! Conventions (from the docs of `schema::Type`, `to_json_template`, the `FromStr`/`Display` docs of
//! `Timestamp`, `Duration`, `AccountAddress`, and the error messages of the JSON reader):
//!  * Unit: `null` is produced; `[]` (the template) is accepted as well. No-field variants: `[]`.
//!  * Bool: JSON bool. U8..U64 / I8..I64: JSON numbers. U128/I128/ULeb128/ILeb128: decimal strings.
//!  * Amount: decimal string of micro CCD.
//!  * AccountAddress: base58check string with version byte 1.
//!  * ContractAddress: `{"index": n, "subindex": m}`; `subindex` optional on input (default 0).
//!  * Timestamp: RFC3339 string or decimal milliseconds on input; RFC3339 in UTC on output, decimal
//!    milliseconds if the instant is not representable as a date.
//!  * Duration: whitespace separated measures `<n>(ms|s|m|h|d)` that are summed.
//!  * Pair: `[a, b]`; List/Set/Array: `[..]`; Map: `[[k, v], ..]`.
//!  * Struct: object (named), array (unnamed), `[]` (none). Enum/TaggedEnum: `{"Variant": fields}`.
//!  * String: string. ContractName: `{"contract": name}` (without `init_`). ReceiveName:
//!    `{"contract": c, "func": f}`. ByteList/ByteArray: lowercase hex string.
use crate::model::*;
use concordium_contracts_common::schema::{Fields, Type};
use serde_json::{Map, Number, Value};
use sha2::{Digest, Sha256};
use vcore::{gen, Unstructured};

const B58: &[u8; 58] = b"123456789ABCDEFGHJKLMNPQRSTUVWXYZabcdefghijkmnopqrstuvwxyz";

pub fn base58(data: &[u8]) -> String {
    let zeros = data.iter().take_while(|b| **b == 0).count();
    let mut num: Vec<u8> = data.to_vec();
    let mut digits: Vec<u8> = Vec::new();
    let mut start = zeros;
    while start < num.len() {
        // divide num[start..] by 58
        let mut rem = 0u32;
        for b in num[start..].iter_mut() {
            let acc = (rem << 8) | *b as u32;
            *b = (acc / 58) as u8;
            rem = acc % 58;
        }
        digits.push(rem as u8);
        while start < num.len() && num[start] == 0 {
            start += 1;
        }
    }
    let mut s = String::with_capacity(zeros + digits.len());
    for _ in 0..zeros {
        s.push('1');
    }
    for d in digits.iter().rev() {
        s.push(B58[*d as usize] as char);
    }
    s
}

pub fn account_string(addr: &[u8; 32], version: u8) -> String {
    let mut payload = Vec::with_capacity(37);
    payload.push(version);
    payload.extend_from_slice(addr);
    let h = Sha256::digest(Sha256::digest(&payload));
    payload.extend_from_slice(&h[..4]);
    base58(&payload)
}

pub fn hex_lower(b: &[u8]) -> String {
    const H: &[u8; 16] = b"0123456789abcdef";
    let mut s = String::with_capacity(b.len() * 2);
    for x in b {
        s.push(H[(x >> 4) as usize] as char);
        s.push(H[(x & 15) as usize] as char);
    }
    s
}

// ---- calendar (proleptic Gregorian, algorithms of H. Hinnant) ----

pub fn civil_from_days(z: i64) -> (i64, u32, u32) {
    let z = z + 719_468;
    let era = z.div_euclid(146_097);
    let doe = z.rem_euclid(146_097);
    let yoe = (doe - doe / 1460 + doe / 36_524 - doe / 146_096) / 365;
    let y = yoe + era * 400;
    let doy = doe - (365 * yoe + yoe / 4 - yoe / 100);
    let mp = (5 * doy + 2) / 153;
    let d = (doy - (153 * mp + 2) / 5 + 1) as u32;
    let m = if mp < 10 { mp + 3 } else { mp - 9 } as u32;
    (if m <= 2 { y + 1 } else { y }, m, d)
}

pub fn days_from_civil(y: i64, m: u32, d: u32) -> i64 {
    let y = if m <= 2 { y - 1 } else { y };
    let era = y.div_euclid(400);
    let yoe = y.rem_euclid(400);
    let mp = if m > 2 { m - 3 } else { m + 9 } as i64;
    let doy = (153 * mp + 2) / 5 + d as i64 - 1;
    let doe = yoe * 365 + yoe / 4 - yoe / 100 + doy;
    era * 146_097 + doe - 719_468
}

/// RFC3339 rendering of `ms` since the epoch shifted to the UTC offset `off_min` minutes.
/// Only for instants whose local year is in 0..=9999.
pub fn rfc3339(ms: u64, off_min: i32, zulu: bool) -> Option<String> {
    let local = ms as i128 + off_min as i128 * 60_000;
    let days = local.div_euclid(86_400_000) as i64;
    let tod = local.rem_euclid(86_400_000) as u64;
    let (y, m, d) = civil_from_days(days);
    if !(0..=9999).contains(&y) {
        return None;
    }
    let (h, mi, s, f) = (tod / 3_600_000, tod / 60_000 % 60, tod / 1000 % 60, tod % 1000);
    let frac = if f == 0 { String::new() } else { format!(".{f:03}") };
    let off = if off_min == 0 && zulu {
        "Z".to_string()
    } else {
        let a = off_min.abs();
        format!("{}{:02}:{:02}", if off_min < 0 { '-' } else { '+' }, a / 60, a % 60)
    };
    Some(format!("{y:04}-{m:02}-{d:02}T{h:02}:{mi:02}:{s:02}{frac}{off}"))
}

/// Parse what the code under test may legitimately emit for a timestamp: decimal milliseconds, or
/// an RFC3339 / ISO 8601 (expanded year) date-time. Returns milliseconds since the epoch.
pub fn parse_ts_output(s: &str) -> Option<i128> {
    if !s.is_empty() && s.bytes().all(|b| b.is_ascii_digit()) {
        return s.parse::<u128>().ok().map(|x| x as i128);
    }
    let b = s.as_bytes();
    let mut i = 0;
    let mut neg = false;
    if i < b.len() && (b[i] == b'+' || b[i] == b'-') {
        neg = b[i] == b'-';
        i += 1;
    }
    let ys = i;
    while i < b.len() && b[i].is_ascii_digit() {
        i += 1;
    }
    if i - ys < 4 {
        return None;
    }
    let mut y: i64 = s[ys..i].parse().ok()?;
    if neg {
        y = -y;
    }
    let num2 = |i: &mut usize, sep: Option<u8>| -> Option<u32> {
        if let Some(c) = sep {
            if *i >= b.len() || b[*i] != c {
                return None;
            }
            *i += 1;
        }
        if *i + 2 > b.len() || !b[*i].is_ascii_digit() || !b[*i + 1].is_ascii_digit() {
            return None;
        }
        let v = ((b[*i] - b'0') * 10 + (b[*i + 1] - b'0')) as u32;
        *i += 2;
        Some(v)
    };
    let mo = num2(&mut i, Some(b'-'))?;
    let d = num2(&mut i, Some(b'-'))?;
    if i >= b.len() || !(b[i] == b'T' || b[i] == b't' || b[i] == b' ') {
        return None;
    }
    i += 1;
    let h = num2(&mut i, None)?;
    let mi = num2(&mut i, Some(b':'))?;
    let sec = num2(&mut i, Some(b':'))?;
    let mut frac_ms: i128 = 0;
    if i < b.len() && b[i] == b'.' {
        i += 1;
        let fs = i;
        while i < b.len() && b[i].is_ascii_digit() {
            i += 1;
        }
        if i == fs {
            return None;
        }
        let digits = &s[fs..i];
        let mut ms_digits = digits.chars().take(3).collect::<String>();
        while ms_digits.len() < 3 {
            ms_digits.push('0');
        }
        frac_ms = ms_digits.parse().ok()?;
        if digits.len() > 3 && digits[3..].bytes().any(|c| c != b'0') {
            return None; // sub-millisecond precision cannot come from a millisecond timestamp
        }
    }
    let off_min: i128 = if i < b.len() && (b[i] == b'Z' || b[i] == b'z') {
        i += 1;
        0
    } else {
        if i >= b.len() || !(b[i] == b'+' || b[i] == b'-') {
            return None;
        }
        let sign = if b[i] == b'-' { -1 } else { 1 };
        i += 1;
        let oh = num2(&mut i, None)?;
        let om = num2(&mut i, Some(b':'))?;
        sign * (oh as i128 * 60 + om as i128)
    };
    if i != b.len() || !(1..=12).contains(&mo) || !(1..=31).contains(&d) || h > 23 || mi > 59 || sec > 60 {
        return None;
    }
    let days = days_from_civil(y, mo, d) as i128;
    Some(days * 86_400_000 + h as i128 * 3_600_000 + mi as i128 * 60_000 + sec as i128 * 1000 + frac_ms - off_min * 60_000)
}

const D_UNITS: [(&str, u64); 5] = [("d", 86_400_000), ("h", 3_600_000), ("m", 60_000), ("s", 1000), ("ms", 1)];

pub fn duration_canonical(ms: u64) -> String {
    format!("{}d {}h {}m {}s {}ms", ms / 86_400_000, ms / 3_600_000 % 24, ms / 60_000 % 60, ms / 1000 % 60, ms % 1000)
}

/// Sum of the measures of a duration string, by the documented grammar.
pub fn parse_duration_output(s: &str) -> Option<u128> {
    let mut total: u128 = 0;
    for m in s.split_whitespace() {
        let split = m.find(|c: char| !c.is_ascii_digit())?;
        let (n, unit) = m.split_at(split);
        let n: u128 = n.parse().ok()?;
        let (_, f) = D_UNITS.iter().find(|(name, _)| *name == unit)?;
        total = total.checked_add(n.checked_mul(*f as u128)?)?;
    }
    Some(total)
}

fn duration_input(u: &mut Unstructured, ms: u64) -> String {
    match gen::idx(u, 4) {
        0 => duration_canonical(ms),
        1 => format!("{ms}ms"),
        2 => {
            // drop zero components (keep at least one measure), extra whitespace
            let parts = [ms / 86_400_000, ms / 3_600_000 % 24, ms / 60_000 % 60, ms / 1000 % 60, ms % 1000];
            let mut v: Vec<String> = Vec::new();
            for (p, (name, _)) in parts.iter().zip(D_UNITS.iter()) {
                if *p != 0 {
                    v.push(format!("{p}{name}"));
                }
            }
            if v.is_empty() {
                v.push("0s".into());
            }
            v.join("  ")
        }
        _ => {
            // same unit twice, in no particular order
            let secs = ms / 1000;
            let a = secs / 2;
            format!("{}ms {}s {}s", ms % 1000, secs - a, a)
        }
    }
}

fn timestamp_input(u: &mut Unstructured, ms: u64) -> String {
    let choice = gen::idx(u, 5);
    let r = match choice {
        0 => None,
        1 => rfc3339(ms, 0, true),
        2 => rfc3339(ms, 0, false),
        3 => rfc3339(ms, 60 * (gen::idx(u, 25) as i32 - 12), false),
        _ => rfc3339(ms, -210, false),
    };
    r.unwrap_or_else(|| ms.to_string())
}

pub enum Mode<'a, 'b> {
    /// What `to_json` is documented to produce.
    Normal,
    /// An accepted input notation chosen from the choice sequence.
    Input(&'a mut Unstructured<'b>),
}

fn render_fields(f: &Fields, vals: &[Val], mode: &mut Mode) -> Value {
    match f {
        Fields::Named(fs) => {
            let mut m = Map::new();
            for ((name, t), v) in fs.iter().zip(vals) {
                m.insert(name.clone(), render(t, v, mode));
            }
            Value::Object(m)
        }
        Fields::Unnamed(fs) => Value::Array(fs.iter().zip(vals).map(|(t, v)| render(t, v, mode)).collect()),
        Fields::None => Value::Array(vec![]),
    }
}

pub fn render(ty: &Type, v: &Val, mode: &mut Mode) -> Value {
    match (ty, v) {
        (Type::Unit, Val::Unit) => {
            let template_form = match mode {
                Mode::Input(u) => gen::boolean(u),
                Mode::Normal => false,
            };
            if template_form {
                Value::Array(vec![])
            } else {
                Value::Null
            }
        }
        (Type::Bool, Val::Bool(b)) => Value::Bool(*b),
        (Type::U8 | Type::U16 | Type::U32 | Type::U64, Val::U(x)) => Value::Number(Number::from(*x as u64)),
        (Type::I8 | Type::I16 | Type::I32 | Type::I64, Val::I(x)) => Value::Number(Number::from(*x as i64)),
        (Type::U128 | Type::Amount, Val::U(x)) => Value::String(x.to_string()),
        (Type::I128, Val::I(x)) => Value::String(x.to_string()),
        (Type::AccountAddress, Val::Account(a)) => Value::String(account_string(a, 1)),
        (Type::ContractAddress, Val::Contract(i, s)) => {
            let mut m = Map::new();
            m.insert("index".into(), Value::Number(Number::from(*i)));
            let omit = match mode {
                Mode::Input(u) => *s == 0 && gen::boolean(u),
                Mode::Normal => false,
            };
            if !omit {
                m.insert("subindex".into(), Value::Number(Number::from(*s)));
            }
            Value::Object(m)
        }
        (Type::Timestamp, Val::U(x)) => match mode {
            Mode::Input(u) => Value::String(timestamp_input(u, *x as u64)),
            Mode::Normal => Value::String(rfc3339(*x as u64, 0, false).unwrap_or_else(|| x.to_string())),
        },
        (Type::Duration, Val::U(x)) => match mode {
            Mode::Input(u) => Value::String(duration_input(u, *x as u64)),
            Mode::Normal => Value::String(duration_canonical(*x as u64)),
        },
        (Type::Pair(a, b), Val::Pair(x, y)) => Value::Array(vec![render(a, x, mode), render(b, y, mode)]),
        (Type::List(_, t) | Type::Set(_, t) | Type::Array(_, t), Val::Seq(xs)) => Value::Array(xs.iter().map(|x| render(t, x, mode)).collect()),
        (Type::Map(_, k, vt), Val::Map(xs)) => Value::Array(xs.iter().map(|(a, b)| Value::Array(vec![render(k, a, mode), render(vt, b, mode)])).collect()),
        (Type::Struct(f), Val::Fields(xs)) => render_fields(f, xs, mode),
        (Type::Enum(vs), Val::Variant(i, xs)) => {
            let (name, f) = &vs[*i as usize];
            let mut m = Map::new();
            m.insert(name.clone(), render_fields(f, xs, mode));
            Value::Object(m)
        }
        (Type::TaggedEnum(vs), Val::Variant(tag, xs)) => {
            let (name, f) = &vs[&(*tag as u8)];
            let mut m = Map::new();
            m.insert(name.clone(), render_fields(f, xs, mode));
            Value::Object(m)
        }
        (Type::String(_), Val::Str(s)) => Value::String(s.clone()),
        (Type::ContractName(_), Val::CName(n)) => {
            let mut m = Map::new();
            m.insert("contract".into(), Value::String(n.clone()));
            Value::Object(m)
        }
        (Type::ReceiveName(_), Val::RName(c, f)) => {
            let mut m = Map::new();
            m.insert("contract".into(), Value::String(c.clone()));
            m.insert("func".into(), Value::String(f.clone()));
            Value::Object(m)
        }
        (Type::ULeb128(_) | Type::ILeb128(_), Val::Big(x)) => Value::String(x.to_string()),
        (Type::ByteList(_) | Type::ByteArray(_), Val::Bytes(b)) => Value::String(hex_lower(b)),
        (t, v) => panic!("harness bug: value {v:?} does not belong to type {t:?}"),
    }
}

/// A mismatch found by [`matches`]: (signature, message).
pub type Mismatch = (String, String);

/// Compare the JSON produced by the code under test with the model value. Everything is compared
/// exactly against [`render`] in normal mode, except timestamps and durations, which are compared
/// by the instant / amount of time they denote (their exact text is an implementation detail).
/// `leaf_reparse` is called for each timestamp string so that the caller can check that the
/// produced text is accepted back.
pub fn matches(ty: &Type, v: &Val, j: &Value, leaf: &mut dyn FnMut(&Type, &Val, &Value) -> Result<(), Mismatch>) -> Result<(), Mismatch> {
    let mism = |what: &str| -> Result<(), Mismatch> {
        Err(("json-mismatch".to_string(), format!("{what}: at a node of type {} expected {} but to_json gave {}", ctor_name(ty), brief(&render(ty, v, &mut Mode::Normal)), brief(j))))
    };
    match (ty, v) {
        (Type::Timestamp, Val::U(x)) => {
            let Value::String(s) = j else { return mism("timestamp is not a string") };
            match parse_ts_output(s) {
                Some(ms) if ms == *x as i128 => leaf(ty, v, j),
                // observation A2 (outside the claim): values whose i64 cast is negative are shown as
                // dates before 1970; tolerated, the caller counts them
                other if ts_wraps_negative(*x as u64) && other.map(|m| m < 0).unwrap_or(false) => leaf(ty, v, &Value::Null),
                other => Err(("timestamp-mismatch".to_string(), format!("timestamp of {x} ms rendered as {s:?}, which denotes {other:?} ms"))),
            }
        }
        (Type::Duration, Val::U(x)) => {
            let Value::String(s) = j else { return mism("duration is not a string") };
            if parse_duration_output(s) == Some(*x) {
                leaf(ty, v, j)
            } else {
                Err(("duration-mismatch".to_string(), format!("duration of {x} ms rendered as {s:?}")))
            }
        }
        (Type::Pair(a, b), Val::Pair(x, y)) => match j {
            Value::Array(js) if js.len() == 2 => {
                matches(a, x, &js[0], leaf)?;
                matches(b, y, &js[1], leaf)
            }
            _ => mism("pair"),
        },
        (Type::List(_, t) | Type::Set(_, t) | Type::Array(_, t), Val::Seq(xs)) => match j {
            Value::Array(js) if js.len() == xs.len() => {
                for (x, e) in xs.iter().zip(js) {
                    matches(t, x, e, leaf)?;
                }
                Ok(())
            }
            _ => mism("sequence"),
        },
        (Type::Map(_, k, vt), Val::Map(xs)) => match j {
            Value::Array(js) if js.len() == xs.len() => {
                for ((a, b), e) in xs.iter().zip(js) {
                    match e {
                        Value::Array(p) if p.len() == 2 => {
                            matches(k, a, &p[0], leaf)?;
                            matches(vt, b, &p[1], leaf)?;
                        }
                        _ => return mism("map entry"),
                    }
                }
                Ok(())
            }
            _ => mism("map"),
        },
        (Type::Struct(f), Val::Fields(xs)) => matches_fields(f, xs, j, leaf, ty, v),
        (Type::Enum(vs), Val::Variant(i, xs)) => {
            let (name, f) = &vs[*i as usize];
            match j {
                Value::Object(m) if m.len() == 1 && m.contains_key(name) => matches_fields(f, xs, &m[name], leaf, ty, v),
                _ => mism("enum"),
            }
        }
        (Type::TaggedEnum(vs), Val::Variant(tag, xs)) => {
            let (name, f) = &vs[&(*tag as u8)];
            match j {
                Value::Object(m) if m.len() == 1 && m.contains_key(name) => matches_fields(f, xs, &m[name], leaf, ty, v),
                _ => mism("tagged enum"),
            }
        }
        _ => {
            if render(ty, v, &mut Mode::Normal) == *j {
                Ok(())
            } else {
                mism("leaf")
            }
        }
    }
}

fn matches_fields(
    f: &Fields,
    xs: &[Val],
    j: &Value,
    leaf: &mut dyn FnMut(&Type, &Val, &Value) -> Result<(), Mismatch>,
    ty: &Type,
    v: &Val,
) -> Result<(), Mismatch> {
    let mism = |what: &str| -> Result<(), Mismatch> {
        Err(("json-mismatch".to_string(), format!("{what}: at a node of type {} expected {} but to_json gave {}", ctor_name(ty), brief(&render(ty, v, &mut Mode::Normal)), brief(j))))
    };
    match (f, j) {
        (Fields::Named(fs), Value::Object(m)) => {
            // duplicate names (hostile types only): the last field with a name wins in a JSON object
            let mut distinct: Vec<&String> = fs.iter().map(|x| &x.0).collect();
            distinct.sort();
            distinct.dedup();
            if m.len() != distinct.len() {
                return mism("named fields (count)");
            }
            for (idx, ((name, t), x)) in fs.iter().zip(xs).enumerate() {
                if fs[idx + 1..].iter().any(|(n, _)| n == name) {
                    continue;
                }
                match m.get(name) {
                    Some(e) => matches(t, x, e, leaf)?,
                    None => return mism("named fields (missing)"),
                }
            }
            Ok(())
        }
        (Fields::Unnamed(fs), Value::Array(js)) if js.len() == fs.len() => {
            for ((t, x), e) in fs.iter().zip(xs).zip(js) {
                matches(t, x, e, leaf)?;
            }
            Ok(())
        }
        (Fields::None, Value::Array(js)) if js.is_empty() => Ok(()),
        _ => mism("fields"),
    }
}

pub fn brief(j: &Value) -> String {
    let s = j.to_string();
    if s.len() > 300 {
        let mut cut = 300;
        while !s.is_char_boundary(cut) {
            cut -= 1;
        }
        format!("{} …", &s[..cut])
    } else {
        s
    }
}
