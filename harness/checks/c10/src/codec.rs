//! Independent contract-side binary codec for the value model: `enc` (Val -> bytes) and `Dec`
//! (bytes -> Val), written from the documentation of `schema::Type` (little-endian integers,
//! length prefix of the declared size length, variant index as u8 / u16, LEB128).
use crate::model::*;
use concordium_contracts_common::schema::{Fields, SizeLength, Type};
use num_bigint::{BigInt, Sign};
use num_traits::{Signed, Zero};

pub fn enc_len(n: usize, sl: SizeLength, out: &mut Vec<u8>) {
    match sl {
        SizeLength::U8 => out.push(n as u8),
        SizeLength::U16 => out.extend_from_slice(&(n as u16).to_le_bytes()),
        SizeLength::U32 => out.extend_from_slice(&(n as u32).to_le_bytes()),
        SizeLength::U64 => out.extend_from_slice(&(n as u64).to_le_bytes()),
    }
}

/// Minimal number of 7-bit groups of an unsigned value.
pub fn uleb_groups(v: &BigInt) -> u32 {
    let bits = v.bits() as u32;
    if bits == 0 {
        1
    } else {
        bits.div_ceil(7)
    }
}

/// Minimal number of 7-bit groups of a signed value: smallest k with -2^(7k-1) <= v < 2^(7k-1).
pub fn ileb_groups(v: &BigInt) -> u32 {
    // magnitude bits needed in two's complement (without the sign bit)
    let m = if v.is_negative() { (-v - 1u32).bits() } else { v.bits() } as u32;
    (m + 1).div_ceil(7).max(1)
}

/// Emit `k` groups of the non-negative integer `x < 2^(7k)`, low group first.
fn emit_groups(x: &BigInt, k: u32, out: &mut Vec<u8>) {
    debug_assert!(!x.is_negative());
    let (_, bytes) = x.to_bytes_le();
    let bit = |i: u32| -> u8 {
        let b = (i / 8) as usize;
        if b < bytes.len() {
            (bytes[b] >> (i % 8)) & 1
        } else {
            0
        }
    };
    for g in 0..k {
        let mut byte = 0u8;
        for j in 0..7 {
            byte |= bit(g * 7 + j) << j;
        }
        if g + 1 < k {
            byte |= 0x80;
        }
        out.push(byte);
    }
}

pub fn enc_uleb(v: &BigInt, out: &mut Vec<u8>) { emit_groups(v, uleb_groups(v), out) }

pub fn enc_ileb(v: &BigInt, out: &mut Vec<u8>) {
    let k = ileb_groups(v);
    let x = if v.is_negative() { v + pow2(7 * k) } else { v.clone() };
    emit_groups(&x, k, out)
}

fn enc_fields(f: &Fields, vals: &[Val], out: &mut Vec<u8>) {
    for (t, v) in fields_types(f).into_iter().zip(vals) {
        enc(t, v, out);
    }
}

/// Contract-side encoding of `v : ty`.
pub fn enc(ty: &Type, v: &Val, out: &mut Vec<u8>) {
    match (ty, v) {
        (Type::Unit, Val::Unit) => {}
        (Type::Bool, Val::Bool(b)) => out.push(*b as u8),
        (Type::U8, Val::U(x)) => out.push(*x as u8),
        (Type::U16, Val::U(x)) => out.extend_from_slice(&(*x as u16).to_le_bytes()),
        (Type::U32, Val::U(x)) => out.extend_from_slice(&(*x as u32).to_le_bytes()),
        (Type::U64 | Type::Amount | Type::Timestamp | Type::Duration, Val::U(x)) => out.extend_from_slice(&(*x as u64).to_le_bytes()),
        (Type::U128, Val::U(x)) => out.extend_from_slice(&x.to_le_bytes()),
        (Type::I8, Val::I(x)) => out.push(*x as i8 as u8),
        (Type::I16, Val::I(x)) => out.extend_from_slice(&(*x as i16).to_le_bytes()),
        (Type::I32, Val::I(x)) => out.extend_from_slice(&(*x as i32).to_le_bytes()),
        (Type::I64, Val::I(x)) => out.extend_from_slice(&(*x as i64).to_le_bytes()),
        (Type::I128, Val::I(x)) => out.extend_from_slice(&x.to_le_bytes()),
        (Type::AccountAddress, Val::Account(a)) => out.extend_from_slice(a),
        (Type::ContractAddress, Val::Contract(i, s)) => {
            out.extend_from_slice(&i.to_le_bytes());
            out.extend_from_slice(&s.to_le_bytes());
        }
        (Type::Pair(a, b), Val::Pair(x, y)) => {
            enc(a, x, out);
            enc(b, y, out);
        }
        (Type::List(sl, t) | Type::Set(sl, t), Val::Seq(xs)) => {
            enc_len(xs.len(), *sl, out);
            for x in xs {
                enc(t, x, out);
            }
        }
        (Type::Map(sl, k, vt), Val::Map(xs)) => {
            enc_len(xs.len(), *sl, out);
            for (a, b) in xs {
                enc(k, a, out);
                enc(vt, b, out);
            }
        }
        (Type::Array(_, t), Val::Seq(xs)) => {
            for x in xs {
                enc(t, x, out);
            }
        }
        (Type::Struct(f), Val::Fields(xs)) => enc_fields(f, xs, out),
        (Type::Enum(vs), Val::Variant(i, xs)) => {
            if vs.len() <= 256 {
                out.push(*i as u8);
            } else {
                out.extend_from_slice(&(*i as u16).to_le_bytes());
            }
            if let Some((_, f)) = vs.get(*i as usize) {
                enc_fields(f, xs, out);
            }
        }
        (Type::TaggedEnum(vs), Val::Variant(tag, xs)) => {
            out.push(*tag as u8);
            if let Some((_, f)) = vs.get(&(*tag as u8)) {
                enc_fields(f, xs, out);
            }
        }
        (Type::String(sl), Val::Str(s)) => {
            enc_len(s.len(), *sl, out);
            out.extend_from_slice(s.as_bytes());
        }
        (Type::ContractName(sl), Val::CName(n)) => {
            enc_len(n.len() + 5, *sl, out);
            out.extend_from_slice(b"init_");
            out.extend_from_slice(n.as_bytes());
        }
        (Type::ReceiveName(sl), Val::RName(c, f)) => {
            enc_len(c.len() + 1 + f.len(), *sl, out);
            out.extend_from_slice(c.as_bytes());
            out.push(b'.');
            out.extend_from_slice(f.as_bytes());
        }
        (Type::ULeb128(_), Val::Big(x)) => enc_uleb(x, out),
        (Type::ILeb128(_), Val::Big(x)) => enc_ileb(x, out),
        (Type::ByteList(sl), Val::Bytes(b)) => {
            enc_len(b.len(), *sl, out);
            out.extend_from_slice(b);
        }
        (Type::ByteArray(_), Val::Bytes(b)) => out.extend_from_slice(b),
        (t, v) => panic!("harness bug: value {v:?} does not belong to type {t:?}"),
    }
}

// ------------------------------------------------------------------------------------------

#[derive(Debug, Clone, PartialEq, Eq)]
pub enum Stop {
    /// The bytes are not an encoding of a value of the type (documented reason).
    Invalid(&'static str),
    /// The input is outside what the check runs against the code under test.
    Excluded(&'static str),
}

pub struct Dec<'a> {
    pub data:    &'a [u8],
    pub pos:     usize,
    /// Set when the input is accepted by this decoder but a stricter reader could legitimately
    /// reject it (duplicate set elements / map keys, non-minimal LEB128).
    pub lenient: bool,
    pub nodes:   usize,
}

pub const MAX_NODES: usize = 200_000;

impl<'a> Dec<'a> {
    pub fn new(data: &'a [u8]) -> Self { Dec { data, pos: 0, lenient: false, nodes: 0 } }

    fn take(&mut self, n: usize) -> Result<&'a [u8], Stop> {
        if self.data.len() - self.pos < n {
            return Err(Stop::Invalid("not enough data"));
        }
        let s = &self.data[self.pos..self.pos + n];
        self.pos += n;
        Ok(s)
    }

    fn remaining(&self) -> usize { self.data.len() - self.pos }

    fn uint(&mut self, n: usize) -> Result<u128, Stop> {
        let s = self.take(n)?;
        let mut b = [0u8; 16];
        b[..n].copy_from_slice(s);
        Ok(u128::from_le_bytes(b))
    }

    fn int(&mut self, n: usize) -> Result<i128, Stop> {
        let x = self.uint(n)?;
        let sh = 128 - 8 * n as u32;
        Ok(((x << sh) as i128) >> sh)
    }

    fn len(&mut self, sl: SizeLength) -> Result<usize, Stop> {
        let n = match sl {
            SizeLength::U8 => 1,
            SizeLength::U16 => 2,
            SizeLength::U32 => 4,
            SizeLength::U64 => 8,
        };
        let v = self.uint(n).map_err(|_| Stop::Invalid("not enough data for the length"))?;
        usize::try_from(v).map_err(|_| Stop::Invalid("length does not fit usize"))
    }

    fn string(&mut self, sl: SizeLength) -> Result<String, Stop> {
        let n = self.len(sl)?;
        let s = self.take(n)?;
        String::from_utf8(s.to_vec()).map_err(|_| Stop::Invalid("invalid UTF-8"))
    }

    fn fields(&mut self, f: &Fields) -> Result<Vec<Val>, Stop> {
        let mut v = Vec::new();
        for t in fields_types(f) {
            v.push(self.dec(t)?);
        }
        Ok(v)
    }

    fn elems(&mut self, t: &Type, n: usize) -> Result<Vec<Val>, Stop> {
        if zero_width(t) && (n as u64).saturating_mul(zero_width_nodes(t)) > 1 << 16 {
            // O2: collections of zero-width elements declaring more than 2^16 elements
            return Err(Stop::Excluded("zero-width-count"));
        }
        let mut v = Vec::with_capacity(n.min(1024));
        for _ in 0..n {
            v.push(self.dec(t)?);
        }
        Ok(v)
    }

    fn leb_bytes(&mut self, c: u32) -> Result<&'a [u8], Stop> {
        let start = self.pos;
        for _ in 0..c {
            let b = self.take(1)?[0];
            if b & 0x80 == 0 {
                return Ok(&self.data[start..self.pos]);
            }
        }
        Err(Stop::Invalid("LEB128 longer than the constraint"))
    }

    pub fn dec(&mut self, ty: &Type) -> Result<Val, Stop> {
        self.nodes += 1;
        if self.nodes > MAX_NODES {
            return Err(Stop::Excluded("node-budget"));
        }
        Ok(match ty {
            Type::Unit => Val::Unit,
            Type::Bool => match self.take(1)?[0] {
                0 => Val::Bool(false),
                1 => Val::Bool(true),
                _ => return Err(Stop::Invalid("bool byte not 0/1")),
            },
            Type::U8 => Val::U(self.uint(1)?),
            Type::U16 => Val::U(self.uint(2)?),
            Type::U32 => Val::U(self.uint(4)?),
            Type::U64 | Type::Amount | Type::Timestamp | Type::Duration => Val::U(self.uint(8)?),
            Type::U128 => Val::U(self.uint(16)?),
            Type::I8 => Val::I(self.int(1)?),
            Type::I16 => Val::I(self.int(2)?),
            Type::I32 => Val::I(self.int(4)?),
            Type::I64 => Val::I(self.int(8)?),
            Type::I128 => Val::I(self.int(16)?),
            Type::AccountAddress => {
                let mut a = [0u8; 32];
                a.copy_from_slice(self.take(32)?);
                Val::Account(a)
            }
            Type::ContractAddress => {
                if self.remaining() < 16 {
                    return Err(Stop::Invalid("not enough data"));
                }
                let i = self.uint(8)? as u64;
                let s = self.uint(8)? as u64;
                Val::Contract(i, s)
            }
            Type::Pair(a, b) => {
                let x = self.dec(a)?;
                let y = self.dec(b)?;
                Val::Pair(Box::new(x), Box::new(y))
            }
            Type::List(sl, t) => {
                let n = self.len(*sl)?;
                Val::Seq(self.elems(t, n)?)
            }
            Type::Set(sl, t) => {
                let n = self.len(*sl)?;
                let v = self.elems(t, n)?;
                let mut s = v.clone();
                s.sort();
                s.dedup();
                if s.len() != v.len() {
                    self.lenient = true;
                }
                Val::Seq(v)
            }
            Type::Map(sl, k, vt) => {
                let n = self.len(*sl)?;
                if zero_width(k) && zero_width(vt) && (n as u64).saturating_mul(zero_width_nodes(k) + zero_width_nodes(vt)) > 1 << 16 {
                    return Err(Stop::Excluded("zero-width-count"));
                }
                let mut v = Vec::with_capacity(n.min(1024));
                for _ in 0..n {
                    let a = self.dec(k)?;
                    let b = self.dec(vt)?;
                    v.push((a, b));
                }
                let mut keys: Vec<&Val> = v.iter().map(|x| &x.0).collect();
                keys.sort();
                keys.dedup();
                if keys.len() != v.len() {
                    self.lenient = true;
                }
                Val::Map(v)
            }
            Type::Array(n, t) => Val::Seq(self.elems(t, *n as usize)?),
            Type::Struct(f) => Val::Fields(self.fields(f)?),
            Type::Enum(vs) => {
                let i = if vs.len() <= 256 {
                    self.uint(1).map_err(|_| Stop::Invalid("no variant index"))? as usize
                } else {
                    self.uint(2).map_err(|_| Stop::Invalid("no variant index"))? as usize
                };
                let Some((_, f)) = vs.get(i) else { return Err(Stop::Invalid("unknown variant index")) };
                Val::Variant(i as u32, self.fields(f)?)
            }
            Type::TaggedEnum(vs) => {
                let tag = self.uint(1).map_err(|_| Stop::Invalid("no tag"))? as u8;
                let Some((_, f)) = vs.get(&tag) else { return Err(Stop::Invalid("unknown tag")) };
                Val::Variant(tag as u32, self.fields(f)?)
            }
            Type::String(sl) => Val::Str(self.string(*sl)?),
            Type::ContractName(sl) => {
                let s = self.string(*sl)?;
                let ok = s.len() <= 100 && s.starts_with("init_") && s.bytes().all(|b| (0x21..=0x7e).contains(&b) && b != b'.');
                if !ok {
                    return Err(Stop::Invalid("invalid contract name"));
                }
                Val::CName(s[5..].to_string())
            }
            Type::ReceiveName(sl) => {
                let s = self.string(*sl)?;
                let ok = s.len() <= 100 && s.bytes().all(|b| (0x21..=0x7e).contains(&b));
                let Some(dot) = s.find('.') else { return Err(Stop::Invalid("receive name without '.'")) };
                if !ok {
                    return Err(Stop::Invalid("invalid receive name"));
                }
                Val::RName(s[..dot].to_string(), s[dot + 1..].to_string())
            }
            Type::ULeb128(c) => {
                let bs = self.leb_bytes(*c)?;
                if bs.len() > 1 && bs[bs.len() - 1] == 0 {
                    self.lenient = true;
                }
                Val::Big(groups_value(bs))
            }
            Type::ILeb128(c) => {
                let bs = self.leb_bytes(*c)?;
                let n = bs.len();
                if n > 1 {
                    let (last, prev) = (bs[n - 1], bs[n - 2]);
                    if (last == 0x00 && prev & 0x40 == 0) || (last == 0x7f && prev & 0x40 != 0) {
                        self.lenient = true;
                    }
                }
                let mut x = groups_value(bs);
                if bs[n - 1] & 0x40 != 0 {
                    x -= pow2(7 * n as u32);
                }
                Val::Big(x)
            }
            Type::ByteList(sl) => {
                let n = self.len(*sl)?;
                Val::Bytes(self.take(n)?.to_vec())
            }
            Type::ByteArray(n) => {
                let n = *n as usize;
                Val::Bytes(self.take(n)?.to_vec())
            }
        })
    }
}

/// Value of a sequence of 7-bit groups (low group first), continuation bits ignored.
fn groups_value(bs: &[u8]) -> BigInt {
    let mut bits = vec![0u8; (bs.len() * 7).div_ceil(8)];
    for (g, b) in bs.iter().enumerate() {
        for j in 0..7 {
            if (b >> j) & 1 == 1 {
                let i = g * 7 + j;
                bits[i / 8] |= 1 << (i % 8);
            }
        }
    }
    let x = BigInt::from_bytes_le(Sign::Plus, &bits);
    if x.is_zero() {
        BigInt::zero()
    } else {
        x
    }
}
