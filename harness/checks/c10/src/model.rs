//! Own value model and generators of schema types and conforming values.
//!
//! `schema::Type` is used as the type AST only (a plain data enum with public fields); no logic of
//! the crate under test is used here.
use concordium_contracts_common::schema::{Fields, SizeLength, Type};
use num_bigint::BigInt;
use num_traits::{One, Zero};
use std::collections::BTreeMap;
use vcore::{gen, Unstructured};

#[derive(Clone, Debug, PartialEq, Eq, PartialOrd, Ord, Hash)]
pub enum Val {
    Unit,
    Bool(bool),
    /// U8..U128, Amount, Timestamp, Duration
    U(u128),
    /// I8..I128
    I(i128),
    Account([u8; 32]),
    Contract(u64, u64),
    Pair(Box<Val>, Box<Val>),
    /// List, Set, Array
    Seq(Vec<Val>),
    Map(Vec<(Val, Val)>),
    /// Struct: field values in schema order (empty for `Fields::None`)
    Fields(Vec<Val>),
    /// Enum: variant index; TaggedEnum: the tag. Payload in schema order.
    Variant(u32, Vec<Val>),
    Str(String),
    /// contract name without the `init_` prefix
    CName(String),
    RName(String, String),
    /// ULeb128 / ILeb128
    Big(BigInt),
    /// ByteList / ByteArray
    Bytes(Vec<u8>),
}

pub const YEAR_10000_MS: u64 = 253_402_300_800_000;
/// Largest instant chrono can represent (262142-12-31T23:59:59.999Z), in ms.
pub const CHRONO_MAX_MS: u64 = 8_210_266_876_799_999;
/// -(smallest instant chrono can represent, -262143-01-01T00:00:00Z), in ms.
pub const CHRONO_MIN_ABS_MS: u64 = 8_334_601_315_200_000;
/// Generous bounds of the two regions (the exact bounds depend on the chrono version; inside the
/// margin the code renders decimal milliseconds, which the oracle accepts anyway).
pub const REGION1_END_MS: u64 = 8_300_000_000_000_000;
pub const REGION2_WIDTH_MS: u64 = 8_400_000_000_000_000;

/// Timestamps for which a known defect of the code under test applies (see NOTES.md, finding A):
/// years 10000..262142 (rendered with a 5/6-digit year that the parser rejects) and values whose
/// `as i64` cast is a negative number chrono can represent (rendered as a date before 1970).
pub fn ts_in_defect_region(ms: u64) -> bool {
    (YEAR_10000_MS..=REGION1_END_MS).contains(&ms) || ts_wraps_negative(ms)
}

/// Observation A2: `Display for Timestamp` casts the milliseconds to i64, so these values are shown
/// as dates before 1970. Ruled outside the claim; excluded from the JSON-first generator.
pub fn ts_wraps_negative(ms: u64) -> bool { ms >= u64::MAX - REGION2_WIDTH_MS }

pub fn sl_max(sl: SizeLength) -> u64 {
    match sl {
        SizeLength::U8 => u8::MAX as u64,
        SizeLength::U16 => u16::MAX as u64,
        SizeLength::U32 => u32::MAX as u64,
        SizeLength::U64 => u64::MAX,
    }
}

pub fn sl_name(sl: SizeLength) -> &'static str {
    match sl {
        SizeLength::U8 => "U8",
        SizeLength::U16 => "U16",
        SizeLength::U32 => "U32",
        SizeLength::U64 => "U64",
    }
}

pub fn gen_sl(u: &mut Unstructured) -> SizeLength {
    match gen::idx(u, 4) {
        0 => SizeLength::U8,
        1 => SizeLength::U16,
        2 => SizeLength::U32,
        _ => SizeLength::U64,
    }
}

/// Options of the type generator.
#[derive(Clone, Copy)]
pub struct TypeOpts {
    /// Allow shapes that have no conforming value or that a tool would not emit (empty enums,
    /// constraint 0, duplicate names, large fixed lengths). Used by the totality target only.
    pub hostile: bool,
}

pub struct TypeGen {
    pub opts:        TypeOpts,
    /// Remaining budget of type nodes.
    pub budget:      usize,
    /// Set when duplicate field/variant names were generated.
    pub dup_names:   bool,
    /// The next node generated at depth > 0 is a composite (used for the root).
    pub force_composite: bool,
    /// Set when an enum without variants or a LEB128 with constraint 0 was generated.
    pub uninhabited: bool,
}

const NAME_TABLE: &[&str] = &["a", "b", "value", "Some", "None", "Ü", "x y", "\"q\"", "", "init", "index", "func", "é漢", "A.b", "_0"];

fn gen_names(u: &mut Unstructured, n: usize, g: &mut TypeGen) -> Vec<String> {
    let mut out: Vec<String> = Vec::with_capacity(n);
    let fancy = gen::ratio(u, 1, 4);
    for i in 0..n {
        let mut name = if fancy && i < 64 { NAME_TABLE[gen::idx(u, NAME_TABLE.len())].to_string() } else { format!("f{i}") };
        if out.contains(&name) {
            if g.opts.hostile && gen::ratio(u, 1, 8) {
                g.dup_names = true;
            } else {
                name = format!("{name}#{i}");
            }
        }
        out.push(name);
    }
    out
}

fn gen_fields(u: &mut Unstructured, d: usize, spine: bool, g: &mut TypeGen) -> Fields {
    match gen::idx(u, 3) {
        0 if !spine => Fields::None,
        1 => {
            let n = if spine { gen::range_usize(u, 1, 3) } else { gen::range_usize(u, 0, 3) };
            let mut v = Vec::with_capacity(n);
            for i in 0..n {
                v.push(child(u, d, spine && i == 0, g));
            }
            Fields::Unnamed(v)
        }
        _ => {
            let n = if spine { gen::range_usize(u, 1, 4) } else { gen::range_usize(u, 0, 4) };
            let names = gen_names(u, n, g);
            let mut v = Vec::with_capacity(n);
            for (i, name) in names.into_iter().enumerate() {
                v.push((name, child(u, d, spine && i == 0, g)));
            }
            Fields::Named(v)
        }
    }
}

/// A child at remaining depth `d` (already decremented). Non-spine children are kept shallow.
fn child(u: &mut Unstructured, d: usize, spine: bool, g: &mut TypeGen) -> Type {
    if spine {
        gen_type_at(u, d, true, g)
    } else {
        let dd = d.min(gen::idx(u, 3));
        gen_type_at(u, dd, false, g)
    }
}

fn gen_constraint(u: &mut Unstructured, g: &mut TypeGen) -> u32 {
    match gen::idx(u, 10) {
        0 => 1,
        1 => 2,
        2 => 5,
        3 => 10,
        4 => 19,
        5 => 37,
        6 if g.opts.hostile => {
            if gen::boolean(u) {
                g.uninhabited = true;
                0
            } else {
                gen::range_u64(u, 38, 60) as u32
            }
        }
        _ => gen::range_u64(u, 1, 37) as u32,
    }
}

pub fn gen_leaf(u: &mut Unstructured, g: &mut TypeGen) -> Type {
    match gen::idx(u, 24) {
        0 => Type::Unit,
        1 => Type::Bool,
        2 => Type::U8,
        3 => Type::U16,
        4 => Type::U32,
        5 => Type::U64,
        6 => Type::U128,
        7 => Type::I8,
        8 => Type::I16,
        9 => Type::I32,
        10 => Type::I64,
        11 => Type::I128,
        12 => Type::Amount,
        13 => Type::AccountAddress,
        14 => Type::ContractAddress,
        15 => Type::Timestamp,
        16 => Type::Duration,
        17 => Type::String(gen_sl(u)),
        18 => Type::ContractName(gen_sl(u)),
        19 => Type::ReceiveName(gen_sl(u)),
        20 => Type::ULeb128(gen_constraint(u, g)),
        21 => Type::ILeb128(gen_constraint(u, g)),
        22 => Type::ByteList(gen_sl(u)),
        _ => {
            let n = match gen::idx(u, 8) {
                0 => 0,
                1 => 1,
                2 => 32,
                3 => gen::range_u64(u, 0, 300) as u32,
                _ => gen::range_u64(u, 0, 12) as u32,
            };
            Type::ByteArray(n)
        }
    }
}

/// Generate a type of nesting depth at most `d + 1` (a leaf has depth 1). With `spine` the
/// first child chain is forced to be composite so that the depth is actually reached.
pub fn gen_type_at(u: &mut Unstructured, d: usize, spine: bool, g: &mut TypeGen) -> Type {
    if g.budget > 0 {
        g.budget -= 1;
    }
    if d == 0 || g.budget == 0 {
        return gen_leaf(u, g);
    }
    let forced = std::mem::replace(&mut g.force_composite, false);
    if !spine && !forced && !gen::ratio(u, 5, 8) {
        return gen_leaf(u, g);
    }
    let d1 = d - 1;
    match gen::idx(u, 8) {
        0 => {
            let l = child(u, d1, spine, g);
            let r = child(u, d1, false, g);
            if gen::boolean(u) {
                Type::Pair(Box::new(r), Box::new(l))
            } else {
                Type::Pair(Box::new(l), Box::new(r))
            }
        }
        1 => Type::List(gen_sl(u), Box::new(child(u, d1, spine, g))),
        2 => Type::Set(gen_sl(u), Box::new(child(u, d1, spine, g))),
        3 => {
            let k = child(u, d1, false, g);
            let v = child(u, d1, spine, g);
            if spine && gen::boolean(u) {
                Type::Map(gen_sl(u), Box::new(v), Box::new(k))
            } else {
                Type::Map(gen_sl(u), Box::new(k), Box::new(v))
            }
        }
        4 => {
            let c = child(u, d1, spine, g);
            let n = match gen::idx(u, 8) {
                0 => 0,
                1 | 2 => 1,
                3 if is_leaf(&c) => gen::range_u64(u, 0, 40) as u32,
                _ => gen::range_u64(u, 0, 4) as u32,
            };
            // a value of a fixed-size array has n copies of its element whatever the choice bytes say:
            // keep the product over nested arrays bounded (nested [4; [4; ...]] would be exponential)
            let per = mandatory_nodes(&c);
            let n = if (n as u64).saturating_mul(per) > 4096 { (4096 / per).max(1) as u32 } else { n };
            Type::Array(n, Box::new(c))
        }
        5 => Type::Struct(gen_fields(u, d1, spine, g)),
        6 => {
            let n = match gen::idx(u, 64) {
                0 => 256,
                1 => 257,
                2 => gen::range_usize(u, 250, 300),
                3 if g.opts.hostile => {
                    g.uninhabited = true;
                    0
                }
                _ => gen::range_usize(u, 1, 5),
            };
            let names = gen_names(u, n, g);
            let mut vs = Vec::with_capacity(n);
            for (i, name) in names.into_iter().enumerate() {
                let f = if i >= 6 && i + 2 < n {
                    Fields::None
                } else {
                    gen_fields(u, d1, spine && i == 0, g)
                };
                vs.push((name, f));
            }
            Type::Enum(vs)
        }
        _ => {
            let n = if g.opts.hostile && gen::ratio(u, 1, 32) {
                g.uninhabited = true;
                0
            } else {
                gen::range_usize(u, 1, 5)
            };
            let names = gen_names(u, n, g);
            let mut m: BTreeMap<u8, (String, Fields)> = BTreeMap::new();
            for (i, name) in names.into_iter().enumerate() {
                // sparse tags: 0, 255, small, random
                let mut tag = match gen::idx(u, 5) {
                    0 => i as u8,
                    1 => 255 - i as u8,
                    2 => 0,
                    _ => gen::byte(u),
                };
                while m.contains_key(&tag) {
                    tag = tag.wrapping_add(1);
                }
                m.insert(tag, (name, gen_fields(u, d1, spine && i == 0, g)));
            }
            Type::TaggedEnum(m)
        }
    }
}

/// Top-level type generator: most types have depth <= 6, a few have a spine up to depth 32.
pub fn gen_type(u: &mut Unstructured, g: &mut TypeGen) -> Type {
    let (d, spine) = match gen::idx(u, 16) {
        0..=2 => (0, false),
        3..=5 => (1, false),
        6..=8 => (2, false),
        9 | 10 => (3, false),
        11 => (4, false),
        12 => (5, false),
        13 => (gen::range_usize(u, 2, 5), true),
        14 => (gen::range_usize(u, 6, 15), true),
        _ => (gen::range_usize(u, 16, 31), true),
    };
    g.force_composite = d > 0;
    gen_type_at(u, d, spine, g)
}

// ------------------------------------------------------------------------------------------
// Type inspection helpers

pub fn fields_types(f: &Fields) -> Vec<&Type> {
    match f {
        Fields::Named(v) => v.iter().map(|(_, t)| t).collect(),
        Fields::Unnamed(v) => v.iter().collect(),
        Fields::None => Vec::new(),
    }
}

pub fn depth(ty: &Type) -> usize {
    fn fd(f: &Fields) -> usize { fields_types(f).into_iter().map(depth).max().unwrap_or(0) }
    1 + match ty {
        Type::Pair(a, b) => depth(a).max(depth(b)),
        Type::List(_, t) | Type::Set(_, t) | Type::Array(_, t) => depth(t),
        Type::Map(_, k, v) => depth(k).max(depth(v)),
        Type::Struct(f) => fd(f),
        Type::Enum(vs) => vs.iter().map(|(_, f)| fd(f)).max().unwrap_or(0),
        Type::TaggedEnum(vs) => vs.values().map(|(_, f)| fd(f)).max().unwrap_or(0),
        _ => 0,
    }
}

pub fn ctor_name(ty: &Type) -> &'static str {
    match ty {
        Type::Unit => "Unit",
        Type::Bool => "Bool",
        Type::U8 => "U8",
        Type::U16 => "U16",
        Type::U32 => "U32",
        Type::U64 => "U64",
        Type::U128 => "U128",
        Type::I8 => "I8",
        Type::I16 => "I16",
        Type::I32 => "I32",
        Type::I64 => "I64",
        Type::I128 => "I128",
        Type::Amount => "Amount",
        Type::AccountAddress => "AccountAddress",
        Type::ContractAddress => "ContractAddress",
        Type::Timestamp => "Timestamp",
        Type::Duration => "Duration",
        Type::Pair(..) => "Pair",
        Type::List(..) => "List",
        Type::Set(..) => "Set",
        Type::Map(..) => "Map",
        Type::Array(..) => "Array",
        Type::Struct(Fields::Named(_)) => "Struct-named",
        Type::Struct(Fields::Unnamed(_)) => "Struct-unnamed",
        Type::Struct(Fields::None) => "Struct-none",
        Type::Enum(v) if v.len() > 256 => "Enum-u16",
        Type::Enum(_) => "Enum",
        Type::String(_) => "String",
        Type::ContractName(_) => "ContractName",
        Type::ReceiveName(_) => "ReceiveName",
        Type::ULeb128(_) => "ULeb128",
        Type::ILeb128(_) => "ILeb128",
        Type::ByteList(_) => "ByteList",
        Type::ByteArray(_) => "ByteArray",
        Type::TaggedEnum(_) => "TaggedEnum",
    }
}

/// Visit every type node.
pub fn walk_types<'a>(ty: &'a Type, f: &mut dyn FnMut(&'a Type)) {
    f(ty);
    match ty {
        Type::Pair(a, b) => {
            walk_types(a, f);
            walk_types(b, f);
        }
        Type::List(_, t) | Type::Set(_, t) | Type::Array(_, t) => walk_types(t, f),
        Type::Map(_, k, v) => {
            walk_types(k, f);
            walk_types(v, f);
        }
        Type::Struct(fs) => {
            for t in fields_types(fs) {
                walk_types(t, f);
            }
        }
        Type::Enum(vs) => {
            for (_, fs) in vs {
                for t in fields_types(fs) {
                    walk_types(t, f);
                }
            }
        }
        Type::TaggedEnum(vs) => {
            for (_, fs) in vs.values() {
                for t in fields_types(fs) {
                    walk_types(t, f);
                }
            }
        }
        _ => {}
    }
}

pub fn has_collection_or_enum(ty: &Type) -> bool {
    let mut r = false;
    walk_types(ty, &mut |t| {
        if matches!(t, Type::List(..) | Type::Set(..) | Type::Map(..) | Type::Array(..) | Type::Enum(_) | Type::TaggedEnum(_)) {
            r = true;
        }
    });
    r
}

/// Does every value of this type serialise to zero bytes?
pub fn zero_width(ty: &Type) -> bool {
    fn fz(f: &Fields) -> bool { fields_types(f).into_iter().all(zero_width) }
    match ty {
        Type::Unit => true,
        Type::Pair(a, b) => zero_width(a) && zero_width(b),
        Type::Array(n, t) => *n == 0 || zero_width(t),
        Type::Struct(f) => fz(f),
        Type::ByteArray(0) => true,
        _ => false,
    }
}

/// Number of value nodes every value of the type has at least (variable-size collections count as
/// empty, enums as their largest variant).
pub fn mandatory_nodes(ty: &Type) -> u64 {
    fn fz(f: &Fields) -> u64 { fields_types(f).into_iter().map(mandatory_nodes).fold(0u64, |a, b| a.saturating_add(b)) }
    1u64.saturating_add(match ty {
        Type::Pair(a, b) => mandatory_nodes(a).saturating_add(mandatory_nodes(b)),
        Type::Array(n, t) => (*n as u64).saturating_mul(mandatory_nodes(t)),
        Type::Struct(f) => fz(f),
        Type::Enum(vs) => vs.iter().map(|v| fz(&v.1)).max().unwrap_or(0),
        Type::TaggedEnum(vs) => vs.values().map(|(_, f)| fz(f)).max().unwrap_or(0),
        _ => 0,
    })
}

/// Upper bound on the number of JSON nodes a value of a zero-width type expands to.
pub fn zero_width_nodes(ty: &Type) -> u64 {
    fn fz(f: &Fields) -> u64 { fields_types(f).into_iter().map(zero_width_nodes).fold(0u64, |a, b| a.saturating_add(b)) }
    1u64.saturating_add(match ty {
        Type::Pair(a, b) => zero_width_nodes(a).saturating_add(zero_width_nodes(b)),
        Type::Array(n, t) => (*n as u64).saturating_mul(zero_width_nodes(t)),
        Type::Struct(f) => fz(f),
        _ => 0,
    })
}

// ------------------------------------------------------------------------------------------
// Values

pub struct ValGen {
    /// Remaining budget of value nodes.
    pub budget:   isize,
    /// Allow timestamps from year 10000 on (observation A1).
    pub ts_edge:  bool,
    /// Allow timestamps whose i64 cast is negative (observation A2); bytes-first target only.
    pub ts_wrap:  bool,
    /// Allow the 65535-element / 65535-byte classes.
    pub allow_big: bool,
}

pub fn gen_uint(u: &mut Unstructured, bits: u32) -> u128 {
    let max = if bits == 128 { u128::MAX } else { (1u128 << bits) - 1 };
    match gen::idx(u, 10) {
        0 => 0,
        1 => 1,
        2 => max,
        3 => max - 1,
        4 => 1u128 << (gen::byte(u) as u32 % bits),
        5 => (1u128 << (gen::byte(u) as u32 % bits)) - 1,
        6 => gen::byte(u) as u128 & max,
        _ => u128::from_le_bytes(gen::array::<16>(u)) & max,
    }
}

pub fn gen_int(u: &mut Unstructured, bits: u32) -> i128 {
    let max = if bits == 128 { i128::MAX } else { (1i128 << (bits - 1)) - 1 };
    let min = -max - 1;
    match gen::idx(u, 12) {
        0 => 0,
        1 => 1,
        2 => -1,
        3 => min,
        4 => max,
        5 => min + 1,
        6 => max - 1,
        7 => {
            let k = gen::byte(u) as u32 % (bits - 1);
            1i128 << k
        }
        8 => {
            let k = gen::byte(u) as u32 % (bits - 1);
            -(1i128 << k)
        }
        9 => (gen::byte(u) as i8) as i128,
        _ => {
            let raw = i128::from_le_bytes(gen::array::<16>(u));
            if bits == 128 {
                raw
            } else {
                // sign-extend the low `bits` bits
                (raw << (128 - bits)) >> (128 - bits)
            }
        }
    }
}

const TS_TABLE: &[u64] = &[
    0,
    1,
    999,
    1000,
    86_399_999,
    86_400_000,
    68_255_999_999,       // 1972-02-29T23:59:59.999 (first leap day after the epoch)
    946_684_799_999,      // 1999-12-31T23:59:59.999
    946_684_800_000,      // 2000-01-01
    951_782_400_000,      // 2000-02-29
    1_709_164_800_000,    // 2024-02-29
    2_147_483_647_000,    // 2038-01-19T03:14:07
    2_147_483_648_000,
    4_107_542_399_999,    // 2100-02-28T23:59:59.999
    4_107_542_400_000,    // 2100-03-01 (2100 is not a leap year)
    32_503_679_999_999,   // 2999-12-31T23:59:59.999
    253_402_300_799_999,  // 9999-12-31T23:59:59.999
];
const TS_EDGE_TABLE: &[u64] = &[
    YEAR_10000_MS,
    YEAR_10000_MS + 1,
    CHRONO_MAX_MS,
    CHRONO_MAX_MS + 1,
    i64::MAX as u64,
    1u64 << 63,
    u64::MAX - CHRONO_MIN_ABS_MS,
    u64::MAX - CHRONO_MIN_ABS_MS + 1,
    u64::MAX - 1000,
    u64::MAX,
];

pub fn gen_timestamp(u: &mut Unstructured, g: &ValGen) -> u64 {
    let v = match gen::idx(u, 8) {
        0..=2 => TS_TABLE[gen::idx(u, TS_TABLE.len())],
        3 => gen::range_u64(u, 0, YEAR_10000_MS - 1),
        4 => gen::range_u64(u, 1_500_000_000_000, 1_900_000_000_000),
        5 if g.ts_edge => TS_EDGE_TABLE[gen::idx(u, TS_EDGE_TABLE.len())],
        6 if g.ts_edge => gen_uint(u, 64) as u64,
        // representable nowhere as a date: rendered as decimal milliseconds
        7 => gen::range_u64(u, REGION1_END_MS + 1, u64::MAX - REGION2_WIDTH_MS - 1),
        _ => gen::range_u64(u, 0, 4_102_444_800_000),
    };
    if (!g.ts_edge && ts_in_defect_region(v)) || (!g.ts_wrap && ts_wraps_negative(v)) {
        0
    } else {
        v
    }
}

const CHARS: &[char] = &['a', 'Z', '0', ' ', '"', '\\', '\n', '\0', '/', 'é', 'ß', '漢', '😀', '\u{7f}', '\u{80}', '\u{ffff}', '\u{10ffff}', '\u{2028}'];

/// A string of exactly `n` UTF-8 bytes.
pub fn gen_string_of_len(u: &mut Unstructured, n: usize) -> String {
    let mut s = String::with_capacity(n);
    let ascii_only = gen::boolean(u);
    if n > 64 {
        // long strings: a short random head, then a repeating fill
        let head = gen_string_of_len(u, 16.min(n));
        s.push_str(&head);
        if ascii_only {
            while s.len() < n {
                s.push('x');
            }
        } else {
            // multi-byte characters at every alignment: an ASCII shift of 0..3 bytes, then a cycle of
            // 2-, 3- and 4-byte characters (period 9 bytes), so that characters straddle every kind of
            // chunk boundary of the readers
            let sel = gen::byte(u);
            for _ in 0..(sel % 4) {
                if s.len() < n {
                    s.push('y');
                }
            }
            let fills: &[&str] = match (sel >> 2) % 3 {
                0 => &["ö"],
                1 => &["ö", "€", "😀"],
                _ => &["€"],
            };
            let mut i = 0;
            while s.len() + fills[i % fills.len()].len() <= n {
                s.push_str(fills[i % fills.len()]);
                i += 1;
            }
        }
    } else {
        while s.len() < n {
            let c = if ascii_only { (b' ' + gen::byte(u) % 95) as char } else { CHARS[gen::idx(u, CHARS.len())] };
            if s.len() + c.len_utf8() <= n {
                s.push(c);
            } else {
                s.push('a');
            }
        }
    }
    while s.len() < n {
        s.push('a');
    }
    debug_assert_eq!(s.len(), n);
    s
}

/// Length class for strings / byte lists.
fn gen_bytes_len(u: &mut Unstructured, sl: SizeLength, g: &mut ValGen) -> usize {
    let n = match gen::idx(u, 32) {
        0..=3 => 0,
        4..=7 => 1,
        8..=23 => gen::range_usize(u, 0, 12),
        24..=26 => gen::range_usize(u, 0, 300),
        27 => 255,
        28 => 256,
        29 if g.allow_big => {
            g.budget = g.budget.min(40);
            65535
        }
        30 if g.allow_big => {
            g.budget = g.budget.min(40);
            65536
        }
        31 if g.allow_big => {
            g.budget = g.budget.min(40);
            // around the 4096-byte pre-allocation limit of the readers
            [4095, 4096, 4097, 4160, 5000][gen::idx(u, 5)]
        }
        _ => gen::range_usize(u, 0, 40),
    };
    (n as u64).min(sl_max(sl)) as usize
}

const NAME_CHARS: &[u8] = b"abcXYZ019_-!#$%&'()*+,/:;<=>?@[\\]^`{|}~\"";

fn gen_name_part(u: &mut Unstructured, n: usize, allow_dot: bool) -> String {
    let mut s = String::with_capacity(n);
    for i in 0..n {
        let c = if i >= 12 {
            b'n'
        } else if allow_dot && gen::ratio(u, 1, 8) {
            b'.'
        } else {
            NAME_CHARS[gen::idx(u, NAME_CHARS.len())]
        };
        s.push(c as char);
    }
    s
}

pub fn pow2(k: u32) -> BigInt { BigInt::one() << (k as usize) }

/// An unsigned integer needing exactly `k >= 1` LEB128 groups.
pub fn gen_uleb_value(u: &mut Unstructured, k: u32) -> BigInt {
    let lo = if k == 1 { BigInt::zero() } else { pow2(7 * (k - 1)) };
    let hi = pow2(7 * k) - 1;
    pick_between(u, lo, hi)
}

/// A signed integer needing exactly `k >= 1` signed-LEB128 groups.
pub fn gen_ileb_value(u: &mut Unstructured, k: u32) -> BigInt {
    let neg = gen::boolean(u);
    if neg {
        let lo = -pow2(7 * k - 1);
        let hi = if k == 1 { BigInt::from(-1) } else { -pow2(7 * (k - 1) - 1) - 1 };
        pick_between(u, lo, hi)
    } else {
        let lo = if k == 1 { BigInt::zero() } else { pow2(7 * (k - 1) - 1) };
        let hi = pow2(7 * k - 1) - 1;
        pick_between(u, lo, hi)
    }
}

fn pick_between(u: &mut Unstructured, lo: BigInt, hi: BigInt) -> BigInt {
    match gen::idx(u, 6) {
        0 => lo,
        1 => hi,
        2 => {
            if lo < hi {
                lo + 1
            } else {
                lo
            }
        }
        3 => {
            if lo < hi {
                hi - 1
            } else {
                hi
            }
        }
        _ => {
            let span = &hi - &lo + 1;
            let raw = num_bigint::BigUint::from_bytes_le(&gen::bytes(u, 40));
            lo + BigInt::from(raw) % span
        }
    }
}

fn gen_leb_groups(u: &mut Unstructured, c: u32) -> u32 {
    if c == 0 {
        return 1;
    }
    match gen::idx(u, 6) {
        0 | 1 => 1,
        2 | 3 => c,
        _ => gen::range_u64(u, 1, c as u64) as u32,
    }
}

fn gen_count(u: &mut Unstructured, sl: SizeLength, elem_zero_width: bool, elem_leaf: bool, g: &mut ValGen) -> usize {
    let n = match gen::idx(u, 32) {
        0..=5 => 0,
        6..=11 => 1,
        12..=23 => gen::range_usize(u, 2, 4),
        24..=26 => gen::range_usize(u, 5, 20),
        27 if elem_leaf => 255,
        28 if elem_leaf => 256,
        29 if elem_leaf => gen::range_usize(u, 250, 300),
        30 if elem_zero_width && g.allow_big => 65535,
        31 if elem_zero_width && g.allow_big => 65536,
        _ => gen::range_usize(u, 0, 3),
    };
    (n as u64).min(sl_max(sl)) as usize
}

fn is_leaf(ty: &Type) -> bool {
    !matches!(
        ty,
        Type::Pair(..) | Type::List(..) | Type::Set(..) | Type::Map(..) | Type::Array(..) | Type::Struct(_) | Type::Enum(_) | Type::TaggedEnum(_)
    )
}

pub fn gen_fields_val(u: &mut Unstructured, f: &Fields, g: &mut ValGen) -> Vec<Val> {
    fields_types(f).into_iter().map(|t| gen_val(u, t, g)).collect()
}

/// A conforming value of `ty` (for uninhabited types: a placeholder whose encoding is invalid).
pub fn gen_val(u: &mut Unstructured, ty: &Type, g: &mut ValGen) -> Val {
    g.budget -= 1;
    let exhausted = g.budget <= 0;
    match ty {
        Type::Unit => Val::Unit,
        Type::Bool => Val::Bool(gen::boolean(u)),
        Type::U8 => Val::U(gen_uint(u, 8)),
        Type::U16 => Val::U(gen_uint(u, 16)),
        Type::U32 => Val::U(gen_uint(u, 32)),
        Type::U64 | Type::Amount | Type::Duration => Val::U(gen_uint(u, 64)),
        Type::U128 => Val::U(gen_uint(u, 128)),
        Type::I8 => Val::I(gen_int(u, 8)),
        Type::I16 => Val::I(gen_int(u, 16)),
        Type::I32 => Val::I(gen_int(u, 32)),
        Type::I64 => Val::I(gen_int(u, 64)),
        Type::I128 => Val::I(gen_int(u, 128)),
        Type::Timestamp => Val::U(gen_timestamp(u, g) as u128),
        Type::AccountAddress => Val::Account(match gen::idx(u, 4) {
            0 => [0u8; 32],
            1 => [0xff; 32],
            _ => gen::array::<32>(u),
        }),
        Type::ContractAddress => {
            let index = gen_uint(u, 64) as u64;
            let sub = if gen::ratio(u, 2, 3) { 0 } else { gen_uint(u, 64) as u64 };
            Val::Contract(index, sub)
        }
        Type::Pair(a, b) => {
            let x = gen_val(u, a, g);
            let y = gen_val(u, b, g);
            Val::Pair(Box::new(x), Box::new(y))
        }
        Type::List(sl, t) => {
            let n = if exhausted { 0 } else { gen_count(u, *sl, zero_width(t), is_leaf(t), g) };
            Val::Seq(gen_elems(u, t, n, g))
        }
        Type::Set(sl, t) => {
            let n = if exhausted { 0 } else { gen_count(u, *sl, false, is_leaf(t), g) };
            let mut v = gen_elems(u, t, n, g);
            v.sort();
            v.dedup();
            Val::Seq(v)
        }
        Type::Map(sl, k, v) => {
            let n = if exhausted { 0 } else { gen_count(u, *sl, false, is_leaf(k) && is_leaf(v), g) };
            let mut m: BTreeMap<Val, Val> = BTreeMap::new();
            for _ in 0..n {
                if g.budget < -2000 {
                    break;
                }
                let kk = gen_val(u, k, g);
                let vv = gen_val(u, v, g);
                m.insert(kk, vv);
            }
            Val::Map(m.into_iter().collect())
        }
        Type::Array(n, t) => Val::Seq((0..*n).map(|_| gen_val(u, t, g)).collect()),
        Type::Struct(f) => Val::Fields(gen_fields_val(u, f, g)),
        Type::Enum(vs) => {
            if vs.is_empty() {
                return Val::Variant(0, vec![]);
            }
            let i = match gen::idx(u, 4) {
                0 => 0,
                1 => vs.len() - 1,
                _ => gen::idx(u, vs.len()),
            };
            Val::Variant(i as u32, gen_fields_val(u, &vs[i].1, g))
        }
        Type::TaggedEnum(vs) => {
            if vs.is_empty() {
                return Val::Variant(0, vec![]);
            }
            let i = gen::idx(u, vs.len());
            let (tag, (_, f)) = vs.iter().nth(i).unwrap();
            Val::Variant(*tag as u32, gen_fields_val(u, f, g))
        }
        Type::String(sl) => {
            let n = if exhausted { 0 } else { gen_bytes_len(u, *sl, g) };
            Val::Str(gen_string_of_len(u, n))
        }
        Type::ContractName(sl) => {
            // "init_" + name must fit both the 100 byte limit and the size length
            let max = (sl_max(*sl).min(100) as usize).saturating_sub(5);
            let n = match gen::idx(u, 6) {
                0 => 0,
                1 => max,
                _ => gen::range_usize(u, 1, 10.min(max)),
            };
            Val::CName(gen_name_part(u, n, false))
        }
        Type::ReceiveName(sl) => {
            // total <= 100 bytes, and the contract part must be a valid contract name, i.e.
            // "init_" + contract <= 100 bytes
            let max = (sl_max(*sl).min(100) as usize).saturating_sub(1);
            let (nc, nf) = match gen::idx(u, 6) {
                0 => (0, 0),
                1 => {
                    let c = gen::range_usize(u, 0, max.min(95));
                    (c, max - c)
                }
                _ => (gen::range_usize(u, 1, 8), gen::range_usize(u, 1, 8)),
            };
            Val::RName(gen_name_part(u, nc, false), gen_name_part(u, nf, true))
        }
        Type::ULeb128(c) => {
            let k = gen_leb_groups(u, *c);
            Val::Big(gen_uleb_value(u, k))
        }
        Type::ILeb128(c) => {
            let k = gen_leb_groups(u, *c);
            Val::Big(gen_ileb_value(u, k))
        }
        Type::ByteList(sl) => {
            let n = if exhausted { 0 } else { gen_bytes_len(u, *sl, g) };
            Val::Bytes(gen_byte_content(u, n))
        }
        Type::ByteArray(n) => Val::Bytes(gen_byte_content(u, *n as usize)),
    }
}

fn gen_byte_content(u: &mut Unstructured, n: usize) -> Vec<u8> {
    if n > 64 {
        let mut v = gen::bytes(u, 16);
        v.resize(n, gen::byte(u));
        v
    } else {
        gen::bytes(u, n)
    }
}

fn gen_elems(u: &mut Unstructured, t: &Type, n: usize, g: &mut ValGen) -> Vec<Val> {
    let mut v = Vec::with_capacity(n.min(1024));
    if zero_width(t) && is_leaf(t) {
        // all values of a zero-width leaf are equal; do not spend the budget on them
        let x = gen_val(u, t, g);
        v.resize(n, x);
        return v;
    }
    for _ in 0..n {
        if g.budget < -2000 {
            break;
        }
        v.push(gen_val(u, t, g));
    }
    v
}

/// Smallest conforming value (used by the mutation generator to build over-long collections).
pub fn default_val(ty: &Type) -> Val {
    let mut u = Unstructured::new(&[]);
    let mut g = ValGen { budget: 0, ts_edge: false, ts_wrap: false, allow_big: false };
    gen_val(&mut u, ty, &mut g)
}
