//! Our own AST of the integer subset of WebAssembly 1.0 (+ sign-extension operators).
//! Function bodies are flat instruction sequences (with `Block/Loop/If/Else/End` tokens), which
//! is what the binary format, the spec's validation algorithm and instruction-level mutation all
//! work on. Shares no code with `/repo`.

#[derive(Debug, Clone, Copy, PartialEq, Eq, Hash, PartialOrd, Ord)]
pub enum ValType {
    I32,
    I64,
}

impl ValType {
    pub fn byte(self) -> u8 {
        match self {
            ValType::I32 => 0x7f,
            ValType::I64 => 0x7e,
        }
    }
}

#[derive(Debug, Clone, PartialEq, Eq, Hash)]
pub struct FuncType {
    pub params: Vec<ValType>,
    pub result: Option<ValType>,
}

#[derive(Debug, Clone, Copy, PartialEq, Eq, Hash)]
pub enum BlockType {
    Empty,
    Val(ValType),
}

impl BlockType {
    pub fn arity(self) -> usize {
        match self {
            BlockType::Empty => 0,
            BlockType::Val(_) => 1,
        }
    }

    pub fn from_opt(o: Option<ValType>) -> Self {
        match o {
            None => BlockType::Empty,
            Some(t) => BlockType::Val(t),
        }
    }
}

macro_rules! numops {
    ($( $name:ident = $byte:expr, [$($inp:ident),*] -> $out:ident ;)*) => {
        /// Numeric instructions (tests, comparisons, unary, binary, conversions).
        #[derive(Debug, Clone, Copy, PartialEq, Eq, Hash)]
        #[allow(clippy::upper_case_acronyms)]
        pub enum NumOp { $($name),* }
        impl NumOp {
            pub const ALL: &'static [NumOp] = &[$(NumOp::$name),*];
            pub fn byte(self) -> u8 { match self { $(NumOp::$name => $byte),* } }
            pub fn inputs(self) -> &'static [ValType] { match self { $(NumOp::$name => &[$(ValType::$inp),*]),* } }
            pub fn output(self) -> ValType { match self { $(NumOp::$name => ValType::$out),* } }
            pub fn from_byte(b: u8) -> Option<NumOp> { match b { $($byte => Some(NumOp::$name),)* _ => None } }
            pub fn name(self) -> &'static str { match self { $(NumOp::$name => stringify!($name)),* } }
        }
    }
}

numops! {
    I32Eqz = 0x45, [I32] -> I32;
    I32Eq = 0x46, [I32, I32] -> I32;
    I32Ne = 0x47, [I32, I32] -> I32;
    I32LtS = 0x48, [I32, I32] -> I32;
    I32LtU = 0x49, [I32, I32] -> I32;
    I32GtS = 0x4a, [I32, I32] -> I32;
    I32GtU = 0x4b, [I32, I32] -> I32;
    I32LeS = 0x4c, [I32, I32] -> I32;
    I32LeU = 0x4d, [I32, I32] -> I32;
    I32GeS = 0x4e, [I32, I32] -> I32;
    I32GeU = 0x4f, [I32, I32] -> I32;
    I64Eqz = 0x50, [I64] -> I32;
    I64Eq = 0x51, [I64, I64] -> I32;
    I64Ne = 0x52, [I64, I64] -> I32;
    I64LtS = 0x53, [I64, I64] -> I32;
    I64LtU = 0x54, [I64, I64] -> I32;
    I64GtS = 0x55, [I64, I64] -> I32;
    I64GtU = 0x56, [I64, I64] -> I32;
    I64LeS = 0x57, [I64, I64] -> I32;
    I64LeU = 0x58, [I64, I64] -> I32;
    I64GeS = 0x59, [I64, I64] -> I32;
    I64GeU = 0x5a, [I64, I64] -> I32;
    I32Clz = 0x67, [I32] -> I32;
    I32Ctz = 0x68, [I32] -> I32;
    I32Popcnt = 0x69, [I32] -> I32;
    I32Add = 0x6a, [I32, I32] -> I32;
    I32Sub = 0x6b, [I32, I32] -> I32;
    I32Mul = 0x6c, [I32, I32] -> I32;
    I32DivS = 0x6d, [I32, I32] -> I32;
    I32DivU = 0x6e, [I32, I32] -> I32;
    I32RemS = 0x6f, [I32, I32] -> I32;
    I32RemU = 0x70, [I32, I32] -> I32;
    I32And = 0x71, [I32, I32] -> I32;
    I32Or = 0x72, [I32, I32] -> I32;
    I32Xor = 0x73, [I32, I32] -> I32;
    I32Shl = 0x74, [I32, I32] -> I32;
    I32ShrS = 0x75, [I32, I32] -> I32;
    I32ShrU = 0x76, [I32, I32] -> I32;
    I32Rotl = 0x77, [I32, I32] -> I32;
    I32Rotr = 0x78, [I32, I32] -> I32;
    I64Clz = 0x79, [I64] -> I64;
    I64Ctz = 0x7a, [I64] -> I64;
    I64Popcnt = 0x7b, [I64] -> I64;
    I64Add = 0x7c, [I64, I64] -> I64;
    I64Sub = 0x7d, [I64, I64] -> I64;
    I64Mul = 0x7e, [I64, I64] -> I64;
    I64DivS = 0x7f, [I64, I64] -> I64;
    I64DivU = 0x80, [I64, I64] -> I64;
    I64RemS = 0x81, [I64, I64] -> I64;
    I64RemU = 0x82, [I64, I64] -> I64;
    I64And = 0x83, [I64, I64] -> I64;
    I64Or = 0x84, [I64, I64] -> I64;
    I64Xor = 0x85, [I64, I64] -> I64;
    I64Shl = 0x86, [I64, I64] -> I64;
    I64ShrS = 0x87, [I64, I64] -> I64;
    I64ShrU = 0x88, [I64, I64] -> I64;
    I64Rotl = 0x89, [I64, I64] -> I64;
    I64Rotr = 0x8a, [I64, I64] -> I64;
    I32WrapI64 = 0xa7, [I64] -> I32;
    I64ExtendI32S = 0xac, [I32] -> I64;
    I64ExtendI32U = 0xad, [I32] -> I64;
    I32Extend8S = 0xc0, [I32] -> I32;
    I32Extend16S = 0xc1, [I32] -> I32;
    I64Extend8S = 0xc2, [I64] -> I64;
    I64Extend16S = 0xc3, [I64] -> I64;
    I64Extend32S = 0xc4, [I64] -> I64;
}

impl NumOp {
    pub fn is_sign_extension(self) -> bool { (0xc0..=0xc4).contains(&self.byte()) }
}

macro_rules! memops {
    ($( $name:ident = $byte:expr, $ty:ident, $width:expr, $store:expr, $signed:expr ;)*) => {
        /// Memory loads and stores: value type, access width in bytes, store?, sign-extending load?
        #[derive(Debug, Clone, Copy, PartialEq, Eq, Hash)]
        pub enum MemOp { $($name),* }
        impl MemOp {
            pub const ALL: &'static [MemOp] = &[$(MemOp::$name),*];
            pub fn byte(self) -> u8 { match self { $(MemOp::$name => $byte),* } }
            pub fn ty(self) -> ValType { match self { $(MemOp::$name => ValType::$ty),* } }
            pub fn width(self) -> u32 { match self { $(MemOp::$name => $width),* } }
            pub fn is_store(self) -> bool { match self { $(MemOp::$name => $store),* } }
            pub fn signed(self) -> bool { match self { $(MemOp::$name => $signed),* } }
            pub fn from_byte(b: u8) -> Option<MemOp> { match b { $($byte => Some(MemOp::$name),)* _ => None } }
            pub fn name(self) -> &'static str { match self { $(MemOp::$name => stringify!($name)),* } }
        }
    }
}

memops! {
    I32Load = 0x28, I32, 4, false, false;
    I64Load = 0x29, I64, 8, false, false;
    I32Load8S = 0x2c, I32, 1, false, true;
    I32Load8U = 0x2d, I32, 1, false, false;
    I32Load16S = 0x2e, I32, 2, false, true;
    I32Load16U = 0x2f, I32, 2, false, false;
    I64Load8S = 0x30, I64, 1, false, true;
    I64Load8U = 0x31, I64, 1, false, false;
    I64Load16S = 0x32, I64, 2, false, true;
    I64Load16U = 0x33, I64, 2, false, false;
    I64Load32S = 0x34, I64, 4, false, true;
    I64Load32U = 0x35, I64, 4, false, false;
    I32Store = 0x36, I32, 4, true, false;
    I64Store = 0x37, I64, 8, true, false;
    I32Store8 = 0x3a, I32, 1, true, false;
    I32Store16 = 0x3b, I32, 2, true, false;
    I64Store8 = 0x3c, I64, 1, true, false;
    I64Store16 = 0x3d, I64, 2, true, false;
    I64Store32 = 0x3e, I64, 4, true, false;
}

impl MemOp {
    /// Largest alignment exponent accepted (natural alignment).
    pub fn max_align(self) -> u32 {
        match self.width() {
            1 => 0,
            2 => 1,
            4 => 2,
            _ => 3,
        }
    }
}

#[derive(Debug, Clone, PartialEq, Eq, Hash)]
pub enum Op {
    Unreachable,
    Nop,
    Block(BlockType),
    Loop(BlockType),
    If(BlockType),
    Else,
    End,
    Br(u32),
    BrIf(u32),
    BrTable(Vec<u32>, u32),
    Return,
    Call(u32),
    CallIndirect(u32),
    Drop,
    Select,
    LocalGet(u32),
    LocalSet(u32),
    LocalTee(u32),
    GlobalGet(u32),
    GlobalSet(u32),
    Mem { op: MemOp, align: u32, offset: u32 },
    MemorySize,
    MemoryGrow,
    I32Const(i32),
    I64Const(i64),
    Num(NumOp),
    /// Raw bytes injected verbatim into the body (only used by mutation operators: float
    /// opcodes, unknown opcodes, malformed immediates). Never produced by the valid generator.
    Raw(Vec<u8>),
}

#[derive(Debug, Clone, PartialEq, Eq, Hash)]
pub struct Func {
    pub ty: u32,
    /// Declared locals as (multiplicity, type) groups, as in the binary format.
    pub locals: Vec<(u32, ValType)>,
    pub body: Vec<Op>,
}

impl Func {
    pub fn num_declared_locals(&self) -> u64 { self.locals.iter().map(|(n, _)| *n as u64).sum() }
}

#[derive(Debug, Clone, PartialEq, Eq, Hash)]
pub struct Import {
    pub module: String,
    pub name: String,
    pub ty: u32,
}

#[derive(Debug, Clone, Copy, PartialEq, Eq, Hash)]
pub struct Limits {
    pub min: u32,
    pub max: Option<u32>,
}

#[derive(Debug, Clone, Copy, PartialEq, Eq, Hash)]
pub enum ConstExpr {
    I32(i32),
    I64(i64),
    GlobalGet(u32),
}

#[derive(Debug, Clone, PartialEq, Eq, Hash)]
pub struct Global {
    pub ty: ValType,
    pub mutable: bool,
    pub init: ConstExpr,
}

#[derive(Debug, Clone, PartialEq, Eq, Hash)]
pub enum ExportKind {
    Func(u32),
    Table(u32),
    Memory(u32),
    Global(u32),
}

#[derive(Debug, Clone, PartialEq, Eq, Hash)]
pub struct Export {
    pub name: String,
    pub kind: ExportKind,
}

#[derive(Debug, Clone, PartialEq, Eq, Hash)]
pub struct Elem {
    pub offset: ConstExpr,
    pub funcs: Vec<u32>,
}

#[derive(Debug, Clone, PartialEq, Eq, Hash)]
pub struct Data {
    pub offset: ConstExpr,
    pub bytes: Vec<u8>,
}

#[derive(Debug, Clone, PartialEq, Eq, Hash, Default)]
pub struct Module {
    pub types: Vec<FuncType>,
    pub imports: Vec<Import>,
    pub funcs: Vec<Func>,
    pub table: Option<Limits>,
    pub memory: Option<Limits>,
    pub globals: Vec<Global>,
    pub exports: Vec<Export>,
    pub start: Option<u32>,
    pub elems: Vec<Elem>,
    pub datas: Vec<Data>,
    /// Custom sections (name, payload), emitted before the type section.
    pub customs: Vec<(String, Vec<u8>)>,
}

impl Module {
    pub fn num_funcs(&self) -> usize { self.imports.len() + self.funcs.len() }

    /// Type of function `idx` in the joint (imports ++ defined) index space.
    pub fn func_type(&self, idx: u32) -> Option<&FuncType> {
        let i = idx as usize;
        let ty = if i < self.imports.len() {
            self.imports[i].ty
        } else {
            self.funcs.get(i - self.imports.len())?.ty
        };
        self.types.get(ty as usize)
    }

    pub fn exported_funcs(&self) -> Vec<(&str, u32)> {
        self.exports
            .iter()
            .filter_map(|e| match e.kind {
                ExportKind::Func(i) => Some((e.name.as_str(), i)),
                _ => None,
            })
            .collect()
    }

    pub fn instruction_count(&self) -> usize { self.funcs.iter().map(|f| f.body.len()).sum() }
}

/// WAT-like rendering for samples and replay descriptions.
pub fn pretty(m: &Module) -> String {
    use std::fmt::Write;
    let mut s = String::new();
    for (i, t) in m.types.iter().enumerate() {
        let _ = writeln!(s, "(type {} (func {:?} -> {:?}))", i, t.params, t.result);
    }
    for (i, im) in m.imports.iter().enumerate() {
        let _ = writeln!(s, "(import {} \"{}\" \"{}\" (type {}))", i, im.module, im.name, im.ty);
    }
    if let Some(t) = m.table {
        let _ = writeln!(s, "(table {} {:?})", t.min, t.max);
    }
    if let Some(t) = m.memory {
        let _ = writeln!(s, "(memory {} {:?})", t.min, t.max);
    }
    for (i, g) in m.globals.iter().enumerate() {
        let _ = writeln!(s, "(global {} {:?} mut={} {:?})", i, g.ty, g.mutable, g.init);
    }
    for e in &m.exports {
        let _ = writeln!(s, "(export \"{}\" {:?})", e.name, e.kind);
    }
    if let Some(st) = m.start {
        let _ = writeln!(s, "(start {})", st);
    }
    for e in &m.elems {
        let _ = writeln!(s, "(elem {:?} {:?})", e.offset, e.funcs);
    }
    for d in &m.datas {
        let _ = writeln!(s, "(data {:?} len={})", d.offset, d.bytes.len());
    }
    for (i, f) in m.funcs.iter().enumerate() {
        let _ = writeln!(s, "(func {} (type {}) (locals {:?})", i + m.imports.len(), f.ty, f.locals);
        let mut depth = 1usize;
        for op in &f.body {
            if matches!(op, Op::End | Op::Else) {
                depth = depth.saturating_sub(1);
            }
            let _ = writeln!(s, "{}{}", "  ".repeat(depth), pretty_op(op));
            if matches!(op, Op::Block(_) | Op::Loop(_) | Op::If(_) | Op::Else) {
                depth += 1;
            }
        }
        let _ = writeln!(s, ")");
    }
    s
}

pub fn pretty_op(op: &Op) -> String {
    match op {
        Op::Num(n) => n.name().to_string(),
        Op::Mem { op, align, offset } => format!("{} align={} offset={}", op.name(), align, offset),
        other => format!("{:?}", other),
    }
}
