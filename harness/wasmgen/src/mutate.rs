//! Mutation operators: AST level (the reference validator then decides the verdict of the mutant)
//! and byte level (truncation, bit flips, LEB128 damage, section reordering/duplication, count and
//! size inflation).
use crate::ast::*;
use vcore::gen as g;
use vcore::Unstructured;

fn rnd_op(u: &mut Unstructured, m: &Module, nlocals: u32) -> Op {
    let idx = |u: &mut Unstructured, n: u32| -> u32 {
        match g::byte(u) % 6 {
            0 => n,
            1 => n.wrapping_add(1),
            2 => u32::MAX,
            _ => {
                if n == 0 {
                    0
                } else {
                    g::range_u64(u, 0, n as u64 - 1) as u32
                }
            }
        }
    };
    let bt = |u: &mut Unstructured| match g::byte(u) % 3 {
        0 => BlockType::Empty,
        1 => BlockType::Val(ValType::I32),
        _ => BlockType::Val(ValType::I64),
    };
    match g::byte(u) % 28 {
        0 => Op::Unreachable,
        1 => Op::Nop,
        2 => Op::Block(bt(u)),
        3 => Op::Loop(bt(u)),
        4 => Op::If(bt(u)),
        5 => Op::Else,
        6 => Op::End,
        7 => Op::Br(g::range_u64(u, 0, 4) as u32),
        8 => Op::BrIf(g::range_u64(u, 0, 4) as u32),
        9 => {
            let n = g::range_usize(u, 0, 3);
            Op::BrTable((0..n).map(|_| g::range_u64(u, 0, 4) as u32).collect(), g::range_u64(u, 0, 4) as u32)
        }
        10 => Op::Return,
        11 => Op::Call(idx(u, m.num_funcs() as u32)),
        12 => Op::CallIndirect(idx(u, m.types.len() as u32)),
        13 => Op::Drop,
        14 => Op::Select,
        15 => Op::LocalGet(idx(u, nlocals)),
        16 => Op::LocalSet(idx(u, nlocals)),
        17 => Op::LocalTee(idx(u, nlocals)),
        18 => Op::GlobalGet(idx(u, m.globals.len() as u32)),
        19 => Op::GlobalSet(idx(u, m.globals.len() as u32)),
        20 => {
            let op = *g::choose(u, MemOp::ALL);
            let align = match g::byte(u) % 4 {
                0 => op.max_align() + 1,
                1 => u32::MAX,
                _ => g::range_u64(u, 0, op.max_align() as u64) as u32,
            };
            Op::Mem { op, align, offset: g::boundary_u32(u) }
        }
        21 => Op::MemorySize,
        22 => Op::MemoryGrow,
        23 => Op::I32Const(g::boundary_u32(u) as i32),
        24 => Op::I64Const(g::boundary_u64(u) as i64),
        25 | 26 => Op::Num(*g::choose(u, NumOp::ALL)),
        _ => {
            // bytes outside the supported instruction set
            let raw: &[&[u8]] = &[
                &[0x43, 0, 0, 0, 0],             // f32.const
                &[0x44, 0, 0, 0, 0, 0, 0, 0, 0], // f64.const
                &[0x92],                         // f32.add
                &[0xa8],                         // i32.trunc_f32_s
                &[0xb2],                         // f32.convert_i32_s
                &[0x2a, 0x02, 0x00],             // f32.load
                &[0x06],                         // reserved
                &[0xfc, 0x00],                   // saturating truncation prefix
                &[0xd0],                         // reference types
                &[0x12, 0x00],                   // return_call
                &[0x3f, 0x01],                   // memory.size with a non-zero index
                &[0x11, 0x00, 0x01],             // call_indirect with a non-zero table
                &[0x02, 0x7d],                   // block with f32 result
                &[0x02, 0x00],                   // block with a type index
            ];
            Op::Raw(g::choose(u, raw).to_vec())
        }
    }
}

/// Apply one random AST-level mutation; returns its name.
pub fn mutate_ast(u: &mut Unstructured, m: &mut Module) -> &'static str {
    let nf = m.funcs.len();
    let choice = g::byte(u) % 40;
    let fi = if nf > 0 { g::idx(u, nf) } else { 0 };
    match choice {
        0..=5 if nf > 0 => {
            let nl = m.types.get(m.funcs[fi].ty as usize).map(|t| t.params.len()).unwrap_or(0) as u32
                + m.funcs[fi].num_declared_locals() as u32;
            let op = rnd_op(u, m, nl);
            let f = &mut m.funcs[fi];
            let pos = g::idx(u, f.body.len().max(1));
            if pos < f.body.len() {
                f.body[pos] = op;
            }
            "replace-instr"
        }
        6..=9 if nf > 0 => {
            let nl = m.types.get(m.funcs[fi].ty as usize).map(|t| t.params.len()).unwrap_or(0) as u32
                + m.funcs[fi].num_declared_locals() as u32;
            let op = rnd_op(u, m, nl);
            let f = &mut m.funcs[fi];
            let pos = match g::byte(u) % 4 {
                0 => f.body.len(),
                1 => f.body.len().saturating_sub(1),
                _ => g::idx(u, f.body.len() + 1),
            };
            f.body.insert(pos.min(f.body.len()), op);
            "insert-instr"
        }
        10..=12 if nf > 0 => {
            let f = &mut m.funcs[fi];
            if !f.body.is_empty() {
                let pos = match g::byte(u) % 3 {
                    0 => f.body.len() - 1,
                    _ => g::idx(u, f.body.len()),
                };
                f.body.remove(pos);
            }
            "delete-instr"
        }
        13 if nf > 0 => {
            let f = &mut m.funcs[fi];
            if f.body.len() >= 2 {
                let pos = g::idx(u, f.body.len() - 1);
                f.body.swap(pos, pos + 1);
            }
            "swap-instrs"
        }
        14 if nf > 0 => {
            // retarget a branch / index
            let f = &mut m.funcs[fi];
            let cands: Vec<usize> = f
                .body
                .iter()
                .enumerate()
                .filter(|(_, o)| {
                    matches!(
                        o,
                        Op::Br(_)
                            | Op::BrIf(_)
                            | Op::LocalGet(_)
                            | Op::LocalSet(_)
                            | Op::LocalTee(_)
                            | Op::GlobalGet(_)
                            | Op::GlobalSet(_)
                            | Op::Call(_)
                            | Op::CallIndirect(_)
                    )
                })
                .map(|(i, _)| i)
                .collect();
            if !cands.is_empty() {
                let pos = *g::choose(u, &cands);
                let delta = match g::byte(u) % 4 {
                    0 => 1u32,
                    1 => u32::MAX, // -1
                    2 => 2,
                    _ => 1000,
                };
                match &mut f.body[pos] {
                    Op::Br(x)
                    | Op::BrIf(x)
                    | Op::LocalGet(x)
                    | Op::LocalSet(x)
                    | Op::LocalTee(x)
                    | Op::GlobalGet(x)
                    | Op::GlobalSet(x)
                    | Op::Call(x)
                    | Op::CallIndirect(x) => *x = x.wrapping_add(delta),
                    _ => {}
                }
            }
            "retarget-index"
        }
        15 if nf > 0 => {
            let f = &mut m.funcs[fi];
            let cands: Vec<usize> =
                f.body.iter().enumerate().filter(|(_, o)| matches!(o, Op::Block(_) | Op::Loop(_) | Op::If(_))).map(|(i, _)| i).collect();
            if !cands.is_empty() {
                let pos = *g::choose(u, &cands);
                let nb = match g::byte(u) % 3 {
                    0 => BlockType::Empty,
                    1 => BlockType::Val(ValType::I32),
                    _ => BlockType::Val(ValType::I64),
                };
                match &mut f.body[pos] {
                    Op::Block(b) | Op::Loop(b) | Op::If(b) => *b = nb,
                    _ => {}
                }
            }
            "change-blocktype"
        }
        16 if nf > 0 => {
            // locals at / beyond the limit
            let n = *g::choose(u, &[1000u32, 1020, 1023, 1024, 1025, 2000, u32::MAX]);
            let t = if g::boolean(u) { ValType::I32 } else { ValType::I64 };
            m.funcs[fi].locals.push((n, t));
            "many-locals"
        }
        17 if nf > 0 => {
            // deep operand stack: push k constants and drop them again at the start of the body
            let k = *g::choose(u, &[900usize, 1000, 1015, 1020, 1022, 1023, 1024, 1025, 1100]);
            let mut pre = Vec::with_capacity(2 * k);
            for _ in 0..k {
                pre.push(Op::I32Const(1));
            }
            for _ in 0..k {
                pre.push(Op::Drop);
            }
            let f = &mut m.funcs[fi];
            pre.append(&mut f.body);
            f.body = pre;
            "deep-stack"
        }
        18 if nf > 0 => {
            let k = *g::choose(u, &[4094usize, 4095, 4096, 4097, 5000]);
            let f = &mut m.funcs[fi];
            let pos = g::idx(u, f.body.len().max(1));
            // block; i32.const 0; br_table 0*k 0; end  (well-typed iff k within the limit)
            let seq =
                vec![Op::Block(BlockType::Empty), Op::I32Const(0), Op::BrTable(vec![0; k], 0), Op::End];
            let pos = pos.min(f.body.len().saturating_sub(1));
            for (i, o) in seq.into_iter().enumerate() {
                f.body.insert(pos + i, o);
            }
            "big-br-table"
        }
        19 => {
            m.start = Some(g::range_u64(u, 0, m.num_funcs() as u64) as u32);
            "start-section"
        }
        20 => {
            let min = *g::choose(u, &[0u32, 1, 31, 32, 33, 100, 65536, 65537]);
            let max = match g::byte(u) % 5 {
                0 => None,
                1 => Some(min),
                2 => Some(min.saturating_sub(1)),
                3 => Some(65536),
                _ => Some(65537),
            };
            m.memory = Some(Limits { min, max });
            "memory-limits"
        }
        21 => {
            let min = *g::choose(u, &[0u32, 1, 999, 1000, 1001, 5000]);
            let max = match g::byte(u) % 4 {
                0 => None,
                1 => Some(min),
                2 => Some(min.saturating_sub(1)),
                _ => Some(u32::MAX),
            };
            m.table = Some(Limits { min, max });
            "table-limits"
        }
        22 => {
            m.memory = None;
            "remove-memory"
        }
        23 => {
            m.table = None;
            "remove-table"
        }
        24 => {
            if let Some(e) = m.exports.first().cloned() {
                let mut e2 = e;
                if g::boolean(u) {
                    e2.kind = ExportKind::Func(g::range_u64(u, 0, m.num_funcs() as u64 + 1) as u32);
                }
                m.exports.push(e2);
            }
            "duplicate-export"
        }
        25 => {
            let name = match g::byte(u) % 7 {
                0 => "x".repeat(99),
                1 => "x".repeat(100),
                2 => "x".repeat(101),
                3 => "x".repeat(512),
                4 => "x".repeat(513),
                5 => "näme".to_string(),
                _ => String::new(),
            };
            let kind = match g::byte(u) % 5 {
                0 => ExportKind::Table(g::range_u64(u, 0, 1) as u32),
                1 => ExportKind::Memory(g::range_u64(u, 0, 1) as u32),
                2 => ExportKind::Global(g::range_u64(u, 0, m.globals.len() as u64 + 1) as u32),
                _ => ExportKind::Func(g::range_u64(u, 0, m.num_funcs() as u64 + 1) as u32),
            };
            m.exports.push(Export { name, kind });
            "add-export"
        }
        26 => {
            let k = *g::choose(u, &[95usize, 99, 100, 101, 110]);
            while m.exports.len() < k {
                let i = m.exports.len();
                m.exports.push(Export { name: format!("e{}", i), kind: ExportKind::Func(0) });
            }
            "many-exports"
        }
        27 => {
            let k = *g::choose(u, &[1000usize, 1023, 1024, 1025, 1100]);
            while m.globals.len() < k {
                m.globals.push(Global { ty: ValType::I32, mutable: false, init: ConstExpr::I32(0) });
            }
            "many-globals"
        }
        28 => {
            let ty = if g::boolean(u) { ValType::I32 } else { ValType::I64 };
            let init = match g::byte(u) % 3 {
                0 => ConstExpr::I32(1),
                1 => ConstExpr::I64(1),
                _ => ConstExpr::GlobalGet(g::range_u64(u, 0, m.globals.len() as u64) as u32),
            };
            m.globals.push(Global { ty, mutable: g::boolean(u), init });
            "add-global"
        }
        29 => {
            let tl = m.table.map(|t| t.min).unwrap_or(0);
            let off = match g::byte(u) % 5 {
                0 => tl as i32,
                1 => tl.saturating_sub(1) as i32,
                2 => -1,
                3 => i32::MAX,
                _ => 0,
            };
            let n = g::range_usize(u, 0, 3);
            let nfun = m.num_funcs() as u64;
            let funcs = (0..n).map(|_| g::range_u64(u, 0, nfun + 1) as u32).collect();
            let offset = if g::ratio(u, 1, 4) {
                ConstExpr::GlobalGet(g::range_u64(u, 0, m.globals.len() as u64) as u32)
            } else if g::ratio(u, 1, 8) {
                ConstExpr::I64(off as i64)
            } else {
                ConstExpr::I32(off)
            };
            m.elems.push(Elem { offset, funcs });
            "add-elem"
        }
        30 => {
            let mb = m.memory.map(|t| t.min as u64 * 65536).unwrap_or(0);
            let len = g::range_usize(u, 0, 9);
            let off = match g::byte(u) % 6 {
                0 => mb as i64 - len as i64,
                1 => mb as i64 - len as i64 + 1,
                2 => -1,
                3 => i32::MAX as i64,
                4 => mb as i64,
                _ => 0,
            };
            let offset = if g::ratio(u, 1, 4) {
                ConstExpr::GlobalGet(g::range_u64(u, 0, m.globals.len() as u64) as u32)
            } else if g::ratio(u, 1, 8) {
                ConstExpr::I64(off)
            } else {
                ConstExpr::I32(off as i32)
            };
            m.datas.push(Data { offset, bytes: vec![0xab; len] });
            "add-data"
        }
        31 if nf > 0 => {
            m.funcs[fi].ty = g::range_u64(u, 0, m.types.len() as u64 + 1) as u32;
            "change-func-type"
        }
        32 => {
            if !m.imports.is_empty() {
                let i = g::idx(u, m.imports.len());
                match g::byte(u) % 4 {
                    0 => m.imports[i].ty = m.types.len() as u32,
                    1 => m.imports[i].name = "ünï".into(),
                    2 => m.imports[i].module = "m".repeat(513),
                    _ => m.imports[i].name = "n".repeat(512),
                }
            }
            "mutate-import"
        }
        33 => {
            let name = match g::byte(u) % 4 {
                0 => "name".to_string(),
                1 => "x".repeat(513),
                2 => "ü".to_string(),
                _ => String::new(),
            };
            m.customs.push((name, g::short_bytes(u, 8)));
            "custom-section"
        }
        34 => {
            for gl in m.globals.iter_mut() {
                gl.mutable = false;
            }
            "globals-immutable"
        }
        35 if nf > 0 => {
            // sign extension operator somewhere
            let f = &mut m.funcs[fi];
            let pos = g::idx(u, f.body.len().max(1)).min(f.body.len().saturating_sub(1));
            let op = *g::choose(u, &[NumOp::I32Extend8S, NumOp::I32Extend16S, NumOp::I64Extend8S, NumOp::I64Extend16S, NumOp::I64Extend32S]);
            let c = if op.inputs()[0] == ValType::I32 { Op::I32Const(0x80) } else { Op::I64Const(0x8000) };
            f.body.insert(pos, Op::Drop);
            f.body.insert(pos, Op::Num(op));
            f.body.insert(pos, c);
            "sign-extension"
        }
        39 if nf > 0 => {
            // move a local access onto the end of a locals range: the first index of the next
            // declaration group (possibly of the other type) or exactly the number of locals
            let np = m.types.get(m.funcs[fi].ty as usize).map(|t| t.params.len()).unwrap_or(0) as u64;
            let f = &mut m.funcs[fi];
            let mut ends: Vec<u64> = vec![np];
            let mut acc = np;
            for (n, _) in f.locals.iter() {
                acc += *n as u64;
                ends.push(acc);
            }
            let cands: Vec<usize> = f
                .body
                .iter()
                .enumerate()
                .filter(|(_, o)| matches!(o, Op::LocalGet(_) | Op::LocalSet(_) | Op::LocalTee(_)))
                .map(|(i, _)| i)
                .collect();
            if !cands.is_empty() {
                let pos = *g::choose(u, &cands);
                // the last end (= number of locals) half of the time
                let e = if g::byte(u) % 2 == 0 { *ends.last().unwrap() } else { *g::choose(u, &ends) };
                if let Op::LocalGet(x) | Op::LocalSet(x) | Op::LocalTee(x) = &mut f.body[pos] {
                    *x = e.min(u32::MAX as u64) as u32;
                }
            }
            "local-index-at-range-end"
        }
        _ => {
            if nf > 0 {
                let f = &mut m.funcs[fi];
                f.body.push(Op::End);
            }
            "extra-end"
        }
    }
}

/// Byte-level mutation of an encoded module; returns the operator's name.
pub fn mutate_bytes(u: &mut Unstructured, b: &mut Vec<u8>) -> &'static str {
    if b.is_empty() {
        return "empty";
    }
    match g::byte(u) % 13 {
        0 => {
            let n = g::idx(u, b.len());
            b.truncate(n);
            "truncate"
        }
        12 => {
            // a copy of an earlier (or the same) section placed after a later one, optionally with
            // a custom section right in front of it: always out of order / duplicated
            let secs = scan_sections(b);
            if !secs.is_empty() {
                let i = g::idx(u, secs.len());
                let j = i + g::idx(u, secs.len() - i);
                let (a0, a1) = secs[i];
                let at = secs[j].1;
                let mut ins = Vec::new();
                if g::ratio(u, 2, 3) {
                    // custom section: id 0, size, name
                    let name = b"x";
                    ins.extend_from_slice(&[0x00, (1 + name.len()) as u8, name.len() as u8]);
                    ins.extend_from_slice(name);
                }
                ins.extend_from_slice(&b[a0..a1]);
                let mut nb = b[..at].to_vec();
                nb.extend_from_slice(&ins);
                nb.extend_from_slice(&b[at..]);
                *b = nb;
            }
            "misplaced-section"
        }
        1 | 2 => {
            let i = g::idx(u, b.len());
            b[i] ^= 1 << (g::byte(u) % 8);
            "bit-flip"
        }
        3 => {
            let i = g::idx(u, b.len());
            b[i] = g::byte(u);
            "set-byte"
        }
        4 => {
            let i = g::idx(u, b.len());
            let v = *g::choose(u, &[0x00u8, 0x7f, 0x80, 0xff, 0x0b, 0x40]);
            b[i] = v;
            "set-special-byte"
        }
        5 => {
            // turn a byte into an over-long LEB128 sequence
            let i = g::idx(u, b.len());
            let k = g::range_usize(u, 1, 5);
            let low = b[i] & 0x7f;
            b[i] = low | 0x80;
            for j in 0..k {
                b.insert(i + 1 + j, if j + 1 == k { 0x00 } else { 0x80 });
            }
            "overlong-leb"
        }
        6 => {
            let i = g::idx(u, b.len());
            b.insert(i, g::byte(u));
            "insert-byte"
        }
        7 => {
            let i = g::idx(u, b.len());
            b.remove(i);
            "delete-byte"
        }
        8 => {
            // duplicate a chunk
            let i = g::idx(u, b.len());
            let n = g::range_usize(u, 1, 16).min(b.len() - i);
            let chunk = b[i..i + n].to_vec();
            let at = g::idx(u, b.len());
            for (k, x) in chunk.into_iter().enumerate() {
                b.insert(at + k, x);
            }
            "duplicate-chunk"
        }
        9 => {
            // inflate: set 4 consecutive bytes to a large LEB128 number
            let i = g::idx(u, b.len());
            for (k, x) in [0xff, 0xff, 0xff, 0x0f].iter().enumerate() {
                if i + k < b.len() {
                    b[i + k] = *x;
                }
            }
            "inflate-count"
        }
        10 => {
            let extra = g::short_bytes(u, 12);
            b.extend_from_slice(&extra);
            "append-bytes"
        }
        _ => {
            // swap two whole sections if the module parses far enough to find them
            let secs = scan_sections(b);
            if secs.len() >= 2 {
                let i = g::idx(u, secs.len() - 1);
                let (a0, a1) = secs[i];
                let (b0, b1) = secs[i + 1];
                let mut nb = b[..a0].to_vec();
                nb.extend_from_slice(&b[b0..b1]);
                if g::boolean(u) {
                    nb.extend_from_slice(&b[a0..a1]);
                } else {
                    // duplicate instead of swap
                    nb.extend_from_slice(&b[b0..b1]);
                }
                nb.extend_from_slice(&b[b1..]);
                *b = nb;
            }
            "section-shuffle"
        }
    }
}

/// (start, end) byte ranges of the top-level sections as far as they can be delimited.
fn scan_sections(b: &[u8]) -> Vec<(usize, usize)> {
    let mut secs = Vec::new();
    let mut p = 8;
    while p < b.len() {
        let start = p;
        p += 1;
        let mut size = 0usize;
        let mut shift = 0;
        loop {
            if p >= b.len() || shift > 28 {
                break;
            }
            let x = b[p];
            p += 1;
            size |= ((x & 0x7f) as usize) << shift;
            shift += 7;
            if x & 0x80 == 0 {
                break;
            }
        }
        p = p.saturating_add(size);
        if p > b.len() {
            break;
        }
        secs.push((start, p));
    }
    secs
}
