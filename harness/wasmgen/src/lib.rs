//! wasmgen: typed Wasm module generator, binary encoder, reference interpreter, reference
//! validator and independent cost tables. No dependency on `/repo`.
pub mod ast;
pub mod cost;
pub mod encode;
pub mod gen;
pub mod interp;
pub mod hostmodel;
pub mod util;
pub mod decode;
pub mod mutate;
pub mod validate;
