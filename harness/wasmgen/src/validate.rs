//! Reference validator: the validation algorithm of the WebAssembly 1.0 specification appendix
//! over our AST, plus the chain's documented restrictions (see DESIGN.md C09). Written from the
//! spec and the documentation of the restrictions; shares no code with `/repo`.
use crate::ast::*;

#[derive(Debug, Clone, Copy, PartialEq, Eq)]
pub enum Config {
    /// Protocols 1-5: `global.get` of an immutable module global allowed in segment offsets, no
    /// sign-extension operators.
    V0,
    /// Protocol 6 on: no globals in offsets, sign-extension operators allowed.
    V1,
}

pub const MAX_LOCALS: u64 = 1024;
pub const MAX_STACK_PLUS_LOCALS: u64 = 1024;
pub const MAX_INIT_PAGES: u32 = 32;
pub const MAX_PAGES_LIMIT: u32 = 65536;
pub const MAX_TABLE: u32 = 1000;
pub const MAX_GLOBALS: usize = 1024;
pub const MAX_EXPORTS: usize = 100;
pub const MAX_SWITCH: usize = 4096;
pub const MAX_NAME: usize = 512;
pub const MAX_FUNC_NAME: usize = 100;

pub type VResult = Result<(), String>;

macro_rules! ensure {
    ($c:expr, $($arg:tt)*) => { if !($c) { return Err(format!($($arg)*)); } };
}

fn check_name(n: &str, what: &str) -> VResult {
    ensure!(n.len() <= MAX_NAME, "{what} name longer than {MAX_NAME} bytes");
    ensure!(n.is_ascii(), "{what} name is not ASCII");
    Ok(())
}

type MK = Option<ValType>;

struct Frame {
    is_if:       bool,
    label_type:  BlockType,
    end_type:    BlockType,
    height:      usize,
    unreachable: bool,
}

struct FuncCtx<'a> {
    m:      &'a Module,
    locals: Vec<ValType>,
    result: Option<ValType>,
    cfg:    Config,
}

struct VState {
    opds:       Vec<MK>,
    ctrls:      Vec<Frame>,
    max_height: usize,
}

impl VState {
    fn push(&mut self, t: MK) {
        self.opds.push(t);
        if let Some(f) = self.ctrls.last() {
            if !f.unreachable {
                self.max_height = self.max_height.max(self.opds.len());
            }
        }
    }

    fn pop(&mut self) -> Result<MK, String> {
        let f = self.ctrls.last().ok_or("control stack exhausted")?;
        if self.opds.len() == f.height {
            if f.unreachable {
                Ok(None)
            } else {
                Err("operand stack exhausted for the block".into())
            }
        } else {
            Ok(self.opds.pop().unwrap())
        }
    }

    fn pop_expect(&mut self, e: MK) -> Result<MK, String> {
        let a = self.pop()?;
        match (a, e) {
            (None, e) => Ok(e),
            (a, None) => Ok(a),
            (Some(x), Some(y)) => {
                if x == y {
                    Ok(a)
                } else {
                    Err(format!("type mismatch: have {:?}, expected {:?}", x, y))
                }
            }
        }
    }

    fn push_bt(&mut self, b: BlockType) {
        if let BlockType::Val(t) = b {
            self.push(Some(t))
        }
    }

    fn pop_bt(&mut self, b: BlockType) -> VResult {
        if let BlockType::Val(t) = b {
            self.pop_expect(Some(t))?;
        }
        Ok(())
    }

    fn push_ctrl(&mut self, is_if: bool, label: BlockType, end: BlockType) {
        self.ctrls.push(Frame { is_if, label_type: label, end_type: end, height: self.opds.len(), unreachable: false });
    }

    fn pop_ctrl(&mut self) -> Result<(BlockType, bool), String> {
        let (end, height, is_if) = {
            let f = self.ctrls.last().ok_or("control stack exhausted")?;
            (f.end_type, f.height, f.is_if)
        };
        self.pop_bt(end)?;
        ensure!(self.opds.len() == height, "operand stack not empty at the end of a block");
        self.ctrls.pop();
        Ok((end, is_if))
    }

    fn unreachable(&mut self) -> VResult {
        let f = self.ctrls.last_mut().ok_or("control stack exhausted")?;
        self.opds.truncate(f.height);
        f.unreachable = true;
        Ok(())
    }

    fn label(&self, l: u32) -> Option<BlockType> {
        let l = l as usize;
        if l < self.ctrls.len() {
            Some(self.ctrls[self.ctrls.len() - 1 - l].label_type)
        } else {
            None
        }
    }
}

/// Validate one function body; returns the maximal reachable operand stack height.
fn validate_body(ctx: &FuncCtx, body: &[Op]) -> Result<usize, String> {
    let m = ctx.m;
    let res = BlockType::from_opt(ctx.result);
    let mut s = VState { opds: Vec::new(), ctrls: Vec::new(), max_height: 0 };
    s.push_ctrl(false, res, res);
    const I32: MK = Some(ValType::I32);
    for op in body {
        ensure!(!s.ctrls.is_empty(), "instructions after the end of the function body");
        match op {
            Op::Raw(b) => return Err(format!("unsupported or malformed instruction bytes {:02x?}", b)),
            Op::Unreachable => s.unreachable()?,
            Op::Nop => {}
            Op::Block(bt) => s.push_ctrl(false, *bt, *bt),
            Op::Loop(bt) => s.push_ctrl(false, BlockType::Empty, *bt),
            Op::If(bt) => {
                s.pop_expect(I32)?;
                s.push_ctrl(true, *bt, *bt);
            }
            Op::Else => {
                let (r, is_if) = s.pop_ctrl()?;
                ensure!(is_if, "else without a matching if");
                s.push_ctrl(false, r, r);
            }
            Op::End => {
                let (r, is_if) = s.pop_ctrl()?;
                if is_if {
                    ensure!(r == BlockType::Empty, "if without else must have an empty result type");
                }
                s.push_bt(r);
            }
            Op::Br(l) => {
                let lt = s.label(*l).ok_or("branch to a non-existent label")?;
                s.pop_bt(lt)?;
                s.unreachable()?;
            }
            Op::BrIf(l) => {
                let lt = s.label(*l).ok_or("conditional branch to a non-existent label")?;
                s.pop_expect(I32)?;
                s.pop_bt(lt)?;
                s.push_bt(lt);
            }
            Op::BrTable(ls, d) => {
                ensure!(ls.len() <= MAX_SWITCH, "br_table with more than {MAX_SWITCH} labels");
                let dt = s.label(*d).ok_or("br_table default label does not exist")?;
                for l in ls {
                    let lt = s.label(*l).ok_or("br_table label does not exist")?;
                    ensure!(lt == dt, "br_table labels with different types");
                }
                s.pop_expect(I32)?;
                s.pop_bt(dt)?;
                s.unreachable()?;
            }
            Op::Return => {
                let lt = s.ctrls[0].label_type;
                s.pop_bt(lt)?;
                s.unreachable()?;
            }
            Op::Call(f) => {
                let ty = m.func_type(*f).ok_or("call of a non-existent function")?;
                for p in ty.params.iter().rev() {
                    s.pop_expect(Some(*p))?;
                }
                if let Some(r) = ty.result {
                    s.push(Some(r));
                }
            }
            Op::CallIndirect(t) => {
                ensure!(m.table.is_some(), "call_indirect without a table");
                let ty = m.types.get(*t as usize).ok_or("call_indirect with a non-existent type")?;
                s.pop_expect(I32)?;
                for p in ty.params.iter().rev() {
                    s.pop_expect(Some(*p))?;
                }
                if let Some(r) = ty.result {
                    s.push(Some(r));
                }
            }
            Op::Drop => {
                s.pop()?;
            }
            Op::Select => {
                s.pop_expect(I32)?;
                let t1 = s.pop()?;
                let t2 = s.pop_expect(t1)?;
                s.push(t2);
            }
            Op::LocalGet(i) => {
                let t = *ctx.locals.get(*i as usize).ok_or("local index out of range")?;
                s.push(Some(t));
            }
            Op::LocalSet(i) => {
                let t = *ctx.locals.get(*i as usize).ok_or("local index out of range")?;
                s.pop_expect(Some(t))?;
            }
            Op::LocalTee(i) => {
                let t = *ctx.locals.get(*i as usize).ok_or("local index out of range")?;
                let x = s.pop_expect(Some(t))?;
                s.push(x);
            }
            Op::GlobalGet(i) => {
                let gl = m.globals.get(*i as usize).ok_or("global index out of range")?;
                s.push(Some(gl.ty));
            }
            Op::GlobalSet(i) => {
                let gl = m.globals.get(*i as usize).ok_or("global index out of range")?;
                ensure!(gl.mutable, "global.set of an immutable global");
                s.pop_expect(Some(gl.ty))?;
            }
            Op::Mem { op, align, .. } => {
                ensure!(m.memory.is_some(), "memory instruction without a memory");
                ensure!(*align <= op.max_align(), "alignment larger than natural");
                if op.is_store() {
                    s.pop_expect(Some(op.ty()))?;
                    s.pop_expect(I32)?;
                } else {
                    s.pop_expect(I32)?;
                    s.push(Some(op.ty()));
                }
            }
            Op::MemorySize => {
                ensure!(m.memory.is_some(), "memory.size without a memory");
                s.push(I32);
            }
            Op::MemoryGrow => {
                ensure!(m.memory.is_some(), "memory.grow without a memory");
                s.pop_expect(I32)?;
                s.push(I32);
            }
            Op::I32Const(_) => s.push(I32),
            Op::I64Const(_) => s.push(Some(ValType::I64)),
            Op::Num(n) => {
                if n.is_sign_extension() {
                    ensure!(ctx.cfg == Config::V1, "sign-extension operator not enabled");
                }
                for t in n.inputs().iter().rev() {
                    s.pop_expect(Some(*t))?;
                }
                s.push(Some(n.output()));
            }
        }
    }
    ensure!(s.ctrls.is_empty(), "function body not terminated");
    Ok(s.max_height)
}

fn const_expr_value(m: &Module, c: &ConstExpr, want: ValType, cfg: Config, globals_allowed: bool) -> Result<i64, String> {
    match c {
        ConstExpr::I32(v) => {
            ensure!(want == ValType::I32, "constant expression of type i32, expected i64");
            Ok(*v as i64)
        }
        ConstExpr::I64(v) => {
            ensure!(want == ValType::I64, "constant expression of type i64, expected i32");
            Ok(*v)
        }
        ConstExpr::GlobalGet(i) => {
            ensure!(globals_allowed && cfg == Config::V0, "global.get not allowed in this constant expression");
            let gl = m.globals.get(*i as usize).ok_or("constant expression refers to a non-existent global")?;
            ensure!(gl.ty == want, "global in constant expression has the wrong type");
            ensure!(!gl.mutable, "global in constant expression is mutable");
            match gl.init {
                ConstExpr::I32(v) => Ok(v as i64),
                ConstExpr::I64(v) => Ok(v),
                ConstExpr::GlobalGet(_) => Err("global initialised by global.get".into()),
            }
        }
    }
}

/// Validate a module. `Ok(())` iff it is a well-typed WebAssembly 1.0 module within the chain's
/// restrictions (import/export *policies* of the chain are not part of this function).
pub fn validate(m: &Module, cfg: Config) -> VResult {
    for (n, _) in &m.customs {
        check_name(n, "custom section")?;
    }
    for im in &m.imports {
        check_name(&im.module, "import module")?;
        check_name(&im.name, "import item")?;
        ensure!((im.ty as usize) < m.types.len(), "import refers to a non-existent type");
    }
    if let Some(t) = m.table {
        if let Some(mx) = t.max {
            ensure!(t.min <= mx, "table limits: min > max");
        }
        ensure!(t.min <= MAX_TABLE, "initial table size above {MAX_TABLE}");
    }
    if let Some(t) = m.memory {
        if let Some(mx) = t.max {
            ensure!(t.min <= mx, "memory limits: min > max");
            ensure!(mx <= MAX_PAGES_LIMIT, "memory maximum above 2^16 pages");
        }
        ensure!(t.min <= MAX_INIT_PAGES, "initial memory above {MAX_INIT_PAGES} pages");
    }
    ensure!(m.globals.len() <= MAX_GLOBALS, "more than {MAX_GLOBALS} globals");
    for gl in &m.globals {
        const_expr_value(m, &gl.init, gl.ty, cfg, false)?;
    }
    ensure!(m.start.is_none(), "start functions are not supported");
    for f in &m.funcs {
        ensure!((f.ty as usize) < m.types.len(), "function refers to a non-existent type");
    }
    // code
    for f in &m.funcs {
        let ty = &m.types[f.ty as usize];
        let mut total: u64 = ty.params.len() as u64;
        for (n, _) in &f.locals {
            total += *n as u64;
            ensure!(total <= u32::MAX as u64, "too many locals");
        }
        ensure!(total <= MAX_LOCALS, "more than {MAX_LOCALS} locals");
        let mut locals = ty.params.clone();
        for (n, t) in &f.locals {
            for _ in 0..*n {
                locals.push(*t);
            }
        }
        let ctx = FuncCtx { m, locals, result: ty.result, cfg };
        let h = validate_body(&ctx, &f.body)?;
        ensure!(total + h as u64 <= MAX_STACK_PLUS_LOCALS, "locals + stack height above {MAX_STACK_PLUS_LOCALS}");
    }
    // exports
    ensure!(m.exports.len() <= MAX_EXPORTS, "more than {MAX_EXPORTS} exports");
    let mut seen = std::collections::BTreeSet::new();
    for e in &m.exports {
        check_name(&e.name, "export")?;
        ensure!(seen.insert(e.name.as_str()), "duplicate export name");
        match e.kind {
            ExportKind::Func(i) => {
                ensure!(e.name.len() <= MAX_FUNC_NAME, "exported function name longer than {MAX_FUNC_NAME}");
                ensure!((i as usize) < m.num_funcs(), "export of a non-existent function");
            }
            ExportKind::Table(i) => {
                ensure!(i == 0 && m.table.is_some(), "export of a non-existent table")
            }
            ExportKind::Memory(i) => {
                ensure!(i == 0 && m.memory.is_some(), "export of a non-existent memory")
            }
            ExportKind::Global(i) => ensure!((i as usize) < m.globals.len(), "export of a non-existent global"),
        }
    }
    // element segments
    ensure!(m.elems.is_empty() || m.table.is_some(), "element segment without a table");
    for e in &m.elems {
        let off = const_expr_value(m, &e.offset, ValType::I32, cfg, true)? as i32 as u32;
        ensure!(e.funcs.len() as u64 <= MAX_TABLE as u64, "element segment longer than the maximal table");
        let end = off as u64 + e.funcs.len() as u64;
        ensure!(end <= u32::MAX as u64, "element segment end overflows");
        ensure!(end <= m.table.unwrap().min as u64, "element segment out of table bounds");
        for f in &e.funcs {
            ensure!((*f as usize) < m.num_funcs(), "element segment refers to a non-existent function");
        }
    }
    // data segments
    ensure!(m.datas.is_empty() || m.memory.is_some(), "data segment without a memory");
    for d in &m.datas {
        let off = const_expr_value(m, &d.offset, ValType::I32, cfg, true)? as i32;
        ensure!(off >= 0, "negative data offset");
        let bytes = m.memory.unwrap().min as u64 * 65536;
        ensure!(d.bytes.len() as u64 <= bytes, "data segment longer than initial memory");
        ensure!(off as u64 + d.bytes.len() as u64 <= bytes, "data segment out of initial memory bounds");
    }
    Ok(())
}
