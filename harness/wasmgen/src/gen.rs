//! Typed generator of *valid-by-construction* modules from a choice sequence.
//!
//! Bodies are produced by tracking the operand-type stack and the control stack exactly as the
//! spec's validation algorithm does (including the polymorphic stack in unreachable code), so
//! every emitted instruction is well-typed where it stands. The generator deliberately produces
//! the shapes a register-allocating compiler is sensitive to: values that stay on the operand
//! stack across blocks that write locals, `local.get x ... local.set/tee x` interleavings,
//! branches with and without carried values to every enclosing label including the function label,
//! `br_if` whose value continues to be used on the not-taken path, dead code after unconditional
//! branches, `br_table`, direct/indirect/host calls, memory accesses around the bounds.
//!
//! Termination of the *generated programs*: every loop back-edge and every potentially recursive
//! call is guarded by a reserved mutable "fuel" global that is decremented on each use, unless
//! `unbounded` is requested (metering checks, where the energy budget bounds execution).
use crate::ast::*;
use vcore::gen as g;
use vcore::Unstructured;

#[derive(Debug, Clone)]
pub struct HostImport {
    pub module: String,
    pub name:   String,
    pub ty:     FuncType,
}

#[derive(Debug, Clone)]
pub struct GenConfig {
    pub sign_ext:      bool,
    /// Allow `global.get` of an immutable global as data/element offset (protocol V0 only).
    pub globals_in_offsets: bool,
    pub max_funcs:     usize,
    /// Soft bound on instructions per function body.
    pub max_body:      usize,
    pub max_depth:     usize,
    pub imports:       Vec<HostImport>,
    /// Allow unguarded back-edges and recursion.
    pub unbounded:     bool,
    pub allow_memory:  bool,
    pub allow_table:   bool,
    /// Maximal initial memory pages the generator picks (<= 32).
    pub max_init_pages: u32,
    /// Probability (x/255) of continuing with dead code after an unconditional branch.
    pub dead_code:     u8,
    /// Probability (x/255) that a generated call targets a host import (when there are imports).
    pub host_call_bias: u8,
    /// Extra probability (x/255) per generated statement of emitting a call.
    pub extra_call_weight: u8,
}

impl Default for GenConfig {
    fn default() -> Self {
        GenConfig {
            sign_ext: true,
            globals_in_offsets: false,
            max_funcs: 4,
            max_body: 150,
            max_depth: 6,
            imports: Vec::new(),
            unbounded: false,
            allow_memory: true,
            allow_table: true,
            max_init_pages: 2,
            dead_code: 160,
            host_call_bias: 0,
            extra_call_weight: 0,
        }
    }
}

#[derive(Debug, Clone)]
pub struct Generated {
    pub module:      Module,
    /// Index of the reserved fuel global (mutable i32), if any.
    pub fuel_global: Option<u32>,
}

type MK = Option<ValType>; // None = unknown (polymorphic) type

#[derive(Debug, Clone)]
struct Frame {
    kind:        Kind,
    label_type:  BlockType,
    end_type:    BlockType,
    height:      usize,
    unreachable: bool,
}

#[derive(Debug, Clone, Copy, PartialEq, Eq)]
enum Kind {
    Func,
    Block,
    Loop,
    If,
    Else,
}

struct ModCtx {
    types:      Vec<FuncType>,
    /// types of all functions in the joint index space
    func_types: Vec<u32>,
    nimports:   usize,
    globals:    Vec<(ValType, bool)>,
    fuel:       Option<u32>,
    has_memory: bool,
    mem_bytes:  u32,
    table_len:  u32,
    /// function index stored in each table slot (after applying the element segments in order)
    table_slots: Vec<Option<u32>>,
    cfg:        GenConfig,
}

struct BodyGen<'a, 'u, 'd> {
    u:      &'a mut Unstructured<'d>,
    m:      &'u ModCtx,
    me:     u32,
    locals: Vec<ValType>,
    out:    Vec<Op>,
    stack:  Vec<MK>,
    ctrl:   Vec<Frame>,
    budget: isize,
}

const I32: ValType = ValType::I32;
const I64: ValType = ValType::I64;

fn rnd_type(u: &mut Unstructured) -> ValType {
    if g::boolean(u) {
        I64
    } else {
        I32
    }
}

impl<'a, 'u, 'd> BodyGen<'a, 'u, 'd> {
    fn emit(&mut self, op: Op) {
        self.out.push(op);
        self.budget -= 1;
    }

    fn cur(&self) -> &Frame { self.ctrl.last().unwrap() }

    fn avail(&self) -> usize { self.stack.len() - self.cur().height }

    fn reachable(&self) -> bool { !self.cur().unreachable }

    fn push(&mut self, t: ValType) { self.stack.push(Some(t)) }

    /// Type of the n-th value from the top within the current frame (0 = top).
    fn peek(&self, n: usize) -> Option<MK> {
        if n < self.avail() {
            Some(self.stack[self.stack.len() - 1 - n])
        } else {
            None
        }
    }

    /// Does the stack top (within the frame, with polymorphism) provide the given types
    /// (listed bottom to top)?
    fn provides(&self, tys: &[ValType]) -> bool {
        for (i, t) in tys.iter().rev().enumerate() {
            match self.peek(i) {
                Some(Some(x)) => {
                    if x != *t {
                        return false;
                    }
                }
                Some(None) => {}
                None => return !self.reachable(),
            }
        }
        true
    }

    fn pop_n(&mut self, n: usize) {
        for _ in 0..n {
            if self.avail() > 0 {
                self.stack.pop();
            }
        }
    }

    fn mark_unreachable(&mut self) {
        let h = self.cur().height;
        self.stack.truncate(h);
        self.ctrl.last_mut().unwrap().unreachable = true;
    }

    fn local_of(&mut self, t: ValType) -> Option<u32> {
        let c: Vec<u32> = self.locals.iter().enumerate().filter(|(_, x)| **x == t).map(|(i, _)| i as u32).collect();
        if c.is_empty() {
            None
        } else {
            Some(*g::choose(self.u, &c))
        }
    }

    fn global_of(&mut self, t: ValType, need_mut: bool) -> Option<u32> {
        let c: Vec<u32> = self
            .m
            .globals
            .iter()
            .enumerate()
            .filter(|(i, (x, mu))| *x == t && (!need_mut || *mu) && Some(*i as u32) != self.m.fuel)
            .map(|(i, _)| i as u32)
            .collect();
        if c.is_empty() {
            None
        } else {
            Some(*g::choose(self.u, &c))
        }
    }

    fn emit_const(&mut self, t: ValType) {
        match t {
            I32 => {
                let v = g::boundary_u32(self.u) as i32;
                self.emit(Op::I32Const(v))
            }
            I64 => {
                let v = g::boundary_u64(self.u) as i64;
                self.emit(Op::I64Const(v))
            }
        }
        self.push(t);
    }

    /// Push one value of type `t` by some means.
    fn produce(&mut self, t: ValType) {
        match g::byte(self.u) % 8 {
            0..=2 => {
                if let Some(l) = self.local_of(t) {
                    self.emit(Op::LocalGet(l));
                    self.push(t);
                    return;
                }
            }
            3 => {
                if let Some(gl) = self.global_of(t, false) {
                    self.emit(Op::GlobalGet(gl));
                    self.push(t);
                    return;
                }
            }
            4 => {
                if self.m.has_memory && t == I32 {
                    self.emit(Op::MemorySize);
                    self.push(I32);
                    return;
                }
            }
            5 => {
                if self.m.has_memory {
                    self.gen_addr();
                    self.gen_load_of(t);
                    return;
                }
            }
            _ => {}
        }
        self.emit_const(t);
    }

    /// Make sure the stack top provides `tys` (bottom to top); push what is missing.
    fn ensure(&mut self, tys: &[ValType]) {
        if self.provides(tys) && (self.reachable() || g::boolean(self.u)) {
            return;
        }
        // Find the longest suffix of the current stack that matches a prefix of `tys`.
        let mut keep = 0;
        let maxk = tys.len().min(self.avail());
        for k in (1..=maxk).rev() {
            let ok = (0..k).all(|i| {
                let have = self.peek(k - 1 - i).unwrap();
                have.map(|h| h == tys[i]).unwrap_or(true)
            });
            if ok {
                keep = k;
                break;
            }
        }
        for t in &tys[keep..] {
            self.produce(*t);
        }
    }

    /// An i32 address on the stack: mostly in bounds, sometimes around the end of memory.
    fn gen_addr(&mut self) {
        let mem = self.m.mem_bytes;
        let v: u32 = match g::byte(self.u) % 10 {
            0..=4 => {
                if mem >= 16 {
                    g::range_u64(self.u, 0, (mem - 16).min(256) as u64) as u32
                } else {
                    0
                }
            }
            5 => mem.wrapping_sub(g::range_u64(self.u, 0, 9) as u32),
            6 => mem.wrapping_add(g::range_u64(self.u, 0, 9) as u32),
            7 => {
                if mem >= 65536 {
                    65536 - g::range_u64(self.u, 0, 9) as u32
                } else {
                    0
                }
            }
            8 => g::boundary_u32(self.u),
            _ => {
                // computed address: take whatever i32 producer
                self.produce(I32);
                return;
            }
        };
        self.emit(Op::I32Const(v as i32));
        self.push(I32);
    }

    fn memarg(&mut self, op: MemOp) -> (u32, u32) {
        let align = g::range_u64(self.u, 0, op.max_align() as u64) as u32;
        let offset = match g::byte(self.u) % 8 {
            0..=4 => 0,
            5 => g::range_u64(self.u, 0, 16) as u32,
            6 => self.m.mem_bytes.wrapping_sub(g::range_u64(self.u, 0, 9) as u32),
            _ => g::boundary_u32(self.u),
        };
        (align, offset)
    }

    /// Emit a load producing type `t`; expects an i32 address on the stack.
    fn gen_load_of(&mut self, t: ValType) {
        let c: Vec<MemOp> = MemOp::ALL.iter().copied().filter(|m| !m.is_store() && m.ty() == t).collect();
        let op = *g::choose(self.u, &c);
        let (align, offset) = self.memarg(op);
        self.pop_n(1);
        self.emit(Op::Mem { op, align, offset });
        self.push(t);
    }

    fn gen_store(&mut self) {
        let c: Vec<MemOp> = MemOp::ALL.iter().copied().filter(|m| m.is_store()).collect();
        let op = *g::choose(self.u, &c);
        if !self.provides(&[I32, op.ty()]) {
            self.gen_addr();
            self.produce(op.ty());
        }
        let (align, offset) = self.memarg(op);
        self.pop_n(2);
        self.emit(Op::Mem { op, align, offset });
    }

    fn gen_numop(&mut self) {
        // prefer an operator applicable to what is on the stack
        let mut cands: Vec<NumOp> = Vec::new();
        for op in NumOp::ALL {
            if op.is_sign_extension() && !self.m.cfg.sign_ext {
                continue;
            }
            if self.avail() >= op.inputs().len() && self.provides(op.inputs()) {
                cands.push(*op);
            }
        }
        let op = if !cands.is_empty() && g::ratio(self.u, 7, 8) {
            *g::choose(self.u, &cands)
        } else {
            let all: Vec<NumOp> =
                NumOp::ALL.iter().copied().filter(|o| self.m.cfg.sign_ext || !o.is_sign_extension()).collect();
            let op = *g::choose(self.u, &all);
            self.ensure(op.inputs());
            op
        };
        // make division-like operators hit their special values sometimes
        self.pop_n(op.inputs().len());
        self.emit(Op::Num(op));
        self.push(op.output());
    }

    fn dec_fuel(&mut self, f: u32) {
        self.emit(Op::GlobalGet(f));
        self.emit(Op::I32Const(1));
        self.emit(Op::Num(NumOp::I32Sub));
        self.emit(Op::GlobalSet(f));
    }

    fn label_type(&self, l: u32) -> BlockType { self.ctrl[self.ctrl.len() - 1 - l as usize].label_type }

    fn label_is_loop(&self, l: u32) -> bool { self.ctrl[self.ctrl.len() - 1 - l as usize].kind == Kind::Loop }

    fn pick_label(&mut self) -> u32 {
        let n = self.ctrl.len();
        // bias towards the function label and the innermost labels
        match g::byte(self.u) % 4 {
            0 => (n - 1) as u32,
            1 => 0,
            _ => g::idx(self.u, n) as u32,
        }
    }

    fn ensure_label_value(&mut self, l: u32) {
        if let BlockType::Val(t) = self.label_type(l) {
            self.ensure(&[t]);
        }
    }

    fn gen_br(&mut self) {
        let l = self.pick_label();
        if self.label_is_loop(l) && !self.m.cfg.unbounded {
            // guarded back-edge: if fuel { fuel -= 1; br l+1 }
            let Some(f) = self.m.fuel else { return };
            self.emit(Op::GlobalGet(f));
            self.emit(Op::If(BlockType::Empty));
            self.dec_fuel(f);
            self.emit(Op::Br(l + 1));
            self.emit(Op::End);
            return;
        }
        self.ensure_label_value(l);
        self.emit(Op::Br(l));
        self.mark_unreachable();
    }

    fn gen_br_if(&mut self) {
        let l = self.pick_label();
        if self.label_is_loop(l) && !self.m.cfg.unbounded {
            let Some(f) = self.m.fuel else { return };
            self.ensure(&[I32]);
            self.pop_n(1);
            self.emit(Op::If(BlockType::Empty));
            self.emit(Op::GlobalGet(f));
            self.emit(Op::If(BlockType::Empty));
            self.dec_fuel(f);
            self.emit(Op::Br(l + 2));
            self.emit(Op::End);
            self.emit(Op::End);
            return;
        }
        match self.label_type(l) {
            BlockType::Val(t) => self.ensure(&[t, I32]),
            BlockType::Empty => self.ensure(&[I32]),
        }
        self.pop_n(1);
        self.emit(Op::BrIf(l));
        // the carried value (if any) stays on the stack with the label's type
        if let BlockType::Val(t) = self.label_type(l) {
            self.pop_n(1);
            self.push(t);
        }
    }

    fn gen_br_table(&mut self) {
        let n = self.ctrl.len() as u32;
        let d = self.pick_label();
        let lt = self.label_type(d);
        let unb = self.m.cfg.unbounded;
        let ok: Vec<u32> = (0..n).filter(|l| self.label_type(*l) == lt && (unb || !self.label_is_loop(*l))).collect();
        if !unb && self.label_is_loop(d) {
            return;
        }
        let k = g::range_usize(self.u, 0, 5);
        let mut ls = Vec::new();
        for _ in 0..k {
            if ok.is_empty() {
                break;
            }
            ls.push(*g::choose(self.u, &ok));
        }
        match lt {
            BlockType::Val(t) => self.ensure(&[t, I32]),
            BlockType::Empty => self.ensure(&[I32]),
        }
        self.emit(Op::BrTable(ls, d));
        self.mark_unreachable();
    }

    fn gen_return(&mut self) {
        let l = (self.ctrl.len() - 1) as u32;
        self.ensure_label_value(l);
        self.emit(Op::Return);
        self.mark_unreachable();
    }

    fn push_args_and_call(&mut self, callee: u32, indirect_ty: Option<u32>, exact_slot: Option<u32>) {
        let ty = match indirect_ty {
            Some(t) => self.m.types[t as usize].clone(),
            None => self.m.types[self.m.func_types[callee as usize] as usize].clone(),
        };
        match indirect_ty {
            Some(t) => {
                let mut need = ty.params.clone();
                need.push(I32);
                if !self.provides(&need) {
                    self.ensure(&ty.params);
                    // table index: in range mostly, sometimes out of range
                    let tl = self.m.table_len;
                    let idx = match if exact_slot.is_some() { 2 } else { g::byte(self.u) % 6 } {
                        2 if exact_slot.is_some() => exact_slot.unwrap(),
                        0 => tl,
                        1 => g::boundary_u32(self.u),
                        _ => {
                            if tl > 0 {
                                g::range_u64(self.u, 0, tl as u64 - 1) as u32
                            } else {
                                0
                            }
                        }
                    };
                    self.emit(Op::I32Const(idx as i32));
                    self.push(I32);
                }
                self.pop_n(need.len());
                self.emit(Op::CallIndirect(t));
            }
            None => {
                self.ensure(&ty.params);
                self.pop_n(ty.params.len());
                self.emit(Op::Call(callee));
            }
        }
        if let Some(r) = ty.result {
            self.push(r);
        }
    }

    fn gen_call(&mut self) {
        let nf = self.m.func_types.len() as u32;
        if nf == 0 {
            return;
        }
        let indirect = self.m.table_len > 0 && self.m.cfg.allow_table && g::ratio(self.u, 1, 4);
        // a populated table slot together with the exact type of the function in it
        let filled: Vec<(u32, u32)> = self
            .m
            .table_slots
            .iter()
            .enumerate()
            .filter_map(|(i, f)| f.map(|f| (i as u32, f)))
            .collect();
        let mut exact_slot: Option<u32> = None;
        let (callee, ity) = if indirect {
            if !filled.is_empty() && g::ratio(self.u, 2, 3) {
                // prefer slots holding host imports when host calls are wanted
                let hosts: Vec<(u32, u32)> = filled.iter().copied().filter(|(_, f)| (*f as usize) < self.m.nimports).collect();
                let (slot, f) = if !hosts.is_empty() && g::byte(self.u) < self.m.cfg.host_call_bias {
                    *g::choose(self.u, &hosts)
                } else {
                    *g::choose(self.u, &filled)
                };
                exact_slot = Some(slot);
                // any index of a structurally equal type will do
                let t = self.m.func_types[f as usize];
                let same: Vec<u32> = (0..self.m.types.len() as u32).filter(|i| self.m.types[*i as usize] == self.m.types[t as usize]).collect();
                let t = if same.len() > 1 { *g::choose(self.u, &same) } else { t };
                (0, Some(t))
            } else {
                (0, Some(g::idx(self.u, self.m.types.len()) as u32))
            }
        } else if self.m.nimports > 0 && g::byte(self.u) < self.m.cfg.host_call_bias {
            (g::idx(self.u, self.m.nimports) as u32, None)
        } else {
            (g::idx(self.u, nf as usize) as u32, None)
        };
        let is_import = !indirect && (callee as usize) < self.m.nimports;
        let may_recurse = indirect || (!is_import && callee <= self.me);
        if may_recurse && !self.m.cfg.unbounded {
            let Some(f) = self.m.fuel else { return };
            let ty = match ity {
                Some(t) => self.m.types[t as usize].clone(),
                None => self.m.types[self.m.func_types[callee as usize] as usize].clone(),
            };
            if self.ctrl.len() + 1 > self.m.cfg.max_depth + 2 {
                return;
            }
            // if fuel { fuel -= 1; args; call } else { default }
            self.emit(Op::GlobalGet(f));
            let bt = BlockType::from_opt(ty.result);
            self.emit(Op::If(bt));
            let h = self.stack.len();
            self.ctrl.push(Frame { kind: Kind::If, label_type: bt, end_type: bt, height: h, unreachable: false });
            self.dec_fuel(f);
            self.push_args_and_call(callee, ity, exact_slot);
            if let Some(r) = ty.result {
                self.stack.truncate(h);
                self.emit(Op::Else);
                match r {
                    I32 => self.emit(Op::I32Const(0)),
                    I64 => self.emit(Op::I64Const(0)),
                }
            } else {
                self.stack.truncate(h);
            }
            self.emit(Op::End);
            self.ctrl.pop();
            if let Some(r) = ty.result {
                self.push(r);
            }
        } else {
            self.push_args_and_call(callee, ity, exact_slot);
        }
    }

    /// Bring the stack of the current frame into the shape required to close it.
    fn close_shape(&mut self, end: BlockType) {
        match end {
            BlockType::Empty => {
                while self.avail() > 0 {
                    self.pop_n(1);
                    self.emit(Op::Drop);
                }
            }
            BlockType::Val(t) => {
                let top_ok = matches!(self.peek(0), Some(x) if x.map(|h| h == t).unwrap_or(true));
                if top_ok && self.avail() == 1 {
                    return;
                }
                if self.avail() == 0 {
                    if self.reachable() || g::boolean(self.u) {
                        self.produce(t);
                    }
                    return;
                }
                if top_ok && self.avail() > 1 {
                    // keep the computed value: stash it in a local of the same type if there is one
                    if let Some(l) = self.local_of(t) {
                        self.pop_n(1);
                        self.emit(Op::LocalSet(l));
                        while self.avail() > 0 {
                            self.pop_n(1);
                            self.emit(Op::Drop);
                        }
                        self.emit(Op::LocalGet(l));
                        self.push(t);
                        return;
                    }
                }
                while self.avail() > 0 {
                    self.pop_n(1);
                    self.emit(Op::Drop);
                }
                self.produce(t);
            }
        }
    }

    fn open(&mut self, kind: Kind, bt: BlockType) {
        let label_type = if kind == Kind::Loop { BlockType::Empty } else { bt };
        let h = self.stack.len();
        self.ctrl.push(Frame { kind, label_type, end_type: bt, height: h, unreachable: false });
    }

    fn gen_structured(&mut self) {
        if self.ctrl.len() > self.m.cfg.max_depth {
            return;
        }
        let bt = match g::byte(self.u) % 3 {
            0 => BlockType::Empty,
            1 => BlockType::Val(I32),
            _ => BlockType::Val(I64),
        };
        let which = g::byte(self.u) % 4;
        let inner_budget = g::range_usize(self.u, 1, 24) as isize;
        match which {
            0 | 1 => {
                self.emit(Op::Block(bt));
                self.open(Kind::Block, bt);
                self.gen_seq(inner_budget);
                self.close_shape(bt);
                self.emit(Op::End);
                self.finish_frame(bt);
            }
            2 => {
                self.emit(Op::Loop(bt));
                self.open(Kind::Loop, bt);
                self.gen_seq(inner_budget);
                self.close_shape(bt);
                self.emit(Op::End);
                self.finish_frame(bt);
            }
            _ => {
                self.ensure(&[I32]);
                self.pop_n(1);
                let with_else = bt != BlockType::Empty || g::boolean(self.u);
                self.emit(Op::If(bt));
                self.open(Kind::If, bt);
                self.gen_seq(inner_budget);
                self.close_shape(bt);
                if with_else {
                    self.emit(Op::Else);
                    let fr = self.ctrl.pop().unwrap();
                    self.stack.truncate(fr.height);
                    self.open(Kind::Else, bt);
                    let b2 = g::range_usize(self.u, 0, 16) as isize;
                    self.gen_seq(b2);
                    self.close_shape(bt);
                }
                self.emit(Op::End);
                self.finish_frame(bt);
            }
        }
    }

    fn finish_frame(&mut self, bt: BlockType) {
        let fr = self.ctrl.pop().unwrap();
        self.stack.truncate(fr.height);
        if let BlockType::Val(t) = bt {
            self.push(t);
        }
    }

    /// A counted loop (always terminates on its own): the classic shape compilers see.
    fn gen_counted_loop(&mut self) {
        let Some(c) = self.local_of(I32) else { return };
        if self.ctrl.len() > self.m.cfg.max_depth {
            return;
        }
        let n = g::range_u64(self.u, 0, 6) as i32;
        self.emit(Op::I32Const(n));
        self.emit(Op::LocalSet(c));
        self.emit(Op::Loop(BlockType::Empty));
        self.open(Kind::Loop, BlockType::Empty);
        let b = g::range_usize(self.u, 0, 12) as isize;
        // the back-edge is only emitted if the body turns out not to write the counter
        let start = self.out.len();
        self.gen_seq(b);
        let wrote = self.out[start..].iter().any(|o| matches!(o, Op::LocalSet(x) | Op::LocalTee(x) if *x == c));
        self.close_shape(BlockType::Empty);
        if !wrote && self.reachable() {
            self.emit(Op::LocalGet(c));
            self.emit(Op::I32Const(1));
            self.emit(Op::Num(NumOp::I32Sub));
            self.emit(Op::LocalTee(c));
            self.emit(Op::I32Const(0));
            self.emit(Op::Num(NumOp::I32GtS));
            self.emit(Op::BrIf(0));
        }
        self.emit(Op::End);
        self.finish_frame(BlockType::Empty);
    }

    fn gen_one(&mut self) {
        if self.m.cfg.extra_call_weight > 0 && g::byte(self.u) < self.m.cfg.extra_call_weight {
            self.gen_call();
            return;
        }
        let r = g::byte(self.u);
        match r % 32 {
            0..=4 => {
                let t = rnd_type(self.u);
                self.produce(t)
            }
            5..=9 => self.gen_numop(),
            10 | 11 => {
                // local.set / local.tee of whatever is on top, or of a fresh value
                let t = match self.peek(0) {
                    Some(Some(t)) => t,
                    _ => rnd_type(self.u),
                };
                if let Some(l) = self.local_of(t) {
                    self.ensure(&[t]);
                    if g::boolean(self.u) {
                        self.pop_n(1);
                        self.emit(Op::LocalSet(l));
                    } else {
                        self.pop_n(1);
                        self.emit(Op::LocalTee(l));
                        self.push(t);
                    }
                }
            }
            12 => {
                let t = match self.peek(0) {
                    Some(Some(t)) => t,
                    _ => rnd_type(self.u),
                };
                if let Some(gl) = self.global_of(t, true) {
                    self.ensure(&[t]);
                    self.pop_n(1);
                    self.emit(Op::GlobalSet(gl));
                }
            }
            13 => {
                if self.avail() > 0 || !self.reachable() {
                    self.pop_n(1);
                    self.emit(Op::Drop);
                }
            }
            14 => {
                // select
                let t = match (self.peek(1), self.peek(2)) {
                    (Some(Some(a)), Some(Some(b))) if a == b && self.peek(0) == Some(Some(I32)) => Some(a),
                    _ => None,
                };
                match t {
                    Some(t) => {
                        self.pop_n(3);
                        self.emit(Op::Select);
                        self.push(t);
                    }
                    None => {
                        if !self.reachable() && self.avail() == 0 && g::boolean(self.u) {
                            // fully polymorphic select in dead code
                            self.emit(Op::Select);
                            self.stack.push(None);
                        } else {
                            let t = rnd_type(self.u);
                            self.produce(t);
                            self.produce(t);
                            self.produce(I32);
                            self.pop_n(3);
                            self.emit(Op::Select);
                            self.push(t);
                        }
                    }
                }
            }
            15 | 16 => {
                if self.m.has_memory {
                    if g::boolean(self.u) {
                        self.gen_store()
                    } else {
                        let t = rnd_type(self.u);
                        if !self.provides(&[I32]) {
                            self.gen_addr();
                        }
                        self.gen_load_of(t);
                    }
                }
            }
            17 => {
                if self.m.has_memory {
                    if !self.provides(&[I32]) || g::ratio(self.u, 3, 4) {
                        let n = match g::byte(self.u) % 8 {
                            0..=3 => 0,
                            4 | 5 => 1,
                            6 => 2,
                            _ => g::boundary_u32(self.u) as i32,
                        };
                        self.emit(Op::I32Const(n));
                        self.push(I32);
                    }
                    self.pop_n(1);
                    self.emit(Op::MemoryGrow);
                    self.push(I32);
                }
            }
            18..=21 => self.gen_structured(),
            22 => self.gen_counted_loop(),
            23 | 24 => self.gen_br_if(),
            25 => self.gen_br(),
            26 => self.gen_br_table(),
            27 => {
                if g::ratio(self.u, 1, 3) {
                    self.gen_return()
                } else {
                    self.gen_br_if()
                }
            }
            28 | 29 => self.gen_call(),
            30 => self.emit(Op::Nop),
            _ => {
                if g::ratio(self.u, 1, 8) {
                    self.emit(Op::Unreachable);
                    self.mark_unreachable();
                } else {
                    self.gen_numop()
                }
            }
        }
    }

    fn gen_seq(&mut self, budget: isize) {
        let stop_at = self.budget - budget;
        while self.budget > stop_at && !self.u.is_empty() {
            if !self.reachable() {
                // in dead code: continue only sometimes
                if g::byte(self.u) > self.m.cfg.dead_code {
                    break;
                }
            }
            // keep the operand stack modest
            if self.stack.len() > 40 {
                self.pop_n(1);
                self.emit(Op::Drop);
                continue;
            }
            self.gen_one();
        }
    }
}

/// Generate a module. `u` is consumed as far as needed.
pub fn gen_module(u: &mut Unstructured, cfg: &GenConfig) -> Generated {
    let mut m = Module::default();
    // types
    let ntypes = g::range_usize(u, 1, 4);
    for _ in 0..ntypes {
        let np = g::range_usize(u, 0, 3);
        let params = (0..np).map(|_| rnd_type(u)).collect();
        let result = match g::byte(u) % 3 {
            0 => None,
            1 => Some(I32),
            _ => Some(I64),
        };
        let t = FuncType { params, result };
        // the type section may declare the same function type more than once (call_indirect compares
        // types structurally, not by index)
        if !m.types.contains(&t) || g::ratio(u, 1, 3) {
            m.types.push(t);
        }
    }
    for imp in &cfg.imports {
        let ti = match m.types.iter().position(|t| *t == imp.ty) {
            Some(i) => i,
            None => {
                m.types.push(imp.ty.clone());
                m.types.len() - 1
            }
        };
        m.imports.push(Import { module: imp.module.clone(), name: imp.name.clone(), ty: ti as u32 });
    }
    // memory
    if cfg.allow_memory && g::ratio(u, 3, 4) {
        let min = match g::byte(u) % 8 {
            0 => 0,
            1..=5 => 1,
            6 => 2.min(cfg.max_init_pages),
            _ => g::range_u64(u, 0, cfg.max_init_pages as u64) as u32,
        };
        let max = match g::byte(u) % 16 {
            0 => None,
            1 => Some(65536),
            2..=5 => Some(min),
            6..=10 => Some(min + 1),
            _ => Some(min + 3),
        };
        m.memory = Some(Limits { min, max });
    }
    // globals
    let ng = g::range_usize(u, 0, 3);
    for _ in 0..ng {
        let ty = rnd_type(u);
        let init = match ty {
            I32 => ConstExpr::I32(g::boundary_u32(u) as i32),
            I64 => ConstExpr::I64(g::boundary_u64(u) as i64),
        };
        m.globals.push(Global { ty, mutable: g::boolean(u), init });
    }
    let fuel = if cfg.unbounded {
        None
    } else {
        let v = g::range_u64(u, 0, 12) as i32;
        m.globals.push(Global { ty: I32, mutable: true, init: ConstExpr::I32(v) });
        Some(m.globals.len() as u32 - 1)
    };
    // functions: types first
    let nf = g::range_usize(u, 1, cfg.max_funcs.max(1));
    let mut ftypes = Vec::new();
    for _ in 0..nf {
        ftypes.push(g::idx(u, m.types.len()) as u32);
    }
    let mut func_types: Vec<u32> = m.imports.iter().map(|i| i.ty).collect();
    func_types.extend(ftypes.iter().copied());
    // table
    let mut table_len = 0;
    if cfg.allow_table && g::ratio(u, 1, 2) {
        let min = g::range_u64(u, 0, 6) as u32;
        let max = match g::byte(u) % 3 {
            0 => None,
            1 => Some(min),
            _ => Some(min + g::range_u64(u, 0, 3) as u32),
        };
        m.table = Some(Limits { min, max });
        table_len = min;
        if min > 0 {
            let nsegs = g::range_usize(u, 0, 2);
            for _ in 0..nsegs {
                let off = g::range_u64(u, 0, min as u64) as u32;
                let n = g::range_u64(u, 0, (min - off) as u64) as usize;
                let funcs = (0..n).map(|_| g::idx(u, func_types.len()) as u32).collect();
                m.elems.push(Elem { offset: ConstExpr::I32(off as i32), funcs });
            }
        }
    }
    // data segments
    if let Some(mem) = m.memory {
        let bytes = mem.min as u64 * 65536;
        if bytes > 0 {
            let nd = g::range_usize(u, 0, 3);
            for _ in 0..nd {
                let len = g::range_usize(u, 0, 24);
                let prev_off = m.datas.last().and_then(|d: &Data| match d.offset {
                    ConstExpr::I32(o) => Some(o as u32 as u64),
                    _ => None,
                });
                let off = match (g::byte(u) % 6, prev_off) {
                    (0, _) => 0,
                    (1, _) => bytes - len as u64,
                    // overlap the previous segment
                    (2 | 3, Some(p)) => (p + g::range_u64(u, 0, 3)).min(bytes - len as u64),
                    _ => g::range_u64(u, 0, (bytes - len as u64).min(300)),
                };
                let mut offset = ConstExpr::I32(off as u32 as i32);
                if cfg.globals_in_offsets && g::ratio(u, 1, 4) {
                    // an immutable i32 global whose value keeps the segment in bounds
                    if let Some((gi, _)) = m.globals.iter().enumerate().find(|(_, gl)| {
                        !gl.mutable
                            && matches!(gl.init, ConstExpr::I32(v) if (v as u32 as u64) + len as u64 <= bytes)
                    }) {
                        offset = ConstExpr::GlobalGet(gi as u32);
                    }
                }
                let content = if g::ratio(u, 1, 4) { vec![0u8; len] } else { g::bytes(u, len).iter().map(|b| b | 1).collect() };
                m.datas.push(Data { offset, bytes: content });
            }
        }
    }
    let mut table_slots: Vec<Option<u32>> = vec![None; table_len as usize];
    for e in &m.elems {
        if let ConstExpr::I32(off) = e.offset {
            for (i, f) in e.funcs.iter().enumerate() {
                if let Some(s) = table_slots.get_mut(off as usize + i) {
                    *s = Some(*f);
                }
            }
        }
    }
    let ctx = ModCtx {
        table_slots,
        types: m.types.clone(),
        func_types,
        nimports: m.imports.len(),
        globals: m.globals.iter().map(|gl| (gl.ty, gl.mutable)).collect(),
        fuel,
        has_memory: m.memory.is_some(),
        mem_bytes: m.memory.map(|l| l.min * 65536).unwrap_or(0),
        table_len,
        cfg: cfg.clone(),
    };
    // bodies
    for (i, ty) in ftypes.iter().enumerate() {
        let fty = m.types[*ty as usize].clone();
        let mut locals_decl: Vec<(u32, ValType)> = Vec::new();
        let ngroups = g::range_usize(u, 0, 3);
        for _ in 0..ngroups {
            let n = match g::byte(u) % 10 {
                0..=5 => 1,
                6 => 2,
                7 => 3,
                8 => *g::choose(u, &[15u32, 16, 17, 31, 32, 33]),
                _ => 0,
            };
            locals_decl.push((n, rnd_type(u)));
        }
        // always one scratch local of each type
        locals_decl.push((1, I32));
        locals_decl.push((1, I64));
        let mut locals: Vec<ValType> = fty.params.clone();
        for (n, t) in &locals_decl {
            for _ in 0..*n {
                locals.push(*t);
            }
        }
        let me = (m.imports.len() + i) as u32;
        let end = BlockType::from_opt(fty.result);
        let mut bg = BodyGen {
            u,
            m: &ctx,
            me,
            locals,
            out: Vec::new(),
            stack: Vec::new(),
            ctrl: vec![Frame { kind: Kind::Func, label_type: end, end_type: end, height: 0, unreachable: false }],
            budget: cfg.max_body as isize,
        };
        let b = bg.budget;
        bg.gen_seq(b);
        bg.close_shape(end);
        bg.out.push(Op::End);
        let body = std::mem::take(&mut bg.out);
        m.funcs.push(Func { ty: *ty, locals: locals_decl, body });
        m.exports.push(Export { name: format!("f{}", i), kind: ExportKind::Func(me) });
    }
    if m.memory.is_some() && g::boolean(u) {
        m.exports.push(Export { name: "memory".into(), kind: ExportKind::Memory(0) });
    }
    Generated { module: m, fuel_global: fuel }
}

/// Boundary-biased argument values for a function type (raw representation).
pub fn gen_args(u: &mut Unstructured, ty: &FuncType) -> Vec<u64> {
    ty.params
        .iter()
        .map(|t| match *t {
            I32 => g::boundary_u32(u) as u64,
            I64 => g::boundary_u64(u),
        })
        .collect()
}
